(** C05 — Maintenance renews what is due, once, and keeps serving valid certificates.

    Statements only (each closed by [exact] of a lemma of [Maintain.Proofs] / [Maintain.Inv]),
    about the model [Maintain.Model]: states hold shared storage, the certificate cache, the
    job manager's jobs, passes between scan and act, the issuer's mood; a history is any list
    of events [PassScan p | PassAct p | ExtRenew n sans | SetIssuer n fails | JobStep n k |
    Manage n async]. All theorems hold for every well-formed state ([WF]: an invariant,
    [C05_wf_invariant]) and every history; parameters: [od] = which names are served by an
    on-demand configuration, [idue] = whether the issuer hands out certificates that are
    already due. *)
From Coq Require Import List Arith Bool Lia NArith.
From CM Require Import Maintain.Model Maintain.Spec Maintain.Base Maintain.Inv Maintain.Proofs
  Maintain.SpecSound Maintain.XModel Maintain.XProofs Maintain.XSound Maintain.Issuers Maintain.IssuersProofs Maintain.FinalProofs.
From CM Require Maintain.Check.
From CM Require Gen.Consts.
Import ListNotations.

(** ** Invariant. Its components include: identities are unique; what is stored under a name is a
    managed certificate for that name; passes and renewal jobs only ever hold certificates that
    are managed, not on-demand and due; at most one renewal job per name; at most one job
    holds a name's lock. *)
Theorem C05_wf_invariant : forall od idue s h, WF od s -> WF od (run od idue s h).
Proof. exact WF_run. Qed.
Print Assumptions C05_wf_invariant.

(** ** "Each maintenance pass ... leaves those outside their renewal window untouched" —
    in fact nothing (no pass, job, retry, manage call, external renewal, in any order) ever
    takes a certificate out of the cache that is not due, or unmanaged, or managed on demand;
    it keeps answering for all of its names. *)
Theorem C05_pass_leaves_not_due_untouched : forall od idue s h c,
  WF od s -> In c (cache s) ->
  cdue c = false \/ cman c = false \/ od (chead c) = true ->
  In c (cache (run od idue s h)) /\
  forall m, In m (cnames c) -> In c (resolve m (cache (run od idue s h))).
Proof.
  intros od idue s h c W Hc D.
  assert (E : eligible od c = false).
  { unfold eligible. destruct D as [D|[D|D]]; rewrite D; cbn; auto using andb_false_r.
    rewrite andb_false_r; reflexivity. }
  pose proof (run_cache_keeps od idue s h c W Hc E) as K. split; auto.
  intros m Hm. apply In_resolve; split; auto. apply has_name_In; auto.
Qed.
Print Assumptions C05_pass_leaves_not_due_untouched.

(** a pass itself never writes storage and never contacts the issuer; its scan changes
    nothing; the jobs its act submits are renewal jobs for certificates that are due *)
Theorem C05_pass_writes_nothing : forall od idue s p,
  (let s' := step od idue s (PassScan p) in
   store s' = store s /\ cache s' = cache s /\ jobs s' = jobs s /\ issued s' = issued s /\
   failed s' = failed s /\ failing s' = failing s /\ next s' = next s) /\
  (let s' := step od idue s (PassAct p) in
   store s' = store s /\ issued s' = issued s /\ failed s' = failed s /\
   failing s' = failing s /\ next s' = next s).
Proof. intros; split; [apply pass_scan_frame | apply pass_act_frame]. Qed.
Print Assumptions C05_pass_writes_nothing.

Theorem C05_pass_submits_only_for_due : forall od idue s p j,
  WF od s -> In j (jobs (step od idue s (PassAct p))) ->
  In j (jobs s) \/
  exists old, j = Job (chead old) JRenew (Some old) Queued /\ eligible od old = true.
Proof. exact pass_act_jobs. Qed.
Print Assumptions C05_pass_submits_only_for_due.

(** ** "for each one that is due it either adopts an already-renewed certificate found in shared
    storage without contacting the issuer ..." *)
Theorem C05_adopts_external_renewal : forall od idue s p c st,
  WF od s -> take_pass p (passes s) = None ->
  In c (cache s) -> eligible od c = true ->
  stored (store s) (chead c) = Some st -> cdue st = false ->
  let s' := step od idue (step od idue s (PassScan p)) (PassAct p) in
  In st (cache s') /\ ~ In c (cache s') /\
  (forall m, In m (cnames st) -> In st (resolve m (cache s'))) /\
  store s' = store s /\ issued s' = issued s /\ failed s' = failed s /\
  filter (is_renew_for (chead c)) (jobs s') = filter (is_renew_for (chead c)) (jobs s).
Proof. exact adopts_external_renewal. Qed.
Print Assumptions C05_adopts_external_renewal.

(** the same with anything happening between the scan and the act of that pass (other passes,
    jobs, external renewals, ...): the pass adopts what storage holds when it acts *)
Theorem C05_adopts_external_renewal_interleaved : forall od idue s p c h,
  WF od s -> take_pass p (passes s) = None ->
  In c (cache s) -> eligible od c = true -> stored_fresh (store s) (chead c) = true ->
  Forall (not_pass p) h ->
  let s1 := run od idue (step od idue s (PassScan p)) h in
  let s2 := step od idue s1 (PassAct p) in
  exists st, stored (store s1) (chead c) = Some st /\ cdue st = false /\
             In st (cache s2) /\ ~ In c (cache s2) /\
             store s2 = store s1 /\ issued s2 = issued s1 /\ failed s2 = failed s1.
Proof. exact adopts_external_renewal_interleaved. Qed.
Print Assumptions C05_adopts_external_renewal_interleaved.

(** ** "... or renews it once and thereafter serves the new certificate for all of its names" *)

(** at most one renewal job per name is queued or running, in every reachable state *)
Theorem C05_renewal_jobs_deduplicated : forall od idue s h n,
  WF od s ->
  length (filter (is_renew_for n) (jobs (run od idue s h))) <= 1 /\
  length (filter (is_locked_for n) (jobs (run od idue s h))) <= 1.
Proof. exact renewal_jobs_deduplicated. Qed.
Print Assumptions C05_renewal_jobs_deduplicated.

(** the issuer is asked successfully only for a name whose stored certificate is absent or due *)
Theorem C05_issue_only_if_absent_or_due : forall od idue s e,
  issued (step od idue s e) = issued s \/
  exists n, issued (step od idue s e) = n :: issued s /\
            (stored (store s) n = None \/ exists st, stored (store s) n = Some st /\ cdue st = true).
Proof. exact issue_only_if_absent_or_due. Qed.
Print Assumptions C05_issue_only_if_absent_or_due.

(** over any history a name is issued for at most once (hypothesis: the issuer's certificates
    are not already due), and not at all if its stored certificate is fresh *)
Theorem C05_renews_once : forall od s h n,
  cnt (issued (run od false s h)) n <=
  cnt (issued s) n + (if stored_fresh (store s) n then 0 else 1).
Proof. intros od s h n. apply renews_once. reflexivity. Qed.
Print Assumptions C05_renews_once.

(** one due certificate, stale in storage too: pass, then the job's three steps *)
Theorem C05_renewal_end_to_end : forall od idue s p c st,
  WF od s -> take_pass p (passes s) = None ->
  In c (cache s) -> eligible od c = true ->
  scan_renew od (store s) (cache s) = [c] ->
  stored (store s) (chead c) = Some st ->
  is_failing s (chead c) = false -> no_job_for (chead c) (jobs s) = true ->
  let n := chead c in
  let s' := run od idue s [PassScan p; PassAct p; JobStep n 0; JobStep n 0; JobStep n 0] in
  issued s' = n :: issued s /\ failed s' = failed s /\
  stored (store s') n = Some (new_cert idue s n) /\
  In (new_cert idue s n) (cache s') /\ ~ In c (cache s') /\
  (forall m, In m (cnames (new_cert idue s n)) -> In (new_cert idue s n) (resolve m (cache s'))) /\
  jobs s' = jobs s.
Proof. exact renewal_end_to_end. Qed.
Print Assumptions C05_renewal_end_to_end.

(** whenever a background job ends — in any state, on any schedule — the certificate stored
    under its name is in the cache, answering for all of its names *)
Theorem C05_job_end_serves_stored : forall od idue s n k pre j post,
  WF od s -> split_job n k (jobs s) = Some (pre, j, post) ->
  jobs (step od idue s (JobStep n k)) = pre ++ post ->
  forall st, stored (store (step od idue s (JobStep n k))) n = Some st ->
             In st (cache (step od idue s (JobStep n k))) /\
             forall m, In m (cnames st) -> In st (resolve m (cache (step od idue s (JobStep n k)))).
Proof.
  intros od idue s n k pre j post W SJ E st S.
  pose proof (job_step_done_cache od idue s n k pre j post W SJ E st S) as H. split; auto.
  intros m Hm. apply In_resolve; split; auto. apply has_name_In; auto.
Qed.
Print Assumptions C05_job_end_serves_stored.

(** ** "If renewal fails, the old certificate keeps being served" *)

(** a failed attempt changes nothing but the issuer's log *)
Theorem C05_failed_attempt_changes_nothing : forall od idue s n k,
  failed (step od idue s (JobStep n k)) <> failed s ->
  step od idue s (JobStep n k) = with_failed (with_err s false) (n :: failed s).
Proof. exact failed_attempt_changes_nothing. Qed.
Print Assumptions C05_failed_attempt_changes_nothing.

(** a certificate leaves the cache only in an event that puts the certificate now stored under
    its name in its place *)
Theorem C05_removed_only_when_replaced : forall od idue s e x,
  WF od s -> In x (cache s) -> ~ In x (cache (step od idue s e)) ->
  exists st, stored (store (step od idue s e)) (chead x) = Some st /\ cid st <> cid x /\
             In st (cache (step od idue s e)).
Proof. exact step_removal. Qed.
Print Assumptions C05_removed_only_when_replaced.

(** and whatever enters the cache is what storage holds under its name *)
Theorem C05_added_only_from_storage : forall od idue s e c,
  WF od s -> In c (cache (step od idue s e)) -> ~ In c (cache s) ->
  stored (store (step od idue s e)) (chead c) = Some c.
Proof. exact step_added_from_storage. Qed.
Print Assumptions C05_added_only_from_storage.

(** while the issuer fails for its name and no other instance renews it, the cached
    certificate (the one in storage) stays in service — through any passes, overlapping
    passes, retries, manage calls, and whatever happens to other names *)
Theorem C05_failed_renewal_keeps_serving : forall od idue s h c,
  WF od s -> In c (cache s) -> stored (store s) (chead c) = Some c ->
  is_failing s (chead c) = true ->
  Forall (fun e => ~ touches_name (chead c) e) h ->
  let s' := run od idue s h in
  In c (cache s') /\ stored (store s') (chead c) = Some c /\
  cnt (issued s') (chead c) = cnt (issued s) (chead c) /\
  (forall m, In m (cnames c) -> In c (resolve m (cache s'))).
Proof. exact failed_renewal_keeps_serving. Qed.
Print Assumptions C05_failed_renewal_keeps_serving.

(** over a history that does not write storage — what happens at shutdown, when the context is
    cancelled and every job and pass runs to its end — the same two statements hold end to end
    (this is what the monitor's final clause [Spec.spec_final] checks on the implementation) *)
Theorem C05_quiet_history_cache : forall od idue s h,
  WF od s -> quiet od idue s h ->
  (forall c, In c (cache s) -> ~ In c (cache (run od idue s h)) ->
     exists st, stored (store s) (chead c) = Some st /\ cid st <> cid c /\
                In st (cache (run od idue s h))) /\
  (forall c, In c (cache (run od idue s h)) -> ~ In c (cache s) -> stored (store s) (chead c) = Some c).
Proof. exact quiet_history_cache. Qed.
Print Assumptions C05_quiet_history_cache.

(** ** "Managing a name loads its certificate from storage when a usable one exists, obtains one
    only when none exists, and renews only when the stored one is due." *)
Theorem C05_manage_load_else_obtain_renew_if_due : forall od idue s n,
  WF od s -> od n = false -> lock_held (jobs s) n = false ->
  let s' := step od idue s (Manage n false) in
  jobs s' = jobs s /\
  if managed_for n (cache s) then s' = with_err s false
  else
    match stored (store s) n with
    | None =>
        if is_failing s n then
          lasterr s' = true /\ cache s' = cache s /\ store s' = store s /\ issued s' = issued s
        else
          lasterr s' = false /\ issued s' = n :: issued s /\
          stored (store s') n = Some (new_cert idue s n) /\ In (new_cert idue s n) (cache s') /\
          (forall x, In x (cache s) -> In x (cache s'))
    | Some st =>
        if cdue st then
          if is_failing s n then
            lasterr s' = true /\ In st (cache s') /\ store s' = store s /\ issued s' = issued s
          else
            lasterr s' = false /\ issued s' = n :: issued s /\
            stored (store s') n = Some (new_cert idue s n) /\ In (new_cert idue s n) (cache s') /\
            ~ In st (cache s')
        else
          lasterr s' = false /\ In st (cache s') /\ (forall x, In x (cache s) -> In x (cache s')) /\
          store s' = store s /\ issued s' = issued s
    end.
Proof. exact manage_sync_spec. Qed.
Print Assumptions C05_manage_load_else_obtain_renew_if_due.

(** asynchronous management ends, after its background job's steps, where synchronous
    management ends at once *)
Theorem C05_manage_async_completes_like_sync : forall od idue s n,
  is_failing s n = false -> no_job_for n (jobs s) = true ->
  visible (run od idue s [Manage n true; JobStep n 0; JobStep n 0; JobStep n 0]) =
  visible (step od idue s (Manage n false)).
Proof. exact manage_async_completes_like_sync. Qed.
Print Assumptions C05_manage_async_completes_like_sync.

(** ** The run-time monitor is the property: every clause of [Spec.spec_step] (index and served
    certificate agree with the cache; Issue only if absent or due; storage written only by an
    issuance or another instance; not-due / unmanaged / on-demand certificates kept; removal
    only with replacement; additions only from storage; job dedup; and what each kind of event
    may and must do — adopt, queue a renewal, keep everything on a failed attempt, load else
    obtain / renew if due) holds of the model's observations before and after any event, from
    any well-formed state, for any history inside the universe of [k] names. *)
Theorem C05_monitor_sound : forall od idue k s h pend,
  WF od s -> Bounded k s -> Forall (ev_ok k) h -> pend_equiv pend (passes s) ->
  spec_run od idue k pend (observe k s) (trace od idue k s h) = true.
Proof. exact spec_run_sound. Qed.
Print Assumptions C05_monitor_sound.

(** ** "... keeps being served as long as it has not been revoked" — revocation
    ([Maintain.XModel]): the cache entry of a certificate carries its OCSP status; [Revoke i]
    marks entry [i] Revoked, [OcspPass ord] is one run of updateOCSPStaples (every managed
    Revoked entry goes through forceRenew, in the order [ord] — any order). Histories are lists
    of [Core e | Revoke i | OcspPass ord]; [XWF] = [WF] of the core state plus "a status belongs
    to a cache entry". The theorems are for an issuer whose certificates are not already due
    ([idue = false], as in [C05_renews_once]). *)
Theorem C05_revocation_wf_invariant : forall od idue x h,
  idue = false -> XWF od x -> XWF od (xrun od idue x h).
Proof. exact XWF_xrun. Qed.
Print Assumptions C05_revocation_wf_invariant.

(** a certificate outside its renewal window (or unmanaged, or on-demand) that is never revoked
    stays in the cache, answering for all its names, through any history that also contains
    revocations of other certificates and OCSP passes *)
Theorem C05_not_due_unrevoked_untouched : forall od idue x h c,
  idue = false -> XWF od x -> In c (cache (core x)) -> eligible od c = false -> flagged (rev x) c = false ->
  Forall (fun e => e <> Revoke (cid c)) h ->
  In c (cache (core (xrun od idue x h))) /\
  (forall m, In m (cnames c) -> In c (resolve m (cache (core (xrun od idue x h))))).
Proof. exact unrevoked_not_due_untouched. Qed.
Print Assumptions C05_not_due_unrevoked_untouched.

(** the failed-renewal clause with its proviso: while the issuer fails for its name and no other
    instance renews it, a certificate that is not revoked stays cached, stored and served through
    any history of passes, jobs, retries, manage calls, revocations of others and OCSP passes *)
Theorem C05_failed_renewal_keeps_serving_unless_revoked : forall od idue x h c,
  idue = false -> XWF od x -> In c (cache (core x)) -> stored (store (core x)) (chead c) = Some c ->
  is_failing (core x) (chead c) = true -> flagged (rev x) c = false ->
  Forall (fun e => ~ xtouches c e) h ->
  let x' := xrun od idue x h in
  In c (cache (core x')) /\ stored (store (core x')) (chead c) = Some c /\
  cnt (issued (core x')) (chead c) = cnt (issued (core x)) (chead c) /\
  (forall m, In m (cnames c) -> In c (resolve m (cache (core x')))).
Proof. exact failed_renewal_keeps_serving_unless_revoked. Qed.
Print Assumptions C05_failed_renewal_keeps_serving_unless_revoked.

(** ... and the proviso bites: a revoked (managed) certificate is not in the cache after the next
    OCSP pass, in whatever order the pass works — if the issuer fails for its name (or nothing is
    stored) it is removed, nothing is issued and storage is left alone; otherwise a new
    certificate is issued (even if the stored one is not due: the renewal is forced), stored,
    cached and answers for the name *)
Theorem C05_revoked_replaced_or_removed : forall od idue x ord c,
  idue = false -> XWF od x -> In c (cache (core x)) -> cman c = true -> flagged (rev x) c = true ->
  lock_held (jobs (core x)) (chead c) = false ->
  let s := core x in let x' := xstep od idue x (OcspPass ord) in let s' := core x' in let n := chead c in
  ~ In c (cache s') /\ flagged (rev x') c = false /\
  (is_failing s n = true \/ stored (store s) n = None ->
     stored (store s') n = stored (store s) n /\ cnt (issued s') n = cnt (issued s) n) /\
  (is_failing s n = false -> stored (store s) n <> None ->
     exists N, stored (store s') n = Some N /\ In N (cache s') /\ next s <= cid N /\ cnames N = [n] /\
               cnt (issued s) n < cnt (issued s') n /\ In N (resolve n (cache s'))).
Proof. exact revoked_replaced_or_removed. Qed.
Print Assumptions C05_revoked_replaced_or_removed.

(** an OCSP pass touches nothing else: every certificate that is not (managed and) revoked stays
    cached; jobs and passes are left alone; the issuer is contacted, and storage written, only
    for the first names of revoked certificates *)
Theorem C05_ocsp_pass_keeps_unrevoked : forall od idue x ord c,
  XWF od x -> In c (cache (core x)) -> cman c && flagged (rev x) c = false ->
  In c (cache (core (xstep od idue x (OcspPass ord)))).
Proof. exact ocsp_pass_keeps_unrevoked. Qed.
Print Assumptions C05_ocsp_pass_keeps_unrevoked.

Theorem C05_ocsp_pass_only_for_revoked : forall od idue x ord m,
  idue = false -> XWF od x ->
  let s := core x in let s' := core (xstep od idue x (OcspPass ord)) in
  jobs s' = jobs s /\ passes s' = passes s /\ lasterr s' = false /\
  ((cnt (issued s') m = cnt (issued s) m /\ cnt (failed s') m = cnt (failed s) m /\
    stored (store s') m = stored (store s) m) \/
   exists r, In r (cache s) /\ cman r = true /\ flagged (rev x) r = true /\ chead r = m).
Proof. exact ocsp_pass_only_for_revoked. Qed.
Print Assumptions C05_ocsp_pass_only_for_revoked.

(** "renews it once", for the revocation path: over one OCSP pass the issuer is asked (successfully
    or not) for a name at most as many times as there are revoked certificates with that first
    name — for every state and processing order, no hypothesis *)
Theorem C05_ocsp_pass_once_per_revoked : forall od idue x ord m,
  let s := core x in let s' := core (xstep od idue x (OcspPass ord)) in
  cnt (issued s') m + cnt (failed s') m <=
  cnt (issued s) m + cnt (failed s) m + length (filter (fun c => chead c =? m) (revoked_certs x)).
Proof. exact ocsp_pass_once_per_revoked. Qed.
Print Assumptions C05_ocsp_pass_once_per_revoked.

(** the extended monitor ([XModel.xspec_step]: the clauses of [Spec.spec_step] for core events plus
    "a status disappears only with its cache entry"; for an OCSP pass: unrevoked certificates
    kept, revoked ones gone, Issue only for their names, storage only changed by such an
    issuance, additions are certificates issued in the pass, where nothing failed the new
    certificate is stored and served, a failed forced renewal leaves storage alone) holds of the
    extended model's observations along every history *)
Theorem C05_revocation_monitor_sound : forall od idue k x h pend,
  idue = false -> XWF od x -> Bounded k (core x) -> Forall (xev_ok k) h -> pend_equiv pend (passes (core x)) ->
  xspec_run od idue k pend (xobserve k x) (xtrace od idue k x h) = true.
Proof. exact xspec_run_sound. Qed.
Print Assumptions C05_revocation_monitor_sound.

(** a correspondence case on which the implementation's observations equal the model's
    ([Check.model_agrees]) satisfies the monitor: "agrees with the model" and "violates the
    specification" exclude each other (for the issuer the revocation theorems assume; with
    [idue = true] the generator produces no OCSP pass, [Check.case_ok]) *)
Theorem C05_agreeing_case_satisfies_spec : forall c : Check.case,
  Check.c_idue c = false -> Check.model_agrees c = true ->
  Forall (xev_ok (Check.c_k c)) (map fst (Check.c_hist c)) ->
  xspec_run (Check.od_of c) (Check.c_idue c) (Check.c_k c) [] (Check.c_obs0 c) (Check.c_hist c) = true.
Proof. exact agreeing_case_satisfies_spec. Qed.
Print Assumptions C05_agreeing_case_satisfies_spec.

(** ** Several issuers ([Maintain.Issuers]). [Config.Issuers] is a chain: an attempt takes the
    certificate of the first issuer that works and fails only when all fail — that chain is the
    model's issuer. A certificate is saved under the key of the issuer that produced it, so
    storage holds up to one bundle per issuer and name, and [loadCertResourceAnyIssuer] returns the
    most recently issued of them ([mload]). In every reachable state, and for EVERY assignment of
    issuer keys to the saves that built the storage ([tags]), that is exactly what the model
    calls the stored certificate ([stored]): so adoption of a certificate renewed elsewhere (also
    under another issuer's key), "renewed once" and "the new certificate is the one served" —
    all stated with [stored] above — hold with bundles under several issuers' keys, e.g. after a
    renewal that fell over to the backup issuer and left the first issuer's old bundle behind. *)
Theorem C05_most_recent_bundle_is_the_stored_one : forall od idue s h tags n,
  WF od s -> stack_ordered (store s) ->
  length tags = length (store (run od idue s h)) ->
  mload (concretize (store (run od idue s h)) tags) n = stored (store (run od idue s h)) n.
Proof. exact reachable_mload. Qed.
Print Assumptions C05_most_recent_bundle_is_the_stored_one.

Theorem C05_issuer_chain_fails_iff_all_fail : forall order fails,
  (first_working order fails = None <-> forall i, In i order -> fails i = true) /\
  (forall i, first_working order fails = Some i ->
     fails i = false /\ exists a b, order = a ++ i :: b /\ forall j, In j a -> fails j = true).
Proof. intros order fails. split; [apply first_working_none | apply first_working_some]. Qed.
Print Assumptions C05_issuer_chain_fails_iff_all_fail.

(** ** The clauses read off per-issuer storage. [tags] assigns an issuer key to every save that built
    the storage (any assignment); [mload] is what loadCertResourceAnyIssuer returns. *)
Theorem C05_adopts_external_renewal_any_issuer : forall od idue s p c st tags,
  WF od s -> stack_ordered (store s) -> length tags = length (store s) ->
  take_pass p (passes s) = None ->
  In c (cache s) -> eligible od c = true ->
  mload (concretize (store s) tags) (chead c) = Some st -> cdue st = false ->
  let s' := step od idue (step od idue s (PassScan p)) (PassAct p) in
  In st (cache s') /\ ~ In c (cache s') /\
  (forall m, In m (cnames st) -> In st (resolve m (cache s'))) /\
  store s' = store s /\ issued s' = issued s /\ failed s' = failed s /\
  mload (concretize (store s') tags) (chead c) = Some st.
Proof. exact adopts_external_renewal_any_issuer. Qed.
Print Assumptions C05_adopts_external_renewal_any_issuer.

Theorem C05_renews_once_any_issuer : forall od idue s h n tags,
  idue = false -> WF od s -> stack_ordered (store s) -> length tags = length (store s) ->
  cnt (issued (run od idue s h)) n <=
  cnt (issued s) n + (if mfresh (concretize (store s) tags) n then 0 else 1).
Proof. exact renews_once_any_issuer. Qed.
Print Assumptions C05_renews_once_any_issuer.

(** after a renewal the most recently issued bundle — under whichever issuer's key [t] the chain
    saved it, the other issuers' old bundles still lying there — is the new certificate, and that is
    the one cached and answering for the name *)
Theorem C05_renewal_end_to_end_any_issuer : forall od idue s p c st tags t,
  WF od s -> stack_ordered (store s) -> take_pass p (passes s) = None ->
  In c (cache s) -> eligible od c = true ->
  scan_renew od (store s) (cache s) = [c] ->
  stored (store s) (chead c) = Some st ->
  is_failing s (chead c) = false -> no_job_for (chead c) (jobs s) = true ->
  length tags = length (store s) ->
  let n := chead c in
  let s' := run od idue s [PassScan p; PassAct p; JobStep n 0; JobStep n 0; JobStep n 0] in
  mload (concretize (store s') (t :: tags)) n = Some (new_cert idue s n) /\
  In (new_cert idue s n) (resolve n (cache s')) /\ ~ In c (cache s') /\
  cnt (issued s') n = S (cnt (issued s) n).
Proof. exact renewal_end_to_end_any_issuer. Qed.
Print Assumptions C05_renewal_end_to_end_any_issuer.

(** ** Reload of an identical certificate (the cache copy counts as due by its in-memory renewal
    information, the stored resource of the same certificate does not): the pass replaces the copy
    by the stored one — every name keeps being answered, nothing is issued, no renewal job is
    submitted, every certificate that is not due stays *)
Theorem C05_reload_identical_keeps_every_name_served : forall od idue s p c st x,
  WF od s -> take_pass p (passes s) = None ->
  In c (cache s) -> eligible od c = true ->
  stored (store s) (chead c) = Some st -> cdue st = false -> cnames st = cnames c ->
  In x (cache s) -> eligible od x = false ->
  let s' := step od idue (step od idue s (PassScan p)) (PassAct p) in
  (forall m, In m (cnames c) -> In st (resolve m (cache s')) /\ ~ In c (resolve m (cache s'))) /\
  In x (cache s') /\
  store s' = store s /\ issued s' = issued s /\ failed s' = failed s /\
  filter (is_renew_for (chead c)) (jobs s') = filter (is_renew_for (chead c)) (jobs s).
Proof. exact reload_identical_keeps_every_name_served. Qed.
Print Assumptions C05_reload_identical_keeps_every_name_served.

(** ** An OCSP pass that works on some of the revoked certificates only (updateOCSPStaples skips
    expired ones; revocation for key compromise takes a path outside the model): for EVERY sub-list
    [L] of the revoked certificates, in any order — those processed are gone, all others stay *)
Theorem C05_ocsp_pass_over_any_sublist : forall od idue x L,
  idue = false -> XWF od x -> (forall r, In r L -> In r (revoked_certs x)) ->
  let s' := ocsp_pass_over idue x L in
  (forall c, In c L -> lock_held (jobs (core x)) (chead c) = false -> ~ In c (cache s')) /\
  (forall c, In c (cache (core x)) -> ~ In c L -> In c (cache s')) /\
  jobs s' = jobs (core x) /\ passes s' = passes (core x).
Proof. exact ocsp_pass_over_any_sublist. Qed.
Print Assumptions C05_ocsp_pass_over_any_sublist.

(** one forced renewal of a revoked certificate, for EVERY kind of issuer (no hypothesis on [idue]):
    it leaves the cache, nothing else does; chain fails / nothing stored: storage and successes
    untouched; otherwise exactly one certificate is issued, stored and cached *)
Theorem C05_force_renew_any_issuer : forall od idue s c,
  WF od s -> In c (cache s) -> lock_held (jobs s) (chead c) = false ->
  let n := chead c in let s' := force_renew idue s c in
  ~ In c (cache s') /\
  (forall x, In x (cache s) -> cid x <> cid c -> In x (cache s')) /\
  (is_failing s n = true \/ stored (store s) n = None ->
     stored (store s') n = stored (store s) n /\ cnt (issued s') n = cnt (issued s) n) /\
  (is_failing s n = false -> stored (store s) n <> None ->
     stored (store s') n = Some (new_cert idue s n) /\ In (new_cert idue s n) (cache s') /\
     cnt (issued s') n = S (cnt (issued s) n) /\ cnt (failed s') n = cnt (failed s) n).
Proof. exact force_renew_any_issuer. Qed.
Print Assumptions C05_force_renew_any_issuer.

(** the hypothesis [idue = false] of [C05_revocation_wf_invariant] cannot be dropped: with an
    issuer that hands out already-due certificates a forced renewal breaks "a queued reload stays
    reloadable" (the pass that scanned before then loads a due certificate; the next pass renews
    the name again). The statements about what an OCSP pass keeps ([C05_ocsp_pass_keeps_unrevoked])
    and how often it asks the issuer ([C05_ocsp_pass_once_per_revoked]) hold for every issuer. *)
Theorem C05_revocation_wf_invariant_any_issuer_refuted :
  exists od x ord, XWF od x /\ ~ XWF od (xstep od true x (OcspPass ord)).
Proof. exists rf_od, rf_x, []. exact revocation_invariant_idue_refuted. Qed.
Print Assumptions C05_revocation_wf_invariant_any_issuer_refuted.

(** ** A pass (or job step, or another instance's save, or an issuer switch) that reports an error —
    the harness observes a panic of the code under test as one — or a pass that does not adopt
    what its scan found renewed, is rejected by the monitor, whatever else was observed; the
    model's passes never report an error *)
Theorem C05_monitor_rejects_pass_error : forall od idue k pend p b a,
  o_err a = true ->
  spec_step od idue k pend (PassScan p) b a = false /\ spec_step od idue k pend (PassAct p) b a = false.
Proof. exact monitor_rejects_pass_error. Qed.
Print Assumptions C05_monitor_rejects_pass_error.

Theorem C05_monitor_rejects_silent_event_error : forall od idue k pend e b a,
  (exists n kk, e = JobStep n kk) \/ (exists n r, e = ExtRenew n r) \/ (exists n f, e = SetIssuer n f) ->
  o_err a = true -> spec_step od idue k pend e b a = false.
Proof. exact monitor_rejects_silent_event_error. Qed.
Print Assumptions C05_monitor_rejects_silent_event_error.

Theorem C05_monitor_rejects_pass_without_adoption : forall od idue k pend p q rest b a c st,
  take_pass p pend = Some (q, rest) -> In c (preload q) ->
  ost b (chead c) = Some st -> cid st <> cid c -> mem_cert c (o_cache a) = true ->
  spec_step od idue k pend (PassAct p) b a = false.
Proof. exact monitor_rejects_pass_without_adoption. Qed.
Print Assumptions C05_monitor_rejects_pass_without_adoption.

Theorem C05_monitor_rejects_manage_error_without_issuer_failure : forall od idue k pend n async b a,
  ofl a n = ofl b n -> o_err a = true -> spec_step od idue k pend (Manage n async) b a = false.
Proof. exact monitor_rejects_manage_error_without_issuer_failure. Qed.
Print Assumptions C05_monitor_rejects_manage_error_without_issuer_failure.

Theorem C05_model_pass_never_errs : forall od idue s p,
  lasterr (step od idue s (PassScan p)) = false /\ lasterr (step od idue s (PassAct p)) = false.
Proof. exact model_pass_never_errs. Qed.
Print Assumptions C05_model_pass_never_errs.

(** ** Facts about the source text the model rests on, re-read from the working tree by the
    translator on every run ([harness/cmd/consts/c05.go]): a pass scans under the cache's read lock
    and acts (reload loop, then renewal loop) after releasing it; the scan skips unmanaged
    certificates and on-demand configurations, only fills its queues, and decides reload vs
    renewal by the stored copy; the renewal job is named "renew_"+Names[0] both by a pass and by
    manageOne (so they de-duplicate against each other), the obtain job is unnamed; renewCert and
    obtainCert take the name's lock before, and outside of, the retry loop; forceRenew forces the
    renewal of Names[0], reloads, and removes a certificate only if its status is Revoked;
    certShouldBeForceRenewed = managed and Revoked. *)
Theorem C05_source_shape :
  Consts.pass_scans_under_read_lock = true /\ Consts.pass_acts_outside_lock_reload_then_renew = true /\
  Consts.pass_scan_skips_unmanaged_and_on_demand = true /\ Consts.pass_scan_only_queues = true /\
  Consts.pass_scan_decision_shape = true /\
  Consts.renew_job_prefix = [114; 101; 110; 101; 119; 95]%N /\ Consts.renew_job_named_after_first_name = true /\
  Consts.manage_renew_job_same_name = true /\ Consts.manage_obtain_job_unnamed = true /\
  Consts.renew_lock_outside_retry = true /\ Consts.obtain_lock_outside_retry = true /\
  Consts.force_renew_forces_first_name = true /\ Consts.force_renew_removes_only_revoked = true /\
  Consts.force_renew_reloads = true /\ Consts.force_renew_for_managed_revoked = true.
Proof. repeat split; reflexivity. Qed.
Print Assumptions C05_source_shape.

(** ** Non-vacuity: concrete well-formed states meeting the hypotheses *)
Definition ex_od (n : name) : bool := n =? 2.
Definition c0 := Cert 0 0 [3] true true.     (* due, managed, names 0 and 3 *)
Definition c1 := Cert 1 1 [] false true.     (* fresh *)
Definition c2 := Cert 2 2 [] true true.      (* due, on-demand name *)
Definition c3 := Cert 3 0 [] true false.     (* due, unmanaged *)
Definition c4 := Cert 4 0 [3] false true.    (* renewed by another instance *)
(** storage already renewed for name 0 *)
Definition ex_adopt : state :=
  State [(0, c4); (1, c1); (2, c2)] [c0; c1; c2; c3] [] [] [] [] [] 5 false.
(** storage as stale as the cache; the issuer fails for name 0 *)
Definition ex_stale (fl : list name) : state :=
  State [(0, c0); (1, c1); (2, c2)] [c0; c1; c2; c3] [] [] fl [] [] 5 false.

Example ex_adopt_wf : WF ex_od ex_adopt.
Proof. apply (wf_b_sound ex_od 4). vm_compute. reflexivity. Qed.
Example ex_stale_wf : forall fl, WF ex_od (ex_stale fl).
Proof. intros fl. apply (wf_b_sound ex_od 4). vm_compute. reflexivity. Qed.

(** hypotheses of [C05_pass_leaves_not_due_untouched] (three kinds of certificate) *)
Example ex_untouched :
  In c1 (cache ex_adopt) /\ cdue c1 = false /\ In c3 (cache ex_adopt) /\ cman c3 = false /\
  In c2 (cache ex_adopt) /\ ex_od (chead c2) = true.
Proof. vm_compute. intuition. Qed.
(** hypotheses of [C05_adopts_external_renewal] and its conclusion computed *)
Example ex_adopts :
  take_pass 7 (passes ex_adopt) = None /\ In c0 (cache ex_adopt) /\ eligible ex_od c0 = true /\
  stored (store ex_adopt) (chead c0) = Some c4 /\ cdue c4 = false /\
  cache (run ex_od false ex_adopt [PassScan 7; PassAct 7]) = [c1; c2; c3; c4].
Proof. vm_compute. intuition. Qed.
(** interleaved: a second pass and an external renewal in between *)
Example ex_adopts_interleaved :
  Forall (not_pass 7) [PassScan 8; ExtRenew 0 [3]; PassAct 8] /\
  stored_fresh (store ex_adopt) (chead c0) = true.
Proof. split; [repeat constructor; discriminate | reflexivity]. Qed.
(** hypotheses of [C05_renewal_end_to_end] and the run computed *)
Example ex_renewal :
  scan_renew ex_od (store (ex_stale [])) (cache (ex_stale [])) = [c0] /\
  is_failing (ex_stale []) (chead c0) = false /\ no_job_for (chead c0) (jobs (ex_stale [])) = true /\
  let s' := run ex_od false (ex_stale []) [PassScan 1; PassAct 1; JobStep 0 0; JobStep 0 0; JobStep 0 0] in
  cache s' = [c1; c2; c3; Cert 5 0 [] false true] /\ issued s' = [0] /\ jobs s' = [].
Proof. vm_compute. intuition. Qed.
(** hypotheses of [C05_failed_renewal_keeps_serving]: passes, retries, a manage call and an
    external renewal of another name while the issuer fails for name 0 *)
Example ex_failing :
  let h := [PassScan 1; PassAct 1; JobStep 0 0; JobStep 0 0; JobStep 0 0; PassScan 2; PassAct 2;
            ExtRenew 1 []; Manage 0 false; JobStep 0 0; SetIssuer 1 false] in
  In c0 (cache (ex_stale [0])) /\ stored (store (ex_stale [0])) (chead c0) = Some c0 /\
  is_failing (ex_stale [0]) (chead c0) = true /\
  Forall (fun e => ~ touches_name (chead c0) e) h /\
  failed (run ex_od false (ex_stale [0]) h) = [0; 0; 0].
Proof.
  cbn zeta. repeat split; try (vm_compute; intuition; fail).
  repeat constructor; intros [[r H]|H]; discriminate.
Qed.
(** hypotheses of [C05_manage_load_else_obtain_renew_if_due]: name 3 has nothing in storage,
    name 1 would be loaded, name 0 renewed *)
Example ex_manage :
  let s := State [(0, c0); (1, c1)] [] [] [] [] [] [] 5 false in
  WF ex_od s /\ ex_od 3 = false /\ lock_held (jobs s) 3 = false /\
  managed_for 3 (cache s) = false /\ stored (store s) 3 = None /\
  stored (store s) 1 = Some c1 /\ stored (store s) 0 = Some c0 /\
  cache (run ex_od false s [Manage 3 false; Manage 1 false; Manage 0 false]) =
    [Cert 5 3 [] false true; c1; Cert 6 0 [] false true].
Proof.
  cbn zeta. split; [apply (wf_b_sound ex_od 4); vm_compute; reflexivity|].
  vm_compute. intuition.
Qed.
(** hypotheses of [C05_monitor_sound] on a history that adopts, renews, fails and manages *)
Example ex_monitor :
  let h := [SetIssuer 1 true; PassScan 1; PassScan 2; PassAct 1; JobStep 0 0; ExtRenew 1 [];
            JobStep 0 0; PassAct 2; JobStep 0 0; Manage 3 true; JobStep 3 0; JobStep 3 0; JobStep 3 0] in
  wf_b ex_od 4 (ex_stale []) = true /\ Forall (ev_ok 4) h /\
  spec_run ex_od false 4 [] (observe 4 (ex_stale [])) (trace ex_od false 4 (ex_stale []) h) = true /\
  cache (run ex_od false (ex_stale []) h) = [c1; c2; c3; Cert 6 0 [] false true; Cert 7 3 [] false true].
Proof.
  cbn zeta. split; [vm_compute; reflexivity|]. split.
  - repeat (apply Forall_cons; [cbn; try exact I; try lia; try (split; [lia | intros m []]) |]). apply Forall_nil.
  - split; vm_compute; reflexivity.
Qed.
(** hypotheses of [C05_quiet_history_cache]: a failing job and a pending pass run on *)
Example ex_quiet :
  let s := run ex_od false (ex_stale [0]) [PassScan 1; PassAct 1; JobStep 0 0; PassScan 2] in
  let h := [JobStep 0 0; JobStep 0 0; PassAct 2; JobStep 0 0] in
  WF ex_od s /\ quiet ex_od false s h.
Proof.
  cbn zeta. split; [apply WF_run, ex_stale_wf|].
  intros h1 h2 E.
  destruct h1 as [|e1 h1]; [reflexivity|]. injection E as <- E.
  destruct h1 as [|e2 h1]; [vm_compute; reflexivity|]. injection E as <- E.
  destruct h1 as [|e3 h1]; [vm_compute; reflexivity|]. injection E as <- E.
  destruct h1 as [|e4 h1]; [vm_compute; reflexivity|]. injection E as <- E.
  destruct h1 as [|e5 h1]; [vm_compute; reflexivity|]. discriminate.
Qed.

(** hypotheses of the revocation theorems: [c1] (fresh, stored, served) is revoked; the issuer
    works for name 1: the OCSP pass replaces it; with a failing issuer it is removed; the
    unrevoked [c0] (due, issuer failing for name 0) stays through passes, retries, a revocation
    of another certificate and OCSP passes *)
Definition ex_x (fl : list name) (rv : list nat) : xstate := XState (ex_stale fl) rv.
Example ex_x_wf : forall fl, XWF ex_od (ex_x fl [1]).
Proof.
  intros fl. constructor; cbn [core rev ex_x].
  - apply ex_stale_wf.
  - intros i [<-|[]]. reflexivity.
  - repeat constructor. intros [].
Qed.
Example ex_revoked_replaced :
  In c1 (cache (core (ex_x [] [1]))) /\ cman c1 = true /\ flagged (rev (ex_x [] [1])) c1 = true /\
  lock_held (jobs (core (ex_x [] [1]))) (chead c1) = false /\
  is_failing (core (ex_x [] [1])) (chead c1) = false /\ stored (store (core (ex_x [] [1]))) (chead c1) = Some c1 /\
  let x' := xstep ex_od false (ex_x [] [1]) (OcspPass [1]) in
  cache (core x') = [c0; c2; c3; Cert 5 1 [] false true] /\ issued (core x') = [1] /\ rev x' = [].
Proof. vm_compute. intuition. Qed.
Example ex_revoked_removed :
  is_failing (core (ex_x [1] [1])) (chead c1) = true /\
  let x' := xstep ex_od false (ex_x [1] [1]) (OcspPass []) in
  cache (core x') = [c0; c2; c3] /\ issued (core x') = [] /\ failed (core x') = [1] /\
  stored (store (core x')) 1 = Some c1.
Proof. vm_compute. intuition. Qed.
Example ex_unrevoked_keeps_serving :
  let h := [Core (PassScan 1); Core (PassAct 1); Core (JobStep 0 0); Core (JobStep 0 0); OcspPass [1];
            Revoke 2; OcspPass [2]; Core (JobStep 0 0); Core (PassScan 2); Core (PassAct 2)] in
  In c0 (cache (core (ex_x [0] [1]))) /\ stored (store (core (ex_x [0] [1]))) (chead c0) = Some c0 /\
  is_failing (core (ex_x [0] [1])) (chead c0) = true /\ flagged (rev (ex_x [0] [1])) c0 = false /\
  Forall (fun e => ~ xtouches c0 e) h /\
  cache (core (xrun ex_od false (ex_x [0] [1]) h)) = [c0; c3; Cert 5 1 [] false true; Cert 6 2 [] false true].
Proof.
  cbn zeta. repeat split; try (vm_compute; intuition; fail).
  repeat constructor; cbn; try tauto; try discriminate; intros [[r H]|H]; discriminate.
Qed.
Example ex_x_monitor :
  let h := [Core (PassScan 1); Revoke 1; Revoke 0; Core (PassAct 1); OcspPass [1; 0]; Core (JobStep 0 0);
            Core (JobStep 0 0); Revoke 3; OcspPass []; Core (JobStep 0 0)] in
  Forall (xev_ok 4) h /\
  xspec_run ex_od false 4 [] (xobserve 4 (ex_x [] [])) (xtrace ex_od false 4 (ex_x [] []) h) = true /\
  map cid (cache (core (xrun ex_od false (ex_x [] []) h))) = [2; 3; 5; 6].
Proof.
  cbn zeta. split.
  - repeat (apply Forall_cons; [cbn; try exact I; try lia |]). apply Forall_nil.
  - split; vm_compute; reflexivity.
Qed.

(** hypotheses of [C05_most_recent_bundle_is_the_stored_one]: the renewal of name 0 fell over to the
    backup issuer (key 1) and the first issuer's (key 0) old bundle [c0] is still there; an
    external renewal then went under key 0 again *)
Example ex_two_issuers :
  stack_ordered (store (ex_stale [])) /\
  let s' := run ex_od false (ex_stale []) [PassScan 1; PassAct 1; JobStep 0 0; JobStep 0 0; JobStep 0 0] in
  let ms := concretize (store s') [1; 0; 0; 0] in
  bundles ms 0 = [Cert 5 0 [] false true; c0] /\ mload ms 0 = Some (Cert 5 0 [] false true) /\
  stored (store s') 0 = Some (Cert 5 0 [] false true) /\
  mload (concretize (store (run ex_od false s' [ExtRenew 0 []])) [0; 1; 0; 0; 0]) 0 = Some (Cert 6 0 [] false true).
Proof.
  split.
  - cbn. repeat split; intros d H; repeat (destruct H as [H|H]; [inversion H|]); destruct H.
  - vm_compute. repeat split.
Qed.

(** hypotheses of the per-issuer-storage theorems on [ex_adopt] (the external renewal [c4] lies
    under the backup issuer's key 1, the other bundles under key 0) and on [ex_stale] *)
Example ex_any_issuer :
  stack_ordered (store ex_adopt) /\ length [1; 0; 0] = length (store ex_adopt) /\
  mload (concretize (store ex_adopt) [1; 0; 0]) (chead c0) = Some c4 /\ cdue c4 = false /\
  mfresh (concretize (store ex_adopt) [1; 0; 0]) 0 = true /\
  mfresh (concretize (store (ex_stale [])) [0; 1; 0]) 0 = false /\
  stack_ordered (store (ex_stale [])).
Proof.
  repeat split; try (vm_compute; reflexivity);
    cbn; repeat split; intros d H; repeat (destruct H as [H|H]; [inversion H|]); destruct H.
Qed.
(** hypotheses of [C05_reload_identical_keeps_every_name_served]: [cA] is the cache copy (due by its
    in-memory renewal information) of the stored, fresh [c4]: same names *)
Definition cA := Cert 6 0 [3] true true.
Definition ex_identical : state := State [(0, c4); (1, c1)] [cA; c1; c3] [] [] [] [] [] 7 false.
Example ex_reload_identical :
  WF ex_od ex_identical /\ take_pass 3 (passes ex_identical) = None /\
  In cA (cache ex_identical) /\ eligible ex_od cA = true /\
  stored (store ex_identical) (chead cA) = Some c4 /\ cdue c4 = false /\ cnames c4 = cnames cA /\
  In c1 (cache ex_identical) /\ eligible ex_od c1 = false /\
  cache (run ex_od false ex_identical [PassScan 3; PassAct 3]) = [c1; c3; c4].
Proof.
  split; [apply (wf_b_sound ex_od 4); vm_compute; reflexivity|]. vm_compute. intuition.
Qed.
(** hypotheses of [C05_ocsp_pass_over_any_sublist]: two revoked certificates, only one processed *)
Example ex_ocsp_sublist :
  let x := ex_x [] [1; 0] in
  XWF ex_od x /\ (forall r, In r [c1] -> In r (revoked_certs x)) /\
  lock_held (jobs (core x)) (chead c1) = false /\ In c0 (cache (core x)) /\ ~ In c0 [c1] /\
  cache (ocsp_pass_over false x [c1]) = [c0; c2; c3; Cert 5 1 [] false true].
Proof.
  cbn zeta. split.
  - constructor; cbn [core rev ex_x]; [apply ex_stale_wf| |].
    + intros i [<-|[<-|[]]]; reflexivity.
    + repeat constructor; cbn; intuition discriminate.
  - repeat split; try (vm_compute; intuition; fail).
    intros [H|[]]. discriminate.
Qed.
(** hypotheses of the rejection theorems: the observation after a pass that panicked (err) and
    left the renewed-elsewhere certificate [c0] where it was *)
Example ex_rejected :
  let b := observe 4 ex_adopt in
  let a := Obs (o_cache b) (o_store b) (o_index b) (o_served b) (o_issued b) (o_failed b) (o_jobs b) true in
  let pend := [Pass 7 (scan_reload ex_od (store ex_adopt) (cache ex_adopt)) (scan_renew ex_od (store ex_adopt) (cache ex_adopt))] in
  o_err a = true /\ take_pass 7 pend = Some (Pass 7 [c0] [], []) /\
  ost b (chead c0) = Some c4 /\ cid c4 <> cid c0 /\ mem_cert c0 (o_cache a) = true /\
  spec_step ex_od false 4 pend (PassAct 7) b a = false.
Proof. vm_compute. repeat split; try reflexivity. discriminate. Qed.
(** hypotheses of [C05_force_renew_any_issuer] with an issuer that hands out due certificates *)
Example ex_force_renew_due_issuer :
  In c1 (cache (ex_stale [])) /\ lock_held (jobs (ex_stale [])) (chead c1) = false /\
  is_failing (ex_stale []) (chead c1) = false /\ stored (store (ex_stale [])) (chead c1) = Some c1 /\
  cache (force_renew true (ex_stale []) c1) = [c0; c2; c3; Cert 5 1 [] true true].
Proof. vm_compute. intuition. Qed.
