(** C05 — placeholder, replaced once the proofs are in. *)
From CM Require Import Maintain.Model Maintain.Spec.
Theorem C05_placeholder : True.
Proof. exact I. Qed.
Print Assumptions C05_placeholder.
