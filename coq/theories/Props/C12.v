(** C12 — The certificate cache and its name index always agree, within capacity.
    Only statements, each closed by [exact] (or a few lines), with [Print Assumptions] beneath.

    Setting.  [names_of] maps a hash to the names of the certificate with that hash (the hash is
    blake3 of the DER chain, the names are read from the leaf, so equal hashes have equal names).
    A history is any list of operations ([Cache.Model.dop]): the cache operations proper
    ([DOp o], [o : Cache.Model.op]), [Cache.SetOptions] changing the capacity at run time,
    [Cache.AllMatchingCertificates], [Cache.Stop] and the scans of the maintenance passes.  An
    operation may carry an arbitrarily stale copy of a certificate, which is how the read / act /
    write-back splits of handshakeMaintenance, updateOCSPStaples, updateARI, RemoveManaged,
    reloadManagedCertificate appear in a history.  [wf_dop] only asks that the certificates an
    operation carries have the names of their hash and a non-empty hash.  [dinit cap] is the empty
    cache created with capacity [cap]; the capacity in force after a history is [d_cap]. *)
From CM Require Import Lib.Str Gen.Consts Cache.Model Cache.AMapFacts Cache.Proofs Cache.Check Cache.SpecProofs Cache.Sched Cache.Final.
From Coq Require Import Arith.
Open Scope nat_scope.

(** F inv_preserved: the invariant (index and cache agree with multiplicity; no empty index list;
    every entry is stored under its own hash; size within the capacity configured at that moment)
    holds after every history, SetOptions included *)
Theorem C12_inv_preserved : forall names_of cap ops,
  Forall (wf_dop names_of) ops ->
  let d := drun (dinit cap) ops in Inv names_of (d_cap d) (d_st d).
Proof. intros. apply (drun_inv names_of); [apply dinv_init | assumption]. Qed.
Print Assumptions C12_inv_preserved.

(** ... and after every single operation from any state satisfying it (stale copies included) *)
Theorem C12_step_preserves : forall names_of d o,
  DInv names_of d -> wf_dop names_of o -> DInv names_of (dstep d o).
Proof. exact dstep_inv. Qed.
Print Assumptions C12_step_preserves.

(** the same for a capacity that never changes (the statement the handshake model C03 builds on) *)
Theorem C12_static_step_preserves : forall names_of cap s o,
  Inv names_of cap s -> wf_op names_of o -> Inv names_of cap (step cap s o).
Proof. exact step_inv. Qed.
Print Assumptions C12_static_step_preserves.

(** lookup_exact + reachable_by_each_name: looking up a name returns exactly the cached
    certificates that list it (left to right: nothing else is returned, no zero value; right to
    left: every cached certificate is reachable through each of its names) *)
Theorem C12_lookup_exact : forall names_of cap ops n c,
  Forall (wf_dop names_of) ops ->
  let s := d_st (drun (dinit cap) ops) in
  In c (get_all_matching_certs s n) <-> (alookup (c_hash c) (cache s) = Some c /\ In n (c_names c)).
Proof.
  intros names_of cap ops n c Hwf s.
  apply (lookup_exact names_of (d_cap (drun (dinit cap) ops))).
  apply (drun_inv names_of); [apply dinv_init | assumption].
Qed.
Print Assumptions C12_lookup_exact.

Theorem C12_reachable_by_each_name : forall names_of cap ops h c n,
  Forall (wf_dop names_of) ops ->
  let s := d_st (drun (dinit cap) ops) in
  alookup h (cache s) = Some c -> In n (c_names c) -> In c (get_all_matching_certs s n).
Proof.
  intros names_of cap ops h c n Hwf s Hc Hn.
  assert (HI : Inv names_of (d_cap (drun (dinit cap) ops)) s)
    by (apply (drun_inv names_of); [apply dinv_init | assumption]).
  apply (lookup_exact names_of _ s HI). split; [|exact Hn].
  destruct (inv_cert names_of _ s HI h c Hc) as (-> & _). exact Hc.
Qed.
Print Assumptions C12_reachable_by_each_name.

(** Cache.AllMatchingCertificates: exactly the cached certificates listing the name or one of the
    candidates obtained by replacing its labels with "*" from the left *)
Theorem C12_all_matching_exact : forall names_of cap ops q c,
  Forall (wf_dop names_of) ops ->
  let s := d_st (drun (dinit cap) ops) in
  In c (all_matching s q) <->
  (alookup (c_hash c) (cache s) = Some c /\
   exists n, In n (q :: wildcard_candidates q) /\ In n (c_names c)).
Proof.
  intros names_of cap ops q c Hwf s.
  apply (all_matching_exact names_of (d_cap (drun (dinit cap) ops))).
  apply (drun_inv names_of); [apply dinv_init | assumption].
Qed.
Print Assumptions C12_all_matching_exact.

(** no_duplicate_cert: one entry per hash; a hash is mentioned under a name once (for
    certificates without repeated names; in general as often as the name is repeated) ... *)
Theorem C12_no_duplicate : forall names_of cap ops,
  Forall (wf_dop names_of) ops ->
  let s := d_st (drun (dinit cap) ops) in
  NoDup (akeys (cache s)) /\
  (forall n h, count_str h (idx s n) = if amem h (cache s) then count_str n (names_of h) else 0) /\
  ((forall h, NoDup (names_of h)) -> forall n, NoDup (idx s n)).
Proof.
  intros names_of cap ops Hwf s.
  assert (HI : Inv names_of (d_cap (drun (dinit cap) ops)) s)
    by (apply (drun_inv names_of); [apply dinv_init | assumption]).
  split; [apply (inv_nodup _ _ _ HI)|]. split; [apply (inv_count _ _ _ HI)|].
  intros Hnd n. apply (no_duplicate_mention names_of _ s HI n Hnd).
Qed.
Print Assumptions C12_no_duplicate.

(** ... and re-adding a cached certificate stores nothing twice: same keys, same index, every
    other entry untouched, the entry's tags become the union (without repetition) *)
Theorem C12_readd_merges_tags : forall cap s c v e,
  alookup (c_hash c) (cache s) = Some e ->
  let s' := add_cert cap c v s in
  index s' = index s /\ length (cache s') = length (cache s) /\ akeys (cache s') = akeys (cache s) /\
  (forall h, h <> c_hash c -> alookup h (cache s') = alookup h (cache s)) /\
  exists e', alookup (c_hash c) (cache s') = Some e' /\
             e' = set_tags e (c_tags e') /\
             (forall t, In t (c_tags e') <-> In t (c_tags e) \/ In t (c_tags c)) /\
             (NoDup (c_tags e) -> NoDup (c_tags e')).
Proof. exact readd_merges_tags. Qed.
Print Assumptions C12_readd_merges_tags.

(** ... and the merged tags stay: whatever (stale) copy one of the three write-backs carries, it
    changes ONE field (the staple; the renewal information) of the entry under the copy's own hash
    and nothing else -- not the index, not the key set, not another entry, not the tags.
    ([same_but f h s s']: [s'] is [s] with [f] applied to the entry under [h], if there is one.) *)
Theorem C12_writeback_changes_one_field : forall s,
  (forall c, same_but (fun e => set_ocsp e (c_ocsp c)) (c_hash c) s (write_back c s)) /\
  (forall hv, same_but (fun e => set_ocsp e (snd hv)) (fst hv) s (set_ocsp_at hv s)) /\
  (forall h v, same_but (fun e => set_ari e v) h s (set_ari_at h v s)).
Proof.
  intros s. split; [intros c; apply write_back_effect|].
  split; [intros hv; apply set_ocsp_at_effect | intros h v; apply set_ari_at_effect].
Qed.
Print Assumptions C12_writeback_changes_one_field.

(** within_capacity, for every history (capacity changes included), eviction choice, stale copy:
    the size never exceeds the capacity configured at that moment *)
Theorem C12_within_capacity : forall names_of cap ops,
  Forall (wf_dop names_of) ops ->
  let d := drun (dinit cap) ops in 0 < d_cap d -> length (cache (d_st d)) <= d_cap d.
Proof.
  intros names_of cap ops Hwf d. apply (inv_cap names_of).
  apply (drun_inv names_of); [apply dinv_init | assumption].
Qed.
Print Assumptions C12_within_capacity.

(** SetOptions: the new capacity is in force at once, only evictions happen, and exactly as many
    as needed *)
Theorem C12_set_options_trims : forall names_of z vs d,
  DInv names_of d ->
  let d' := set_capacity z vs d in
  DInv names_of d' /\ d_cap d' = Z.to_nat z /\
  length (cache (d_st d')) =
    (if 0 <? Z.to_nat z then Nat.min (length (cache (d_st d))) (Z.to_nat z) else length (cache (d_st d))) /\
  (forall h c, alookup h (cache (d_st d')) = Some c -> alookup h (cache (d_st d)) = Some c).
Proof. exact set_capacity_spec. Qed.
Print Assumptions C12_set_options_trims.

(** the structural part of the invariant ([Inv names_of 0]) does not depend on the capacity at
    all: every operation preserves it for EVERY capacity, and a cache that is over a (positive)
    capacity never grows *)
Theorem C12_structure_for_every_capacity : forall names_of cap s o,
  Inv names_of 0 s -> wf_op names_of o ->
  Inv names_of 0 (step cap s o) /\
  (0 < cap -> length (cache (step cap s o)) <= Nat.max cap (length (cache s))).
Proof.
  intros names_of cap s o HI Hwf. split; [apply step_sinv; assumption|].
  intros Hcap. eapply step_size_bound; eassumption.
Qed.
Print Assumptions C12_structure_for_every_capacity.

(** SetOptions as it was before fix 4af396d ([dstep_untrimmed]: the options were stored, nothing
    was evicted): the invariant survived only histories that never lower the capacity below the
    current size ... *)
Theorem C12_untrimmed_setoptions_ok_if_never_lowered : forall names_of cap ops,
  Forall (wf_dop names_of) ops -> never_lowered_below_size (dinit cap) ops ->
  DInv names_of (drun_untrimmed (dinit cap) ops).
Proof. intros. apply (drun_untrimmed_inv names_of); [apply dinv_init | assumption | assumption]. Qed.
Print Assumptions C12_untrimmed_setoptions_ok_if_never_lowered.

(** ... and within_capacity was false of it: capacity 0; add three certificates; SetOptions
    (Capacity 1); add a fourth (one eviction): 3 certificates cached, capacity 1.  The same
    history is replayed on the real code on every run (class "capacity-lowered") and must now
    end with one certificate. *)
Definition ex_h (k : N) : hash := [104; k]%N.
Definition ex_n (k : N) : name := [k; 46; 120]%N.
Definition ex_names4 (h : hash) : list name :=
  match h with [104; k]%N => [ex_n k] | _ => [] end.
Definition ex_c (k : N) : cert := Cert (ex_h k) [ex_n k] false [] [] 0%Z [].
Definition ex_lowering : list dop :=
  [DOp (OAdd (ex_c 49) None); DOp (OAdd (ex_c 50) None); DOp (OAdd (ex_c 51) None);
   DSetCap 1%Z []; DOp (OAdd (ex_c 52) None)].

Theorem C12_within_capacity_refuted_when_lowered :
  exists names_of ops,
    Forall (wf_dop names_of) ops /\
    let d := drun_untrimmed (dinit 0) ops in 0 < d_cap d /\ d_cap d < length (cache (d_st d)).
Proof.
  exists ex_names4, ex_lowering. split.
  - repeat constructor; cbn; discriminate.
  - vm_compute. split; repeat constructor.
Qed.
Print Assumptions C12_within_capacity_refuted_when_lowered.

(** the ConfigGetter (CacheOptions.GetConfigForCert, which chooses the Config by the certificate's
    tags) is shown, by the scan of a maintenance pass, exactly the cached certificates the pass
    considers, as they are cached at that moment (all tags merged so far) *)
Theorem C12_getter_sees_cached : forall names_of cap ops r c,
  Forall (wf_dop names_of) ops ->
  let s := d_st (drun (dinit cap) ops) in
  In c (scan_view r s) <-> alookup (c_hash c) (cache s) = Some c /\ scan_sel r c = true.
Proof.
  intros names_of cap ops r c Hwf s.
  apply (scan_view_exact names_of (d_cap (drun (dinit cap) ops))).
  apply (drun_inv names_of); [apply dinv_init | assumption].
Qed.
Print Assumptions C12_getter_sees_cached.

(** AllMatchingCertificates, Stop and the scans leave both maps and the capacity as they are *)
Theorem C12_reads_and_stop_change_nothing : forall d q r,
  dstep d (DQuery q) = d /\ dstep d DStop = d /\ dstep d (DScan r) = d.
Proof. intros. repeat split. Qed.
Print Assumptions C12_reads_and_stop_change_nothing.

(** schedules: any number of threads running the composite operations of the code as sequences
    of critical sections (reads hand copies to later steps), under any scheduler *)
Theorem C12_every_schedule : forall names_of cap pool sched,
  Forall (wf_prog names_of) pool ->
  DInv names_of (fst (run_sched sched (dinit cap, pool))).
Proof. intros. apply sched_inv; [apply dinv_init | assumption]. Qed.
Print Assumptions C12_every_schedule.

(** every schedule is a sequential history of well-formed operations *)
Theorem C12_schedules_serialize : forall names_of cap pool sched,
  Forall (wf_prog names_of) pool ->
  exists ops, Forall (wf_dop names_of) ops /\
              fst (run_sched sched (dinit cap, pool)) = drun (dinit cap) ops.
Proof. intros. apply sched_serializes; [apply dinv_init | assumption]. Qed.
Print Assumptions C12_schedules_serialize.

(** the composite operations of the code are such programs *)
Theorem C12_code_paths_are_programs : forall names_of,
  (forall subjects, wf_prog names_of (prog_remove_managed subjects)) /\
  (forall h v, wf_prog names_of (prog_handshake_refresh h v)) /\
  (forall h new victim, wf_cert names_of new -> wf_prog names_of (prog_reload h new victim)) /\
  (forall upd, wf_prog names_of (prog_ocsp_maintenance upd)) /\
  (forall h v, wf_prog names_of (prog_update_ari h v)) /\
  (forall c victim, wf_cert names_of c -> wf_prog names_of (prog_cache c victim)) /\
  (forall hs, wf_prog names_of (prog_remove hs)) /\
  (forall h, wf_prog names_of (prog_remove_current h)) /\
  (forall z victims, wf_prog names_of (prog_set_options z victims)) /\
  wf_prog names_of prog_stop /\
  (forall ari_of, wf_prog names_of (prog_renew_maintenance ari_of)) /\
  (forall q ret, (forall l, Forall (wf_copy names_of) l -> wf_prog names_of (ret l)) ->
                 wf_prog names_of (prog_all_matching q ret)).
Proof. exact code_paths_wf. Qed.
Print Assumptions C12_code_paths_are_programs.

(** run without interference, RemoveManaged is the model's atomic [ORemoveManaged] and
    AllMatchingCertificates hands its caller the model's [all_matching] *)
Theorem C12_composites_alone : forall d,
  (forall subjects, exists n, fst (run_sched (repeat 0 n) (d, [prog_remove_managed subjects])) =
                              dstep d (DOp (ORemoveManaged subjects))) /\
  (forall q ret, exists n, run_sched (repeat 0 n) (d, [prog_all_matching q ret]) =
                           (d, [ret (all_matching (d_st d) q)])).
Proof. intros d. split; [apply remove_managed_alone | apply all_matching_alone]. Qed.
Print Assumptions C12_composites_alone.

(** the run-time monitor [spec_ok] (Cache.Check) is the boolean form of the statements above:
    it holds of everything the model produces, so a failure on an observation of the
    implementation is a failure of the property *)
Theorem C12_spec_ok_of_model : forall cap pool ops queries,
  Forall (wf_dop (names_of_pool (case_certs_of pool ops))) ops ->
  spec_ok (model_case cap pool ops queries) = true.
Proof. exact spec_ok_of_model. Qed.
Print Assumptions C12_spec_ok_of_model.

(** the tie: the comparisons the model evaluates are the ones read from cache.go by the
    translator, and the statement shapes it is written after are the ones found there *)
Theorem C12_code_as_modelled :
  (forall cap s, at_capacity cap s = (0 <? cap) && (cap <=? length (cache s))) /\
  (forall t, tags_guard t = negb (is_nil t)) /\
  (forall kl, index_list_empty kl = is_nil kl) /\
  (forall z, clamp_cap z = Z.to_nat z) /\
  (forall n s, trim_count n s = if 0 <? n then length (cache s) - n else 0) /\
  c_star = 42%N /\
  cache_replace_shape = [1; 2; 3; 4] /\ cache_store_guards_handshake = [true] /\
  cache_store_guards_ocsp = [true] /\ cache_store_guards_ari = [true; true] /\
  cache_map_store_sites = 6 /\ cache_map_delete_sites = 1.
Proof.
  split; [exact at_capacity_eq|]. split; [exact tags_guard_eq|]. split; [exact index_list_empty_eq|].
  split; [exact clamp_cap_eq|]. split; [exact trim_count_eq|]. split; [reflexivity|].
  pose proof code_shape_as_modelled as H. tauto.
Qed.
Print Assumptions C12_code_as_modelled.

(** ---- non-vacuity ---- *)
Definition ex_names_of (h : hash) : list name :=
  if str_eqb h [104; 49]%N then [[97]%N; [98]%N]          (* "h1" -> a, b *)
  else if str_eqb h [104; 50]%N then [[97]%N]              (* "h2" -> a *)
  else [].
Definition ex_c1 := Cert [104; 49]%N [[97]%N; [98]%N] true [] [[116]%N] 0%Z [].
Definition ex_c2 := Cert [104; 50]%N [[97]%N] false [] [] 0%Z [].
Definition ex_stale := set_ocsp ex_c1 7%Z.
Definition ex_ops : list dop :=
  [DOp (OAdd ex_c1 None); DOp (OAdd ex_c2 (Some [104; 49]%N)); DOp (OWriteBack ex_stale);
   DOp (OAdd ex_c1 (Some [104; 50]%N)); DOp (ORemoveHashes [[122]%N]); DOp (OAdd ex_c1 None);
   DSetCap 0%Z []; DOp (OAdd ex_c2 None); DQuery [97]%N; DScan true; DSetCap 1%Z [[104; 49]%N]; DStop].

Example C12_hypotheses_satisfiable :
  Forall (wf_dop ex_names_of) ex_ops /\
  (* capacity 1: the second add evicts h1, the stale write-back of h1 is refused, h1 comes back;
     capacity 0 (unlimited): h2 is added next to it; capacity 1 again: h1 is evicted *)
  akeys (cache (d_st (drun (dinit 1) ex_ops))) = [[104; 50]%N] /\
  d_cap (drun (dinit 1) ex_ops) = 1 /\
  idx (d_st (drun (dinit 1) ex_ops)) [97]%N = [[104; 50]%N] /\
  never_lowered_below_size (dinit 1) (firstn 10 ex_ops) /\
  map (fun c => (c_hash c, c_tags c)) (scan_view true (d_st (drun (dinit 1) (firstn 9 ex_ops)))) =
    [([104; 49], [[116]])]%N.
Proof.
  split; [|vm_compute; repeat split; intros; lia].
  repeat constructor; cbn; try discriminate; reflexivity.
Qed.

(** the stale write-back of the handshake: before fix 12d489e it stored its whole copy, so a tag
    merged between the handshake's read and its write-back was dropped again; now the tag stays
    and only the staple changes (replayed on the real code, class "stale-writeback-tags") *)
Example C12_stale_writeback_keeps_tags :
  let t2 := Cert [104; 49]%N [[97]%N; [98]%N] true [] [[117]%N] 0%Z [] in
  let s2 := run 0 init [OAdd ex_c1 None; OAdd t2 None] in
  map c_tags (map snd (cache s2)) = [[[116]; [117]]]%N /\
  map (fun c => (c_tags c, c_ocsp c)) (map snd (cache (write_back_whole_copy ex_stale s2))) = [([[116]], 7%Z)]%N /\
  map (fun c => (c_tags c, c_ocsp c)) (map snd (cache (write_back ex_stale s2))) = [([[116]; [117]], 7%Z)]%N.
Proof. vm_compute. repeat split. Qed.

(** ================= final round: value semantics of the index lists, replace-by-itself, SetOptions
    from unlimited ================= *)

(** adding a certificate appends its hash to the list of each of its names (once per occurrence)
    and changes NO other list; re-adding a cached certificate changes no list at all.  (The Go code
    appends to one slice per name; the lists of a multi-SAN certificate share nothing.) *)
Theorem C12_add_changes_only_own_lists : forall cap c v s n,
  idx (add_cert cap c v s) n =
  match alookup (c_hash c) (cache s) with
  | Some _ => idx s n
  | None => idx (before_insert cap c v s) n ++ repeat (c_hash c) (count_str n (c_names c))
  end.
Proof. exact add_changes_only_own_lists. Qed.
Print Assumptions C12_add_changes_only_own_lists.

Theorem C12_add_leaves_other_names : forall cap c v s n,
  ~ In n (c_names c) -> idx (add_cert cap c v s) n = idx (before_insert cap c v s) n.
Proof. exact add_leaves_other_names. Qed.
Print Assumptions C12_add_leaves_other_names.

(** removing a certificate filters its hash out of the lists of its own names; every other list,
    and every other hash in those lists, stays *)
Theorem C12_remove_changes_only_own_lists : forall c s n,
  idx (remove_cert c s) n =
  if mem_str n (c_names c) then filter (fun h => negb (str_eqb h (c_hash c))) (idx s n) else idx s n.
Proof. exact remove_changes_only_own_lists. Qed.
Print Assumptions C12_remove_changes_only_own_lists.

(** no aliasing: removing another certificate -- whatever names it shares with [c] -- leaves the
    mentions of [c] under every name untouched *)
Theorem C12_lists_of_a_multi_san_certificate_are_independent : forall c other s b,
  c_hash other <> c_hash c ->
  count_str (c_hash c) (idx (remove_cert other s) b) = count_str (c_hash c) (idx s b).
Proof. exact lists_of_a_multi_san_certificate_are_independent. Qed.
Print Assumptions C12_lists_of_a_multi_san_certificate_are_independent.

(** replacing a cached certificate by (a new copy of) itself keeps it: cached as the new copy says,
    listed exactly as before under every name, nothing else touched, nothing evicted *)
Theorem C12_replace_by_itself_keeps : forall names_of cap c c' v s,
  Inv names_of cap s -> wf_cert names_of c' -> c_hash c = c_hash c' -> wf_copy names_of c ->
  alookup (c_hash c') (cache s) <> None ->
  let s' := replace_cert cap c c' v s in
  Inv names_of cap s' /\
  alookup (c_hash c') (cache s') = Some c' /\
  (forall h, h <> c_hash c' -> alookup h (cache s') = alookup h (cache s)) /\
  (forall n h, count_str h (idx s' n) = count_str h (idx s n)).
Proof. exact replace_by_itself_keeps. Qed.
Print Assumptions C12_replace_by_itself_keeps.

(** SetOptions from "unlimited" to a limit trims at once *)
Theorem C12_set_options_from_unlimited_trims : forall names_of n vs d,
  DInv names_of d -> d_cap d = 0 -> 0 < n ->
  let d' := set_capacity (Z.of_nat n) vs d in
  DInv names_of d' /\ d_cap d' = n /\
  length (cache (d_st d')) = Nat.min (length (cache (d_st d))) n /\
  length (cache (d_st d')) <= n /\
  (forall h c, alookup h (cache (d_st d')) = Some c -> alookup h (cache (d_st d)) = Some c).
Proof. exact set_options_from_unlimited_trims. Qed.
Print Assumptions C12_set_options_from_unlimited_trims.

(** monitor soundness, the whole verdict: on the case the model produces for ANY history of
    well-formed operations (incl. SetOptions, queries, scans, Stop) [check_line]'s code is 0 -- the
    replay agrees (states after every step, the capacity SetOptions leaves, query answers, scan
    views, final queries) and every clause of [spec_ok] holds (invariant with the capacity in force
    at each step; add / re-add / replace / removal / write-back / SetOptions / query / Stop / scan
    clauses; final AllMatchingCertificates) *)
Theorem C12_check_of_model : forall cap pool ops queries,
  Forall (wf_dop (names_of_pool (case_certs_of pool ops))) ops ->
  Lib.Wire.code (model_agrees (model_case cap pool ops queries)) (spec_ok (model_case cap pool ops queries)) = 0%Z.
Proof. exact check_of_model. Qed.
Print Assumptions C12_check_of_model.

(** removal by hash removes exactly the listed hashes *)
Theorem C12_remove_exact : forall names_of cap hs s k,
  Inv names_of cap s ->
  alookup k (cache (remove_hashes hs s)) = if mem_str k hs then None else alookup k (cache s).
Proof. exact remove_exact. Qed.
Print Assumptions C12_remove_exact.

(** removal by subject removes exactly the managed certificates listing a subject exactly, of the
    given issuer if one is given *)
Theorem C12_remove_managed_exact : forall names_of cap sj s k c,
  Inv names_of cap s -> alookup k (cache s) = Some c ->
  alookup k (cache (remove_managed sj s)) =
  if c_managed c && existsb (fun p => mem_str (fst p) (c_names c) && (is_nil (snd p) || str_eqb (c_issuer c) (snd p))) sj
  then None else Some c.
Proof. exact remove_managed_exact. Qed.
Print Assumptions C12_remove_managed_exact.

(** replacing on renewal: the new certificate is cached, the old one gone (unless the same) *)
Theorem C12_replace_effect : forall names_of cap old new v s,
  Inv names_of cap s -> wf_copy names_of old -> wf_cert names_of new ->
  let s' := replace_cert cap old new v s in
  Inv names_of cap s' /\ amem (c_hash new) (cache s') = true /\
  (c_hash old <> c_hash new -> amem (c_hash old) (cache s') = false).
Proof. exact replace_effect. Qed.
Print Assumptions C12_replace_effect.

Example C12_final_hypotheses_satisfiable :
  let s2 := run 0 init [OAdd ex_c1 None; OAdd ex_c2 None] in         (* unlimited, h1 (a, b) and h2 (a) *)
  let c1' := set_tags ex_c1 [[118]%N] in                              (* a new copy of h1, other tags *)
  Inv ex_names_of 0 s2 /\ wf_cert ex_names_of c1' /\ wf_copy ex_names_of ex_c1 /\
  alookup (c_hash c1') (cache s2) <> None /\
  (* replaced by itself: still cached (with the new copy's tags), lists as before *)
  map (fun kv => (fst kv, c_tags (snd kv))) (cache (replace_cert 0 ex_c1 c1' None s2)) =
    [([104; 50], []); ([104; 49], [[118]])]%N /\
  idx (replace_cert 0 ex_c1 c1' None s2) [98]%N = [[104; 49]%N] /\
  (* removing h2 (which shares the name a with h1) leaves h1 listed under a and b *)
  idx (remove_cert ex_c2 s2) [97]%N = [[104; 49]%N] /\ idx (remove_cert ex_c2 s2) [98]%N = [[104; 49]%N] /\
  (* RemoveManaged("a", any issuer) removes the managed h1 and keeps the unmanaged h2; Remove([h2, zz]) removes h2 *)
  akeys (cache (remove_managed [([97]%N, [])] s2)) = [[104; 50]%N] /\
  akeys (cache (remove_hashes [[104; 50]; [122; 122]]%N s2)) = [[104; 49]%N] /\
  (* unlimited -> limit 1: one certificate is evicted at once *)
  DInv ex_names_of (DSt 0 s2) /\
  length (cache (d_st (set_capacity 1%Z [[104; 50]%N] (DSt 0 s2)))) = 1.
Proof.
  assert (HI : Inv ex_names_of 0 (run 0 init [OAdd ex_c1 None; OAdd ex_c2 None])).
  { apply run_inv; [apply inv_init|]. repeat constructor; cbn; try discriminate; reflexivity. }
  cbv zeta. split; [exact HI|]. split; [split; [reflexivity | discriminate]|].
  split; [left; reflexivity|]. split; [vm_compute; discriminate|].
  split; [vm_compute; reflexivity|]. split; [vm_compute; reflexivity|].
  split; [vm_compute; reflexivity|]. split; [vm_compute; reflexivity|].
  split; [vm_compute; reflexivity|]. split; [vm_compute; reflexivity|].
  split; [exact HI | vm_compute; reflexivity].
Qed.
