(** C12 — The certificate cache and its name index always agree, within capacity.
    Only statements, each closed by [exact] (or a few lines), with [Print Assumptions] beneath.

    Setting.  [names_of] maps a hash to the names of the certificate with that hash (the hash is
    blake3 of the DER chain, the names are read from the leaf, so equal hashes have equal names).
    A history is any list of operations ([Cache.Model.op]); an operation may carry an arbitrarily
    stale copy of a certificate, which is how the read / act / write-back splits of
    handshakeMaintenance, updateOCSPStaples, updateARI, RemoveManaged, reloadManagedCertificate
    appear in a history.  [wf_op] only asks that the certificates an operation carries have the
    names of their hash and a non-empty hash. *)
From CM Require Import Lib.Str Cache.Model Cache.AMapFacts Cache.Proofs Cache.Check Cache.SpecProofs Cache.Sched.
From Coq Require Import Arith.
Open Scope nat_scope.

(** F inv_preserved: the invariant (index and cache agree with multiplicity; no empty index list;
    every entry is stored under its own hash; size within capacity) holds after every history *)
Theorem C12_inv_preserved : forall names_of cap ops,
  Forall (wf_op names_of) ops -> Inv names_of cap (run cap init ops).
Proof. intros. apply run_inv; [apply inv_init | assumption]. Qed.
Print Assumptions C12_inv_preserved.

(** ... and after every single operation from any state satisfying it (stale copies included) *)
Theorem C12_step_preserves : forall names_of cap s o,
  Inv names_of cap s -> wf_op names_of o -> Inv names_of cap (step cap s o).
Proof. exact step_inv. Qed.
Print Assumptions C12_step_preserves.

(** lookup_exact + reachable_by_each_name: looking up a name returns exactly the cached
    certificates that list it (left to right: nothing else is returned, no zero value; right to
    left: every cached certificate is reachable through each of its names) *)
Theorem C12_lookup_exact : forall names_of cap ops n c,
  Forall (wf_op names_of) ops ->
  let s := run cap init ops in
  In c (get_all_matching_certs s n) <-> (alookup (c_hash c) (cache s) = Some c /\ In n (c_names c)).
Proof. intros. apply (lookup_exact names_of cap). apply run_inv; [apply inv_init | assumption]. Qed.
Print Assumptions C12_lookup_exact.

Theorem C12_reachable_by_each_name : forall names_of cap ops h c n,
  Forall (wf_op names_of) ops ->
  let s := run cap init ops in
  alookup h (cache s) = Some c -> In n (c_names c) -> In c (get_all_matching_certs s n).
Proof.
  intros names_of cap ops h c n Hwf s Hc Hn.
  assert (HI : Inv names_of cap s) by (apply run_inv; [apply inv_init | assumption]).
  apply (lookup_exact names_of cap s HI). split; [|exact Hn].
  destruct (inv_cert names_of cap s HI h c Hc) as (-> & _). exact Hc.
Qed.
Print Assumptions C12_reachable_by_each_name.

(** Cache.AllMatchingCertificates: exactly the cached certificates listing the name or one of the
    candidates obtained by replacing its labels with "*" from the left *)
Theorem C12_all_matching_exact : forall names_of cap ops q c,
  Forall (wf_op names_of) ops ->
  let s := run cap init ops in
  In c (all_matching s q) <->
  (alookup (c_hash c) (cache s) = Some c /\
   exists n, In n (q :: wildcard_candidates q) /\ In n (c_names c)).
Proof. intros. apply (all_matching_exact names_of cap). apply run_inv; [apply inv_init | assumption]. Qed.
Print Assumptions C12_all_matching_exact.

(** no_duplicate_cert: one entry per hash; a hash is mentioned under a name once (for
    certificates without repeated names; in general as often as the name is repeated) ... *)
Theorem C12_no_duplicate : forall names_of cap ops,
  Forall (wf_op names_of) ops ->
  let s := run cap init ops in
  NoDup (akeys (cache s)) /\
  (forall n h, count_str h (idx s n) = if amem h (cache s) then count_str n (names_of h) else 0) /\
  ((forall h, NoDup (names_of h)) -> forall n, NoDup (idx s n)).
Proof.
  intros names_of cap ops Hwf s.
  assert (HI : Inv names_of cap s) by (apply run_inv; [apply inv_init | assumption]).
  split; [apply (inv_nodup _ _ _ HI)|]. split; [apply (inv_count _ _ _ HI)|].
  intros Hnd n. apply (no_duplicate_mention names_of cap s HI n Hnd).
Qed.
Print Assumptions C12_no_duplicate.

(** ... and re-adding a cached certificate stores nothing twice: same keys, same index, every
    other entry untouched, the entry's tags become the union (without repetition) *)
Theorem C12_readd_merges_tags : forall cap s c v e,
  alookup (c_hash c) (cache s) = Some e ->
  let s' := add_cert cap c v s in
  index s' = index s /\ length (cache s') = length (cache s) /\ akeys (cache s') = akeys (cache s) /\
  (forall h, h <> c_hash c -> alookup h (cache s') = alookup h (cache s)) /\
  exists e', alookup (c_hash c) (cache s') = Some e' /\
             e' = set_tags e (c_tags e') /\
             (forall t, In t (c_tags e') <-> In t (c_tags e) \/ In t (c_tags c)) /\
             (NoDup (c_tags e) -> NoDup (c_tags e')).
Proof. exact readd_merges_tags. Qed.
Print Assumptions C12_readd_merges_tags.

(** within_capacity, for every history, capacity and eviction choice *)
Theorem C12_within_capacity : forall names_of cap ops,
  Forall (wf_op names_of) ops -> 0 < cap -> length (cache (run cap init ops)) <= cap.
Proof. intros names_of cap ops Hwf. apply (inv_cap names_of cap). apply run_inv; [apply inv_init | assumption]. Qed.
Print Assumptions C12_within_capacity.

(** schedules: any number of threads running the composite operations of the code as sequences
    of critical sections (reads hand copies to later steps), under any scheduler *)
Theorem C12_every_schedule : forall names_of cap pool sched,
  Forall (wf_prog names_of) pool ->
  Inv names_of cap (fst (run_sched cap sched (init, pool))).
Proof. intros. apply sched_inv; [apply inv_init | assumption]. Qed.
Print Assumptions C12_every_schedule.

(** the composite operations of the code are such programs *)
Theorem C12_code_paths_are_programs : forall names_of,
  (forall subjects, wf_prog names_of (prog_remove_managed subjects)) /\
  (forall h v, wf_prog names_of (prog_handshake_refresh h v)) /\
  (forall h new victim, wf_cert names_of new -> wf_prog names_of (prog_reload h new victim)) /\
  (forall upd, wf_prog names_of (prog_ocsp_maintenance upd)) /\
  (forall h v, wf_prog names_of (prog_update_ari h v)) /\
  (forall c victim, wf_cert names_of c -> wf_prog names_of (prog_cache c victim)) /\
  (forall hs, wf_prog names_of (prog_remove hs)) /\
  (forall h, wf_prog names_of (prog_remove_current h)).
Proof. exact code_paths_wf. Qed.
Print Assumptions C12_code_paths_are_programs.

(** the run-time monitor [spec_ok] (Cache.Check) is the boolean form of the statements above:
    it holds of everything the model produces, so a failure on an observation of the
    implementation is a failure of the property *)
Theorem C12_spec_ok_of_model : forall cap pool ops queries,
  Forall (wf_op (names_of_pool (case_certs_of pool ops))) ops ->
  spec_ok (model_case cap pool ops queries) = true.
Proof. exact spec_ok_of_model. Qed.
Print Assumptions C12_spec_ok_of_model.

(** ---- non-vacuity ---- *)
Definition ex_names_of (h : hash) : list name :=
  if str_eqb h [104; 49]%N then [[97]%N; [98]%N]          (* "h1" -> a, b *)
  else if str_eqb h [104; 50]%N then [[97]%N]              (* "h2" -> a *)
  else [].
Definition ex_c1 := Cert [104; 49]%N [[97]%N; [98]%N] true [] [[116]%N] 0%Z [].
Definition ex_c2 := Cert [104; 50]%N [[97]%N] false [] [] 0%Z [].
Definition ex_stale := set_ocsp ex_c1 7%Z.
Definition ex_ops : list op :=
  [OAdd ex_c1 None; OAdd ex_c2 (Some [104; 49]%N); OWriteBack ex_stale; OAdd ex_c1 (Some [104; 50]%N);
   ORemoveHashes [[122]%N]; OAdd ex_c1 None].

Example C12_hypotheses_satisfiable :
  Forall (wf_op ex_names_of) ex_ops /\
  (* capacity 1: the second add evicts h1, the stale write-back of h1 is refused, h1 comes back *)
  akeys (cache (run 1 init ex_ops)) = [[104; 49]%N] /\
  idx (run 1 init ex_ops) [97]%N = [[104; 49]%N] /\
  map (fun s => akeys (cache s)) (trace 1 init ex_ops) =
    [[[104; 49]]; [[104; 50]]; [[104; 50]]; [[104; 49]]; [[104; 49]]; [[104; 49]]]%N.
Proof.
  split; [|vm_compute; repeat split].
  repeat constructor; cbn; try discriminate; reflexivity.
Qed.

(** An observation, not a violation of C12: the handshake's write-back stores its whole (stale)
    copy, so a tag merged between the handshake's read and its write-back is dropped again
    (maintain.go's write-backs re-read under the lock and only change one field). *)
Example C12_stale_writeback_reverts_tags :
  let t2 := Cert [104; 49]%N [[97]%N; [98]%N] true [] [[117]%N] 0%Z [] in
  let s := run 0 init [OAdd ex_c1 None; OAdd t2 None; OWriteBack ex_stale] in
  map c_tags (map snd (cache (run 0 init [OAdd ex_c1 None; OAdd t2 None]))) = [[[116]; [117]]]%N /\
  map c_tags (map snd (cache s)) = [[[116]]]%N.
Proof. vm_compute. split; reflexivity. Qed.
