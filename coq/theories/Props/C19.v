(** C19 — Background work retries with back-off until success or cancel; no job is lost.
    Statements only; proofs are in Retry/Proofs.v. *)
From Coq Require Import List ZArith Bool Lia.
From CM Require Import Lib.Str Gen.Consts Retry.Model Retry.Proofs.
Import ListNotations.

(** ** (a) doWithRetry — for every table of intervals, every sequence of outcomes, durations
    and timer latencies, every cancellation instant *)

(** the back-off table read from async.go on this run: non-empty, every pause positive (never
    an immediate retry), never decreasing, and the horizon is positive *)
Theorem C19_schedule_is_positive_backoff :
  retry_intervals <> [] /\ all_positive retry_intervals = true /\ nondecreasing retry_intervals = true /\
  (0 < max_retry_duration)%Z.
Proof. repeat split; try reflexivity. discriminate. Qed.
Print Assumptions C19_schedule_is_positive_backoff.

Theorem C19_waits_follow_schedule : forall iv maxd cancel pick0 calls atts r te, iv <> [] ->
  do_with_retry iv maxd cancel pick0 calls = (atts, r, te) ->
  (forall a, hd_error atts = Some a -> a_start a = c_late (nth 0 calls call0)) /\
  forall k, (S k < length atts)%nat ->
    a_start (nth (S k) atts att0) = (a_end (nth k atts att0) + sched iv k + c_late (nth (S k) calls call0))%Z /\
    (all_positive iv = true -> (0 <= c_late (nth (S k) calls call0))%Z ->
       (a_end (nth k atts att0) < a_start (nth (S k) atts att0))%Z).
Proof. exact waits_follow_schedule. Qed.
Print Assumptions C19_waits_follow_schedule.

Theorem C19_attempt_counter_increments : forall iv maxd cancel pick0 calls atts r te, iv <> [] ->
  do_with_retry iv maxd cancel pick0 calls = (atts, r, te) ->
  forall i, (i < length atts)%nat -> a_no (nth i atts att0) = Z.of_nat i.
Proof. exact attempt_counter_increments. Qed.
Print Assumptions C19_attempt_counter_increments.

Theorem C19_stops_on_success_cancel_noretry : forall iv maxd cancel pick0 calls atts r te, iv <> [] ->
  do_with_retry iv maxd cancel pick0 calls = (atts, r, te) ->
  stop_ok atts r /\
  (forall i, (i < length atts)%nat -> a_out (nth i atts att0) = c_out (nth i calls call0)) /\
  (cancel = None -> r <> RCtxCanceled) /\
  (r = RPending -> length atts = length calls) /\
  (r = RGiveUp \/ r = RLoopExit -> (maxd <= te)%Z).
Proof. exact stops_on_success_cancel_noretry. Qed.
Print Assumptions C19_stops_on_success_cancel_noretry.

Theorem C19_retries_while_failing : forall iv maxd pick0 calls atts r te, iv <> [] ->
  Forall (fun c => c_out c = OPlain) calls ->
  do_with_retry iv maxd None pick0 calls = (atts, r, te) ->
  (r = RPending /\ length atts = length calls) \/ ((r = RGiveUp \/ r = RLoopExit) /\ (maxd <= te)%Z).
Proof. exact retries_while_failing. Qed.
Print Assumptions C19_retries_while_failing.

Theorem C19_cancel_prompt : forall iv maxd cn pick0 calls atts r te, iv <> [] -> all_positive iv = true ->
  do_with_retry iv maxd (Some cn) pick0 calls = (atts, r, te) ->
  (forall i, (i < length atts)%nat -> (a_start (nth i atts att0) <= cn)%Z \/ i = 0%nat) /\
  (r = RCtxCanceled -> te = Z.max (last_end 0 atts) cn).
Proof. exact cancel_prompt. Qed.
Print Assumptions C19_cancel_prompt.

(** nil means success, also at the horizon: the loop returns nil only when its last attempt
    succeeded.  (Tied with the horizon shrunk to a fraction of a second: class retry-horizon.) *)
Theorem C19_nil_only_after_success : forall iv maxd cancel pick0 calls atts r te, iv <> [] ->
  do_with_retry iv maxd cancel pick0 calls = (atts, r, te) -> returns_nil r = true ->
  exists l a, atts = l ++ [a] /\ Forall plain l /\ a_out a = OOk.
Proof. exact nil_only_after_success. Qed.
Print Assumptions C19_nil_only_after_success.

(** the code before the fix 9155753: after maxRetryDuration "giving up" returned nil although
    every attempt had failed *)
Theorem C19_giving_up_returned_nil_orig_refuted : exists iv maxd calls atts r te,
  iv <> [] /\ all_positive iv = true /\
  do_with_retry iv maxd None false calls = (atts, r, te) /\ returns_nil_gen false r = true /\
  Forall plain atts /\ atts <> [].
Proof. exact giving_up_returned_nil_orig_refuted. Qed.
Print Assumptions C19_giving_up_returned_nil_orig_refuted.

(** ** (c) test CA *)
Theorem C19_test_cert_never_returned : forall norm ca testca attempts outs ds d,
  ca <> testca -> issue norm ca testca attempts outs = (ds, ICert d) -> d = norm ca.
Proof. exact test_cert_never_returned. Qed.
Print Assumptions C19_test_cert_never_returned.

Theorem C19_test_success_followed_by_production : forall norm ca testca attempts rest,
  (0 < attempts)%Z -> testca <> [] -> ca <> testca ->
  fst (issue norm ca testca attempts (OrdOk :: rest)) =
    match rest with [] => [testca] | _ => [testca; norm ca] end /\
  (forall o rest', rest = o :: rest' ->
     snd (issue norm ca testca attempts (OrdOk :: rest)) =
       match o with OrdOk => ICert (norm ca) | OrdRateLimited => IErr | OrdFail => IErrNoRetry end).
Proof. exact test_success_followed_by_production. Qed.
Print Assumptions C19_test_success_followed_by_production.

Theorem C19_retries_use_test_ca_first : forall norm ca testca attempts o rest,
  hd_error (fst (issue norm ca testca attempts (o :: rest))) =
    Some (if (0 <? attempts)%Z && negb (is_empty_name testca) then testca else norm ca).
Proof. exact first_order_directory. Qed.
Print Assumptions C19_retries_use_test_ca_first.

(** The asynchronous obtain as a whole (doWithRetry around Issue; [outs] = the outcomes of the
    successive orders, whichever CA they reach; any number of attempts): with a distinct test
    CA configured, a certificate that ends the loop comes from the production directory; every
    successful order at the test CA is followed by an order at the production CA; orders go
    nowhere else; the first attempt orders from production, and (by C19_retries_use_test_ca_first)
    every later one from the test CA first.  Tied end to end: the real ACMEIssuer against two
    mock ACME CAs with scripted order outcomes (classes e2e-issue, e2e-async). *)
Theorem C19_async_test_cert_never_stored : forall norm fuel ca testca outs ds r,
  testca <> [] -> ca <> testca -> norm ca <> testca ->
  obtain_async norm fuel ca testca 0 outs = (ds, r) ->
  (length ds <= length outs)%nat /\
  (forall d, r = ICert d -> d = norm ca) /\
  follows testca (norm ca) ds outs /\
  (forall d, In d ds -> d = testca \/ d = norm ca) /\
  (forall d, hd_error ds = Some d -> d = norm ca).
Proof.
  intros norm fuel ca testca outs ds r Ht Hne Hn H.
  exact (obtain_async_inv norm fuel ca testca 0%Z outs ds r Ht Hne Hn (Z.le_refl 0) H).
Qed.
Print Assumptions C19_async_test_cert_never_stored.

(** what the model of Issue hard-codes, re-read from acmeissuer.go / acmeclient.go on every run:
    isRetry := attempts > 0; two doIssue calls, the first with [attempts], the second with 0,
    the second under `isRetry && usedTestCA && am.CA != am.TestCA`, with the HTTP 429 test and
    the ErrNoRetry wrap; secureCAURL's scheme rule *)
Theorem C19_issue_shape_as_modelled :
  issue_retry_threshold = 0%Z /\ issue_second_order_attempts = 0%Z /\ issue_shape_ok = true /\
  ca_scheme_sep = [58; 47; 47]%N /\ ca_default_scheme = [104; 116; 116; 112; 115; 58; 47; 47]%N.
Proof. repeat split; reflexivity. Qed.
Print Assumptions C19_issue_shape_as_modelled.

(** ** (b) jobManager — for every history of submissions, worker steps and job outcomes
    (ok, error, panic), any number of workers *)

Theorem C19_one_job_per_name : forall maxw s, (1 <= maxw)%nat -> reachable maxw s ->
  forall n, n <> [] ->
    (cnt n (held s) <= 1)%nat /\ (has_name n (names s) = true <-> cnt n (held s) = 1%nat).
Proof. exact one_job_per_name. Qed.
Print Assumptions C19_one_job_per_name.

Theorem C19_submit_queues_or_is_duplicate : forall maxw s j s', jstep maxw s (Submit j) = Some s' ->
  (j_name j <> [] /\ has_name (j_name j) (names s) = true /\ s' = s) \/ queue s' = queue s ++ [j].
Proof. exact submit_queues_or_is_duplicate. Qed.
Print Assumptions C19_submit_queues_or_is_duplicate.

Theorem C19_every_job_runs : forall maxw s, (1 <= maxw)%nat -> reachable maxw s ->
  (forall j l s', jstep maxw s l = Some s' -> In j (queue s) -> In j (queue s') \/ In j (running s')) /\
  (queue s <> [] -> exists l s', is_worker_step l = true /\ jstep maxw s l = Some s') /\
  forall ls s', forallb is_worker_step ls = true -> jrun maxw s ls = Some s' ->
    (length ls <= measure s)%nat /\
    ((forall l, is_worker_step l = true -> jstep maxw s' l = None) ->
       queue s' = [] /\ running s' = [] /\ finishing s' = [] /\ active s' = 0%nat /\
       forall n, n <> [] -> has_name n (names s') = false).
Proof. exact every_job_runs. Qed.
Print Assumptions C19_every_job_runs.

Theorem C19_failure_does_not_block_name : forall maxw s id j r k, (1 <= maxw)%nat -> reachable maxw s ->
  take_job id (running s) = Some (j, r) ->
  exists s1 s2, jstep maxw s (Return id k) = Some s1 /\ jstep maxw s1 (Release id) = Some s2 /\
    has_name (j_name j) (names s2) = false /\
    forall id', idc id' (held s2) = 0%nat ->
      exists s3, jstep maxw s2 (Submit (Job id' (j_name j))) = Some s3 /\
                 queue s3 = queue s2 ++ [Job id' (j_name j)].
Proof. exact failure_does_not_block_name. Qed.
Print Assumptions C19_failure_does_not_block_name.

(** the code before the fix (393ac3e), kept as the record of the finding *)
Theorem C19_panic_leaks_name_and_worker_orig :
  let a := [97%N] in let b := [98%N] in
  exists s, jrun_gen false 1 jinit [Submit (Job 1 a); Take; Return 1 KPanic] = Some s /\
    has_name a (names s) = true /\ held s = [] /\ active s = 1%nat /\ live s = 0%nat /\
    jstep_orig 1 s (Submit (Job 2 a)) = Some s /\
    exists s', jstep_orig 1 s (Submit (Job 3 b)) = Some s' /\ queue s' = [Job 3 b] /\
      forall l, is_worker_step l = true -> jstep_orig 1 s' l = None.
Proof. exact panic_leaks_name_and_worker_orig. Qed.
Print Assumptions C19_panic_leaks_name_and_worker_orig.

(** non-vacuity *)
Example C19_retry_example :
  do_with_retry [10; 20]%Z 1000 (Some 47%Z) false
    [Call OPlain 2 0; Call OPlain 3 1; Call OPlain 1 0; Call OOk 5 0] =
  ([Att 0 0 2 OPlain; Att 1 13 16 OPlain; Att 2 36 37 OPlain], RCtxCanceled, 47%Z).
Proof. vm_compute. reflexivity. Qed.
Example C19_jobs_example : exists s,
  jrun 1 jinit [Submit (Job 1 [97%N]); Take; Submit (Job 2 [97%N]); Submit (Job 3 [98%N]); Return 1 KPanic;
                Release 1; Take; Submit (Job 4 [97%N])] = Some s /\
  map j_id (queue s) = [4%nat] /\ map j_id (running s) = [3%nat] /\ active s = 1%nat.
Proof. eexists. split; [vm_compute; reflexivity|]. repeat split. Qed.
Example C19_issue_example :
  issue (fun x => x) [112%N] [116%N] 2 [OrdOk; OrdOk] = ([[116%N]; [112%N]], ICert [112%N]).
Proof. reflexivity. Qed.
Example C19_async_example :
  let p := [112%N] in let t := [116%N] in
  obtain_async (fun x => x) 10 p t 0 [OrdFail; OrdOk; OrdRateLimited; OrdFail; OrdOk; OrdOk] =
    ([p; t; p; t; t; p], ICert p) /\ t <> [] /\ p <> t.
Proof. cbn zeta. split; [vm_compute; reflexivity|]. split; discriminate. Qed.
