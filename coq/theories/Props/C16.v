(** C16 placeholder *)
From CM Require Import Lib.Str Solvers.Model.
