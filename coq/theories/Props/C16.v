(** C16 — ACME orders ... leave nothing behind (solver level).
    Statements only; proofs are in Solvers/Proofs.v.

    Vocabulary (Solvers/Model.v): a history [ops] of [SPresent o f] / [SClean o f] calls on the
    solver stacks newACMEClient builds (http / tls-alpn: solverWrapper, distributedSolver,
    listener solver; dns: solverWrapper, DNS01Solver); [f] says what the environment does to that
    call (context already cancelled, storage operation fails, provider operation fails, result
    of the bind).  [disc ops]: acmez's discipline — CleanUp only for, and after, a Present (read
    from acmez v3.1.2 client.go; every chosen authorization gets exactly one CleanUp, also after
    a failed Present).  [spending ops]: presented and not yet cleaned up.  [srun ops]: the state
    (solvers map, activeChallenges, token files, provider records, presenter memory).
    [sf] = KeyBuilder.Safe and [honour] = "the storage honours context cancellation": arbitrary.
    No bound on the number of orders, addresses or record names; every interleaving and every
    combination of faults is a history. *)
From Coq Require Import ZArith.
From CM Require Import Lib.Str Gen.Consts Safe.Model Challenge.Assoc Challenge.Model Solvers.Model Solvers.Proofs Solvers.E2E Solvers.E2EProofs Solvers.Config Solvers.ConfigProofs Solvers.MoreProofs Solvers.DnsExact Solvers.DnsExactProofs Solvers.Objects Solvers.ObjectsProofs Solvers.Tie.
Open Scope Z_scope.

(** the use count of an address is the number of pending challenges on it; the entry (and with
    it any listener of ours) exists only while that number is positive *)
Theorem C16_count_is_pending : forall sf honour ops a, disc ops = true ->
  match aget str_eqb a (solvers (srun sf honour ops)) with
  | Some (n, _) => n = npend a (spending ops) /\ 0 < n
  | None => npend a (spending ops) = 0
  end.
Proof. exact count_is_pending. Qed.
Print Assumptions C16_count_is_pending.

(** "a challenge listener ... stays open while any remains": a listener that was opened for
    (or found open by) a challenge is open as long as that challenge is pending *)
Theorem C16_listener_stays_while_pending : forall sf honour ops e, disc ops = true ->
  In e (spending ops) -> is_listener (o_kind (fst e)) = true -> f_bind (snd e) = BOk ->
  listening (srun sf honour ops) (o_addr (fst e)) = true.
Proof. exact listener_stays_while_pending. Qed.
Print Assumptions C16_listener_stays_while_pending.

(** "... is closed when the last concurrent challenge using its address ends" *)
Theorem C16_listener_only_while_in_use : forall sf honour ops a, disc ops = true ->
  listening (srun sf honour ops) a = true -> 0 < npend a (spending ops).
Proof. exact listener_only_while_in_use. Qed.
Print Assumptions C16_listener_only_while_in_use.

(** when nobody else holds the addresses (every bind succeeds): open iff in use *)
Theorem C16_listener_open_iff_in_use : forall sf honour ops a, disc ops = true ->
  (forall e, In e (spending ops) -> is_listener (o_kind (fst e)) = true -> f_bind (snd e) = BOk) ->
  (listening (srun sf honour ops) a = true <-> 0 < npend a (spending ops)).
Proof. exact listener_open_iff_in_use. Qed.
Print Assumptions C16_listener_open_iff_in_use.

(** when no challenge is pending nothing is left: no solver entry (no listener), no challenge
    in memory, no presenter memory — under every fault; no token file unless a Storage.Delete
    itself was made to fail, no DNS record unless a DeleteRecords itself was made to fail.
    Cancellation alone never leaves anything: clean-up deletes with a fresh context. *)
Theorem C16_quiescent_clean : forall sf honour ops, disc ops = true -> spending ops = [] ->
  let s := srun sf honour ops in
  solvers s = [] /\ s_mem s = [] /\ dns_mem s = [] /\
  (storage_delete_fault ops = false -> s_store s = []) /\
  (provider_delete_fault ops = false -> dns_recs s = []).
Proof. exact quiescent_clean. Qed.
Print Assumptions C16_quiescent_clean.

(** before quiescence too, every trace belongs to a pending challenge *)
Theorem C16_only_pending_leaves_traces : forall sf honour ops, disc ops = true ->
  let s := srun sf honour ops in let p := spending ops in
  (forall k v, aget str_eqb k (s_mem s) = Some v -> exists e, In e p /\ ck (fst e) = k) /\
  (storage_delete_fault ops = false ->
     forall k v, aget skey_eqb k (s_store s) = Some v ->
     exists e, In e p /\ is_listener (o_kind (fst e)) = true /\ tk sf (fst e) = k) /\
  (forall r, In r (dns_mem s) -> exists e, In e p /\ is_dns e = true /\ orec (fst e) = r) /\
  (provider_delete_fault ops = false ->
     forall r, In r (dns_recs s) -> exists e, In e p /\ is_dns e = true /\ orec (fst e) = r).
Proof. exact only_pending_leaves_traces. Qed.
Print Assumptions C16_only_pending_leaves_traces.

(** two challenges sharing one record name are told apart by value: cleaning up one leaves every
    record with another name or another value, in the zone and in the presenter's memory *)
Theorem C16_shared_record_name_distinguished_by_value : forall sf honour s o f r, r <> orec o ->
  count_rec r (dns_recs (nxt sf honour s (SClean o f))) = count_rec r (dns_recs s) /\
  count_rec r (dns_mem (nxt sf honour s (SClean o f))) = count_rec r (dns_mem s).
Proof. exact shared_record_name_distinguished_by_value. Qed.
Print Assumptions C16_shared_record_name_distinguished_by_value.

(** hence a created record stays until its own clean-up ([dns_fresh]: no two pending DNS
    challenges with the same name AND value — tokens are unique) *)
Theorem C16_record_stays_until_own_cleanup : forall sf honour ops e, disc ops = true -> dns_fresh ops = true ->
  In e (spending ops) -> present_ok_dns e = true ->
  In (orec (fst e)) (dns_recs (srun sf honour ops)) /\ In (orec (fst e)) (dns_mem (srun sf honour ops)).
Proof. exact record_stays_until_own_cleanup. Qed.
Print Assumptions C16_record_stays_until_own_cleanup.

(** the boolean specification the check evaluates on the implementation's observations after
    every call holds of the model after every history (without any hypothesis: it contains the
    discipline as a guard) *)
Theorem C16_spec_at_holds : forall sf honour kstr ops,
  spec_at sf kstr ops (snap_of kstr (srun sf honour ops)) = true.
Proof. exact spec_at_holds. Qed.
Print Assumptions C16_spec_at_holds.

Theorem C16_quiescent_clean_b_holds : forall sf honour kstr ops,
  quiescent_clean_b ops (snap_of kstr (srun sf honour ops)) = true.
Proof. exact quiescent_clean_b_holds. Qed.
Print Assumptions C16_quiescent_clean_b_holds.

(** "every number of concurrent orders ..., every interleaving of their Present/CleanUp calls":
    each order is the program [Present; CleanUp] (with its own faults); [merge] is any
    interleaving of any number of such programs.  Every interleaving is a history of the
    discipline and ends with nothing pending ... *)
Theorem C16_all_interleavings_disciplined : forall ts ops,
  merge (map prog ts) ops -> disc ops = true /\ spending ops = [].
Proof. exact all_interleavings_disciplined. Qed.
Print Assumptions C16_all_interleavings_disciplined.

(** ... hence leaves the solver state exactly as it found it, under every combination of
    cancelled contexts, failed Store, failed AppendRecords, addresses in use and bind errors
    (a Delete / DeleteRecords that is itself made to fail can leave the token / record) *)
Theorem C16_interleavings_leave_nothing : forall sf honour ts ops,
  merge (map prog ts) ops ->
  storage_delete_fault ops = false -> provider_delete_fault ops = false ->
  srun sf honour ops = sinit.
Proof. exact interleavings_leave_nothing. Qed.
Print Assumptions C16_interleavings_leave_nothing.


(** "Against a conforming ACME server, issuance succeeds with each enabled challenge type":
    [validates sf feq false s o] runs the validation request of a conforming CA for the challenge
    of [o] against the state [s] — HTTP-01: the listener of the address is open and the C15 handler
    model ([http_handle]) answers GET <base>/<token> with Host = identifier with the key
    authorization; TLS-ALPN-01: the listener is open and the hello [acme-tls/1] with the challenge
    key as SNI gets this challenge's certificate ([alpn_get]); DNS-01: the TXT record is in the
    zone.  In EVERY history of the discipline (any number of other orders on the same address /
    record name, any interleaving, any faults on the other calls), a pending challenge whose own
    Present went through validates — for as long as it is pending.  [key_fresh]: certmagic
    serialises orders per identifier (C01); [good_order]: the challenge has the solver's type, the
    HTTP-01 identifier is a DNS name, the SNI is not empty. *)
Theorem C16_pending_challenge_validates : forall sf honour feq, (forall x, feq x x = true) ->
  forall ops e, disc ops = true -> key_fresh ops = true -> dns_fresh ops = true ->
  In e (spending ops) -> clean_present false (snd e) = true -> good_order (fst e) ->
  validates sf feq false (srun sf honour ops) (fst e) = true.
Proof. exact pending_validates. Qed.
Print Assumptions C16_pending_challenge_validates.

(** ... and when every order is over, no validation request is answered any more *)
Theorem C16_finished_orders_validate_nothing : forall sf honour feq ops o,
  disc ops = true -> spending ops = [] -> provider_delete_fault ops = false ->
  validates sf feq false (srun sf honour ops) o = false.
Proof. exact finished_validates_nothing. Qed.
Print Assumptions C16_finished_orders_validate_nothing.

(** the boolean form evaluated on the CA's real validation result in the end-to-end cases holds
    of the model *)
Theorem C16_validation_spec_holds : forall sf honour feq, (forall x, feq x x = true) ->
  forall ops o, existsb (fun e => order_eqb (fst e) o) (spending ops) = true ->
  validation_spec ops o false (validates sf feq false (srun sf honour ops) o) = true.
Proof. exact validation_spec_holds. Qed.
Print Assumptions C16_validation_spec_holds.


(** "solver set per issuer configuration" (newACMEClient), for every configuration: exactly one
    solver per enabled challenge type (DNS-01 exclusively when a DNS solver is configured, else
    HTTP-01 and TLS-ALPN-01 unless disabled) ... *)
Theorem C16_solver_per_enabled_type : forall lower is_space c t,
  length (filter (fun d => ctype_eqb (sd_type d) t) (solver_set lower is_space c)) = if enabled c t then 1%nat else 0%nat.
Proof. exact solver_per_enabled_type. Qed.
Print Assumptions C16_solver_per_enabled_type.

(** ... the listener solvers are distributed under the issuer's own key prefix (where every
    instance's getChallengeInfo looks) and listen on ListenHost and the configured port *)
Theorem C16_listener_solvers_distributed : forall lower is_space c d,
  In d (solver_set lower is_space c) -> sd_type d <> TDns ->
  sd_dist d = true /\ sd_prefix d = ca_prefix lower is_space (i_ik c) /\
  sd_addr d = join_host_port (i_host c) (itoa (match sd_type d with THttp => http_port c | _ => alpn_port c end)).
Proof. exact listener_solvers_distributed. Qed.
Print Assumptions C16_listener_solvers_distributed.

(** the port: the alternate port if set, else a changed package port, else the standard port *)
Theorem C16_challenge_port : forall base glob alt,
  (0 < alt -> pick_port base glob alt = alt) /\
  (alt <= 0 -> 0 < glob -> glob <> base -> pick_port base glob alt = glob) /\
  (alt <= 0 -> (glob <= 0 \/ glob = base) -> pick_port base glob alt = base).
Proof. exact pick_port_spec. Qed.
Print Assumptions C16_challenge_port.

Theorem C16_cfg_spec_holds : forall lower is_space c, cfg_spec lower is_space c (solver_set lower is_space c) = true.
Proof. exact cfg_spec_holds. Qed.
Print Assumptions C16_cfg_spec_holds.


(** * acmez's discipline as the explicit hypothesis.  What the recording solver sees in the real
    orders — per challenge [Present; CleanUp], CleanUp exactly once, also after a failed Present and
    after cancellation; concurrent orders interleave — is [merge (map prog ts) ops]; under THAT
    hypothesis nothing is left *)
Theorem C16_acmez_discipline_leaves_nothing : forall sf honour ts ops, merge (map prog ts) ops ->
  let s := srun sf honour ops in
  disc ops = true /\ spending ops = [] /\
  solvers s = [] /\ s_mem s = [] /\ dns_mem s = [] /\
  (storage_delete_fault ops = false -> s_store s = []) /\
  (provider_delete_fault ops = false -> dns_recs s = []).
Proof. exact acmez_discipline_leaves_nothing. Qed.
Print Assumptions C16_acmez_discipline_leaves_nothing.

(** a CleanUp ends the challenge under every fault: cancelled context, failing Delete, failing
    DeleteRecords — the memory entry is gone *)
Theorem C16_cleanup_forgets_under_every_fault : forall sf honour s o f,
  aget str_eqb (ck o) (s_mem (nxt sf honour s (SClean o f))) = None.
Proof. exact cleanup_forgets_under_every_fault. Qed.
Print Assumptions C16_cleanup_forgets_under_every_fault.

(** the [None] branch of [validation_spec] beyond quiescence: an order that is not pending and
    shares no memory key, token key or record with a pending one is not validated, whatever else
    is pending (the finished order of two that shared a listener) *)
Theorem C16_unrelated_order_not_validated : forall sf honour feq ops o,
  disc ops = true -> storage_delete_fault ops = false -> provider_delete_fault ops = false ->
  good_order o ->
  (forall e, In e (spending ops) ->
     (is_listener (o_kind o) = true -> ck (fst e) <> ck o /\ tk sf (fst e) <> tk sf o) /\
     (o_kind o = KDns -> orec (fst e) <> orec o)) ->
  validates sf feq false (srun sf honour ops) o = false.
Proof. exact unrelated_order_not_validated. Qed.
Print Assumptions C16_unrelated_order_not_validated.

(** * DNS records against a provider that normalises and deletes by exact match (Solvers/DnsExact.v)
    "every DNS record that was created is deleted again": for EVERY DNSManager.TTL and EVERY minimum
    TTL of the provider, with the record remembered AS CREATED (results[0].RR(), what the code does),
    the zone holds exactly one record per pending challenge, a CleanUp removes its record, and an
    empty pending list means an empty zone; two challenges sharing a name are told apart by value *)
Theorem C16_dns_zone_is_memory : forall ttl minttl ops, dfresh ops = true ->
  zone (drun ttl minttl true ops) = DnsExact.dmem (drun ttl minttl true ops) /\
  map nvof (zone (drun ttl minttl true ops)) = dpending ops.
Proof. exact zone_is_memory. Qed.
Print Assumptions C16_dns_zone_is_memory.

Theorem C16_dns_cleanup_deletes_created : forall ttl minttl ops n v, dfresh (ops ++ [DClean n v]) = true ->
  forall r, In r (zone (drun ttl minttl true (ops ++ [DClean n v]))) -> nvof r <> (n, v).
Proof. exact cleanup_deletes_created. Qed.
Print Assumptions C16_dns_cleanup_deletes_created.

Theorem C16_dns_created_stays_while_pending : forall ttl minttl ops n v, dfresh ops = true ->
  In (n, v) (dpending ops) -> exists r, In r (zone (drun ttl minttl true ops)) /\ nvof r = (n, v).
Proof. exact created_stays_while_pending. Qed.
Print Assumptions C16_dns_created_stays_while_pending.

Theorem C16_dns_quiescent_zone_empty : forall ttl minttl ops, dfresh ops = true -> dpending ops = [] ->
  zone (drun ttl minttl true ops) = [].
Proof. exact quiescent_zone_empty. Qed.
Print Assumptions C16_dns_quiescent_zone_empty.

(** remembering the record AS REQUESTED is the same when the provider does not clamp the TTL ... *)
Theorem C16_dns_requested_same_when_not_clamped : forall ttl minttl ops, norm minttl ttl = ttl ->
  drun ttl minttl false ops = drun ttl minttl true ops.
Proof. exact requested_same_when_not_clamped. Qed.
Print Assumptions C16_dns_requested_same_when_not_clamped.

(** ... and false when it does: TTL 10 s against a minimum of 60 s, one challenge presented and
    cleaned up — CleanUp finds its memory, forgets it, DeleteRecords ignores the pattern, the record stays *)
Theorem C16_dns_requested_leaves_record_refuted : exists ttl minttl ops,
  dfresh ops = true /\ dpending ops = [] /\ DnsExact.dmem (drun ttl minttl false ops) = [] /\
  zone (drun ttl minttl false ops) <> [].
Proof. exact requested_leaves_record_refuted. Qed.
Print Assumptions C16_dns_requested_leaves_record_refuted.

(** * Where the listener state lives (Solvers/Objects.v): count, listener and the flag that ends the
    TLS-ALPN accept loop are per ADDRESS; solver objects are per issuance *)
Theorem C16_state_is_per_address : forall place s op, forget (fst (ostep place s op)) = plain_step (forget s) op.
Proof. exact state_is_per_address. Qed.
Print Assumptions C16_state_is_per_address.

Theorem C16_per_address_flag_always_returns : forall ops s, snd (orun PerAddress s ops) = true.
Proof. exact per_address_always_returns. Qed.
Print Assumptions C16_per_address_flag_always_returns.

Theorem C16_per_object_flag_refuted : exists ops,
  snd (orun PerObject linit ops) = false /\ snd (orun PerAddress linit ops) = true /\
  fst (orun PerObject linit ops) = LState [] (l_obj_closed (fst (orun PerObject linit ops))).
Proof. exact per_object_flag_refuted. Qed.
Print Assumptions C16_per_object_flag_refuted.

Theorem C16_per_object_flag_invisible_with_one_object : forall obj ops,
  (forall op, In op ops -> match op with OPresent o _ _ | OClean o _ => o = obj end) ->
  forall s, (forall a e, aget str_eqb a (l_solvers s) = Some e -> le_listening e = true -> le_opener e = obj) ->
  snd (orun PerObject s ops) = true.
Proof. exact per_object_one_object_returns. Qed.
Print Assumptions C16_per_object_flag_invisible_with_one_object.

(** * Non-vacuity and worked instances *)
Local Open Scope N_scope.
Definition ex_sf := safe (tbl_lower []) (tbl_space []).
Definition ex_addr : str := [49;50;55;46;48;46;48;46;49;58;56;48].          (* "127.0.0.1:80" *)
Definition ex_ik : str := [99;97].                                           (* "ca" *)
Definition mk_chal (t : ctype) (id tok : str) : chal := Chal t tok (tok ++ [46;120]) false id None.
Definition o1 := Order KHttp ex_addr ex_ik (mk_chal THttp [97;46;116] [116;49]) [] [].
Definition o2 := Order KHttp ex_addr ex_ik (mk_chal THttp [98;46;116] [116;50]) [] [].
(* example.com and *.example.com: one record name, two values *)
Definition d1 := Order KDns [] ex_ik (mk_chal TDns [101;46;116] [116;51]) [95;97;46;101;46;116] [118;49].
Definition d2 := Order KDns [] ex_ik (mk_chal TDns [101;46;116] [116;52]) [95;97;46;101;46;116] [118;50].
Definition ok := Faults false false false BOk.
Definition cancelled := Faults true false false BOk.
Definition store_fails := Faults false true false BOk.

(** the witnesses of the two repaired defects are histories of the discipline, and now end clean:
    (1) Present whose Storage.Store fails next to another order on the same address,
    (2) CleanUp with a cancelled context on a storage that honours it *)
Example C16_hypotheses_satisfiable :
  let h1 := [SPresent o1 ok; SPresent o2 store_fails; SClean o2 ok; SClean o1 cancelled] in
  disc h1 = true /\ spending h1 = [] /\
  (* after o2's failed Present and its CleanUp, o1's listener is still open and counted once *)
  aget str_eqb ex_addr (solvers (srun ex_sf true (firstn 3 h1))) = Some (1%Z, true) /\
  srun ex_sf true h1 = sinit /\
  let h2 := [SPresent d1 ok; SPresent d2 ok; SPresent o1 ok; SClean d1 cancelled] in
  disc h2 = true /\ dns_fresh h2 = true /\ In (d2, ok) (spending h2) /\ present_ok_dns (d2, ok) = true /\
  dns_recs (srun ex_sf true h2) = [orec d2] /\
  listening (srun ex_sf true h2) ex_addr = true.
Proof. vm_compute. repeat split; try reflexivity. right; left; reflexivity. Qed.

(** an interleaving of three order programs (two on one address, one DNS), with faults *)
Example C16_merge_inhabited :
  merge (map prog [(o1, ok, cancelled); (o2, store_fails, ok); (d1, cancelled, ok)])
        [SPresent o1 ok; SPresent d1 cancelled; SPresent o2 store_fails; SClean o1 cancelled; SClean d1 ok; SClean o2 ok].
Proof.
  cbn [map prog].
  apply (merge_step [] _ _ _). apply (merge_step [_; _] _ _ []). apply (merge_step [_] _ _ [_]).
  apply (merge_step [] _ _ _). apply (merge_step [_; _] _ _ []). apply (merge_step [_] _ _ [_]).
  apply merge_nil. repeat constructor.
Qed.

(** one order of each challenge type pending together with a second HTTP-01 order on the same
    address and a second DNS-01 challenge on the same record name: the hypotheses of
    [C16_pending_challenge_validates] hold, each of the five validates, and after the clean-ups
    (in another order) none does *)
Definition ex_addr2 : str := [49;50;55;46;48;46;48;46;49;58;52;52;51].      (* "127.0.0.1:443" *)
Definition t1 := Order KTlsAlpn ex_addr2 ex_ik (mk_chal TTlsAlpn [99;46;116] [116;53]) [] [].
Example C16_validation_hypotheses_satisfiable :
  let h := [SPresent o1 ok; SPresent t1 ok; SPresent d1 ok; SPresent o2 ok; SPresent d2 ok] in
  let feq := tbl_feq [] in
  let h' := h ++ [SClean o2 ok; SClean d1 cancelled; SClean o1 cancelled; SClean t1 ok; SClean d2 ok] in
  (disc h && key_fresh h && dns_fresh h &&
   forallb (fun o => existsb (fun e => order_eqb (fst e) o && clean_present false (snd e)) (spending h) &&
                     good_order_b o && validates ex_sf feq false (srun ex_sf true h) o) [o1; t1; d1; o2; d2] &&
   is_nil (spending h') &&
   forallb (fun o => negb (validates ex_sf feq false (srun ex_sf true h') o)) [o1; t1; d1; o2; d2] &&
   (* while o2 is cleaned up and o1 still pending, o1 still validates and o2 does not *)
   validates ex_sf feq false (srun ex_sf true (h ++ [SClean o2 ok])) o1 &&
   negb (validates ex_sf feq false (srun ex_sf true (h ++ [SClean o2 ok])) o2)) = true.
Proof. vm_compute. reflexivity. Qed.

(** a configuration: ListenHost ::1, AltHTTPPort 5002, package HTTPS port 8443 *)
Example C16_config_instance :
  let c := ICfg false false false [58;58;49] 5002 0 80 8443 ex_ik in
  map (fun d => (sd_type d, sd_addr d)) (solver_set (tbl_lower []) (tbl_space []) c) =
    [(THttp, [91;58;58;49;93;58;53;48;48;50]); (TTlsAlpn, [91;58;58;49;93;58;56;52;52;51])] /\
  enabled c TDns = false /\ enabled c THttp = true.
Proof. vm_compute. repeat split; reflexivity. Qed.

(** the call sequences observed in the end-to-end orders are histories of the discipline:
    two DNS orders sharing a record name, the first cancelled ([P d1; P d2; C d1 (cancelled); C d2]);
    retry with the other challenge type ([P o1; C o1; P t1; C t1]); a failed Present that still gets
    its CleanUp ([P d1 (provider fails); C d1]) *)
Definition provider_fails := Faults false false true BOk.
Example C16_observed_sequences_are_disciplined :
  merge (map prog [(d1, ok, cancelled); (d2, ok, ok)]) [SPresent d1 ok; SPresent d2 ok; SClean d1 cancelled; SClean d2 ok] /\
  merge (map prog [(o1, ok, ok); (t1, ok, ok)]) [SPresent o1 ok; SClean o1 ok; SPresent t1 ok; SClean t1 ok] /\
  merge (map prog [(d1, provider_fails, ok)]) [SPresent d1 provider_fails; SClean d1 ok].
Proof.
  cbn [map prog]. repeat split.
  - apply (merge_step [] _ _ _). apply (merge_step [_] _ _ []). apply (merge_step [] _ _ _). apply (merge_step [_] _ _ []).
    apply merge_nil. repeat constructor.
  - apply (merge_step [] _ _ _). apply (merge_step [] _ _ _). apply (merge_step [_] _ _ []). apply (merge_step [_] _ _ []).
    apply merge_nil. repeat constructor.
  - apply (merge_step [] _ _ _). apply (merge_step [] _ _ _). apply merge_nil. repeat constructor.
Qed.

(** the finished order of two that shared a listener: hypotheses of
    [C16_unrelated_order_not_validated] hold, o1 pending and validated, o2 over and not *)
Example C16_unrelated_order_instance :
  let h := [SPresent o1 ok; SPresent o2 ok; SClean o2 ok] in
  (disc h && negb (storage_delete_fault h) && negb (provider_delete_fault h) && good_order_b o2 &&
   is_listener (o_kind o2) &&
   forallb (fun e => negb (str_eqb (ck (fst e)) (ck o2)) && negb (skey_eqb (tk ex_sf (fst e)) (tk ex_sf o2))) (spending h) &&
   negb (is_nil (spending h)) &&
   validates ex_sf (tbl_feq []) false (srun ex_sf true h) o1 &&
   negb (validates ex_sf (tbl_feq []) false (srun ex_sf true h) o2)) = true.
Proof. vm_compute. reflexivity. Qed.

(** DNS, exact-match provider: example.com and *.example.com share the record name; TTL 10 s is
    clamped to 60 s; the first is cleaned up, the second's record (and only it) is still there *)
Example C16_dns_exact_instance :
  let n := [95;97] in
  let h := [DPresent n [118;49]; DPresent n [118;50]; DClean n [118;49]] in
  dfresh h = true /\ dpending h = [(n, [118;50])] /\
  zone (drun 10 60 true h) = [(n, [118;50], 60%Z)] /\
  zone (drun 10 60 true (h ++ [DClean n [118;50]])) = [] /\
  zone (drun 10 60 false (h ++ [DClean n [118;50]])) = [(n, [118;49], 60%Z); (n, [118;50], 60%Z)] /\
  zone (drun 0 60 false (h ++ [DClean n [118;50]])) = [] /\ norm 60 120 = 120%Z.
Proof. vm_compute. repeat split; reflexivity. Qed.
