(** C09 -- Every operation releases the storage locks it took, on every exit path.
    Statements over the Issuance LTS (obtain, renew sync/async, ManageSync, CleanStorage, ARI
    update, ACME account registration; any number of threads; every schedule; every plan of error / cancel / panic faults). *)
From Coq Require Import List Bool Arith Lia NArith.
From CM Require Import Gen.Consts Issuance.Model Issuance.Proofs Issuance.Invariants Issuance.Refuted Issuance.Final.
Import ListNotations.
Close Scope N_scope.
Open Scope nat_scope.

(** locks_released: along every run in which no Unlock call *of request t itself* is made to fail
    (all other operations of t, and all operations of all other requests, may fail, be cancelled
    or panic at will), once t has returned it owns no entry of the lock table and has no entry
    in the process-level record *)
Theorem C09_locks_released : forall cs st t es s th,
  runs (unlock_ok_for t) (init_state cs st) es s ->
  thread_at s t th -> final_pc (tpc th) = true ->
  recd th = false /\ forall l, lks (sh s) l <> Some t.
Proof. exact locks_released. Qed.
Print Assumptions C09_locks_released.

(** while a request is running, what it holds and has recorded is exactly its own lock, and only
    inside the region between acquisition and the deferred release *)
Theorem C09_holds_only_own_lock : forall cs st s, reachable cs st s ->
  forall t th, thread_at s t th -> locked (tpc th) = true -> lks (sh s) (c_lk (cfg th)) = Some t.
Proof. intros cs st s Hr. exact (I_lock_reachable cs st s Hr). Qed.
Print Assumptions C09_holds_only_own_lock.

(** release_ignores_cancel: the deferred release succeeds for a request whose context is cancelled *)
Theorem C09_release_ignores_cancel : forall t th s r b,
  tpc th = PUnlock r -> canc th = true -> lks s (c_lk (cfg th)) = Some t ->
  exists th' s' e, tstep t th s FNone b = Some (th', s', e) /\
    lks s' (c_lk (cfg th)) = None /\ recd th' = false /\ e_op e = OUnlock (c_lk (cfg th)) /\ e_out e = 0.
Proof. exact release_ignores_cancel. Qed.
Print Assumptions C09_release_ignores_cancel.

(** the excluded fault class: if the Unlock call itself fails (error or panic) the lock is by
    definition still held, and it stays in the process-level record (for CleanUpOwnLocks) *)
Theorem C09_unlock_failure_keeps_record : forall t th s r b f,
  tpc th = PUnlock r -> (f = FErr \/ f = FPanic) -> lks s (c_lk (cfg th)) = Some t -> recd th = true ->
  exists th' s' e, tstep t th s f b = Some (th', s', e) /\
    locked (tpc th') = false /\ lks s' (c_lk (cfg th)) = Some t /\ recd th' = true.
Proof. exact unlock_failure_keeps_record. Qed.
Print Assumptions C09_unlock_failure_keeps_record.

(** what is still held after a failed Unlock is recorded by its holder -- every reachable state,
    every fault plan, Unlock failures included: CleanUpOwnLocks (which unlocks every recorded key
    at exit) releases everything the process holds; the check observes that nothing is held or
    recorded after it has run *)
Theorem C09_held_is_recorded : forall cs st s, reachable cs st s ->
  forall l t, lks (sh s) l = Some t -> exists th, thread_at s t th /\ recd th = true /\ l = c_lk (cfg th).
Proof. exact held_is_recorded. Qed.
Print Assumptions C09_held_is_recorded.

(** consequence for the other instances: as long as no Unlock fails, nobody waits for ever *)
Theorem C09_others_never_blocked_for_ever : forall cs st es s,
  runs unlock_ok (init_state cs st) es s ->
  (exists t th, thread_at s t th /\ final_pc (tpc th) = false) ->
  exists l s' e, l_fault l = FNone /\ step s l = Some (s', e).
Proof. exact deadlock_free. Qed.
Print Assumptions C09_others_never_blocked_for_ever.

(** non-trivial instance: an async renewal whose issuer call panics inside the locked region still
    ends without lock and without record *)
Example C09_hypotheses_nontrivial :
  let cs := [TCfg (PRenew true) 0 0 0 0 false false false false] in
  let ls := sched (rep 7 0) ++ [Label 0 FPanic true] ++ sched (rep 1 0) in
  exists s es th, run (init_state cs due_bundle) ls = Some (s, es) /\
    thread_at s 0 th /\ tpc th = PDone RPanic /\ recd th = false /\ lks (sh s) 0 = None.
Proof.
  intros cs ls. destruct (run (init_state cs due_bundle) ls) as [[s es]|] eqn:R; [|vm_compute in R; discriminate].
  exists s, es. vm_compute in R. inversion R; subst s es; clear R.
  eexists. split; [reflexivity|]. unfold thread_at; simpl. split; [reflexivity|]. auto.
Qed.

(** account registration (newACMEClientWithAccount): two instances register the same new account;
    the first one's NewAccountFunc callback panics under the lock, the deferred release runs, the
    second one -- which was waiting -- takes the lock, registers with the CA and saves; at the end
    nothing is held and nothing recorded *)
Example C09_account_registration_nontrivial :
  let cs := [TCfg (PAcct true) 3 5 5 0 false false false false; TCfg (PAcct true) 3 5 5 0 false false false false] in
  let ls := sched [0; 0; 0; 1; 1; 0] ++ [Label 0 FPanic true] ++ sched (rep 1 0 ++ rep 8 1) in
  exists s es th0 th1, run (init_state cs no_sto) ls = Some (s, es) /\
    thread_at s 0 th0 /\ thread_at s 1 th1 /\ tpc th0 = PDone RPanic /\ tpc th1 = PDone ROk /\
    recd th0 = false /\ recd th1 = false /\ lks (sh s) 3 = None /\
    sto (sh s) (SK 5 KMeta) <> None /\ sto (sh s) (SK 5 KKey) <> None.
Proof.
  intros cs ls. destruct (run (init_state cs no_sto) ls) as [[s es]|] eqn:R; [|vm_compute in R; discriminate].
  exists s, es. vm_compute in R. inversion R; subst s es; clear R.
  do 2 eexists. split; [reflexivity|]. unfold thread_at; simpl. split; [reflexivity|]. split; [reflexivity|].
  repeat split; auto; discriminate.
Qed.

(** the Locker grants a free lock whatever the state of the caller's context (FileStorage consults
    the context only while it waits): the acquisition step does not look at [canc]; the request is
    recorded and inside the locked region afterwards *)
Theorem C09_lock_granted_regardless_of_context : forall t th s b,
  tpc th = PLockWait -> lks s (c_lk (cfg th)) = None ->
  exists th' s' e, tstep t th s FNone b = Some (th', s', e) /\
    locked (tpc th') = true /\ recd th' = true /\ lks s' (c_lk (cfg th)) = Some t /\ canc th' = canc th.
Proof. exact lock_granted_regardless_of_context. Qed.
Print Assumptions C09_lock_granted_regardless_of_context.

(** ... and from any such state (the lock invariants hold, the holder's context may have ended at
    the Lock gate): whatever fails afterwards, short of its own Unlock, when the request has
    returned it holds no lock and has no record -- the clause the check evaluates for the fault
    kind "context cancelled at the Lock gate, lock granted anyway" *)
Theorem C09_cancelled_holder_releases : forall s0 t es s th,
  I_lock s0 -> J_thread t s0 ->
  runs (unlock_ok_for t) s0 es s -> thread_at s t th -> final_pc (tpc th) = true ->
  recd th = false /\ forall l, lks (sh s) l <> Some t.
Proof. exact cancelled_holder_releases. Qed.
Print Assumptions C09_cancelled_holder_releases.

(** instances on separate storages that use one lock name have different lock identities: a step
    changes no entry of the lock table but the mover's own *)
Theorem C09_step_touches_only_own_lock : forall s l s' e th,
  step s l = Some (s', e) -> thread_at s (l_tid l) th ->
  forall k, k <> c_lk (cfg th) -> lks (sh s') k = lks (sh s) k.
Proof. exact step_touches_only_own_lock. Qed.
Print Assumptions C09_step_touches_only_own_lock.

(** CleanUpOwnLocks (unlock every recorded key) leaves nothing held -- every reachable state, every
    fault plan, Unlock failures included *)
Theorem C09_cleanup_releases_everything : forall cs st s, reachable cs st s -> forall k, cleanup_lks s k = None.
Proof. exact cleanup_releases_everything. Qed.
Print Assumptions C09_cleanup_releases_everything.

(** soundness of the lock monitor S9 on the model: no Unlock made to fail and every request
    returned => the quantities the monitor compares with zero (held, recorded) are zero *)
Theorem C09_model_passes_lock_monitor : forall cs st es s,
  runs unlock_ok (init_state cs st) es s ->
  (forall t th, thread_at s t th -> final_pc (tpc th) = true) ->
  (forall k, lks (sh s) k = None) /\ (forall t th, thread_at s t th -> recd th = false).
Proof. exact model_passes_lock_monitor. Qed.
Print Assumptions C09_model_passes_lock_monitor.

(** an operation that is finished for good because its instance died: once the Locker's staleness
    rule has freed what it held, nobody hangs -- along every continuation without Unlock failures
    every state with an unfinished request has a fault-free step *)
Theorem C09_no_hang_after_crash : forall cs st es0 s t es s',
  runs unlock_ok (init_state cs st) es0 s -> runs unlock_ok (crash_stale s t) es s' ->
  (exists u th, thread_at s' u th /\ final_pc (tpc th) = false) ->
  exists l s'' e, l_fault l = FNone /\ step s' l = Some (s'', e).
Proof. exact no_hang_after_crash. Qed.
Print Assumptions C09_no_hang_after_crash.

(** tie to the source (translator T, re-read from the working tree on every run): the five
    functions that take storage locks -- obtainCert, renewCert, updateARI, CleanStorage,
    newACMEClientWithAccount, deleteAccountLocallyIfCurrent (added by C20's fix f0aaa6b, same
    shape) -- are the only callers of acquireLock / releaseLock, and in each the
    acquisition is followed, right after its error return, by the deferred release of the same
    storage and key (the model's [PLockWait] -> locked region -> [PUnlock] shape); releaseLock
    unlocks with context.WithoutCancel and drops the record exactly when Unlock succeeded;
    acquireLock records exactly when Lock succeeded ([recd]); the lock names *)
Theorem C09_source_shape_matches_model :
  c09_lock_site_count = 6 /\ c09_every_acquire_has_deferred_release = true /\
  c09_release_uses_context_without_cancel = true /\
  c09_record_deleted_iff_unlock_ok = true /\ c09_record_inserted_iff_lock_ok = true /\
  c09_clean_lock_name = [115; 116; 111; 114; 97; 103; 101; 95; 99; 108; 101; 97; 110]%N /\
  c09_ari_lock_prefix = [97; 114; 105; 95]%N /\
  c09_account_lock_prefix = [114; 101; 103; 105; 115; 116; 101; 114; 95; 97; 99; 109; 101; 95; 97; 99; 99; 111; 117; 110; 116]%N.
Proof. repeat split; reflexivity. Qed.
Print Assumptions C09_source_shape_matches_model.

