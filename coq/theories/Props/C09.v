From CM Require Import Issuance.Model.
Theorem placeholder_c09 : True. Proof. exact I. Qed.
Print Assumptions placeholder_c09.
