(** System - composition / refinement theorems that connect the per-property models
    (C01 .. C20) into statements about the system.  Only statements, each closed by
    [exact lemma] (or a 1-3 line instantiation), plus satisfiability [Example]s.
    Proofs: coq/theories/System/*.v.  Notes: notes/System.md.

    Print Assumptions.  Every [Module] below ends with [Definition <Module>_all := (thm1, thm2, ...)]
    - the tuple of ALL its theorems and examples - and [Print Assumptions <Module>_all]: "Closed under
    the global context" there means every theorem of the module is closed.  The headline theorems
    additionally have their own [Print Assumptions] right beneath them.  (One traversal per module
    instead of one per statement keeps this file's compile time at about a minute.)

    The models share identifiers ([state], [step], [run], [cert], [value] ...), therefore every
    part lives in its own [Module] and imports its models there.

    Parts:
      S1   file lock (C08)        ==> abstract Locker of the Issuance LTS (C01, C09); Issuance over the file lock
      S2   file system (C10)      ==> atomic storage map of Issuance / Bundle (/ Account); Clean uses the tree
      S34  cache invariant (C12)  ==> lookup (C03), cache views of C05 / C02; renewal decision (C04) inside C05 / C01
      S5   Bundle crash recovery (C06/C07) x file-lock recovery (C08) x lock discipline (C01/C09)
      S6   Issuance (C01) and Bundle (C06/C07): two models of obtain / renew / manage agree on their overlap
      S7   the handshake models: Lookup (C03) / Handshake (C02) / SingleFlight (C13) / Renewal (C04)
      S8   job manager (C19) ==> Maintain's jobs (C05); CleanStorage (C18) under Issuance's lock (C09); account registration (C20 / C09)
      S9   Maintain (C05) and Issuance (C01): renewal job / manage agree; atomicity of the locked region
      S10  OCSP staples: C14 x C18 (x C06); challenge material: C15 x C16
      S11  OCSP revocation (C14) ==> the Revoke / OcspPass events of Maintain (C05), Handshake (C02), Bundle
      S12  Maintain (C05) and Issuance (C01): obtain job, synchronous and asynchronous manage agree *)
From Coq Require NArith ZArith PArith String Ascii.

(* ================================================================================================ *)
(* scopes opened by the previous part do not reach this one *)
Close Scope N_scope. Close Scope Z_scope. Close Scope positive_scope. Close Scope string_scope. Close Scope char_scope.

(** ===== S1: the file lock (C08) ==> the abstract Locker of the Issuance LTS (C01, C09) =====
    Files: System/LockRefine.v, LockEvent.v, LockCompose.v, LockFaithful.v, LockTransfer.v, LockCrash.v, LockInst.v. *)
From Coq Require Import List ZArith Bool Arith Lia.
From CM Require Gen.Consts FileLock.Model FileLock.Proofs FileLock.Check FileLock.Refuted.
From CM Require System.LockRefine System.LockEvent System.LockCompose System.LockCrash System.LockFaithful System.LockInst System.LockTransfer.
From CM Require Issuance.Model Issuance.Proofs Issuance.Invariants Issuance.NoReissueTL Issuance.NoReissue
  Issuance.FreshTL Issuance.Fresh Issuance.ManageTL Issuance.ManageTakeover Issuance.AgreeTL Issuance.Agree.

Module S1.
Import ListNotations.
Import CM.Gen.Consts CM.FileLock.Refuted.
Import CM.System.LockRefine CM.System.LockEvent CM.System.LockCompose CM.System.LockCrash CM.System.LockFaithful CM.System.LockInst CM.System.LockTransfer.
Import CM.Issuance.Model CM.Issuance.Proofs CM.Issuance.Invariants CM.Issuance.NoReissueTL CM.Issuance.NoReissue
  CM.Issuance.FreshTL CM.Issuance.Fresh CM.Issuance.ManageTL CM.Issuance.ManageTakeover CM.Issuance.AgreeTL CM.Issuance.Agree.
Close Scope N_scope. Close Scope Z_scope.
Open Scope nat_scope.

(** * Part 1.  File lock (C08)  ==>  abstract Locker of the Issuance LTS (C01, C09)

    [Issuance.Model] keeps a lock table [lks : nat -> option nat]; its threads' steps act on it
    as the two-state Locker [lk_step]: acquire enabled iff free, release by the holder.
    [FileLock.Model] is the timed LTS of FileStorage.Lock / Unlock on one lock file.
    Refinement mapping: [holder s] = the contender in [CHolding]; visible events: the return
    of Lock ([LWriteMeta]) = acquire, [LUnlock] = release; everything else invisible.
    All statements are for the repository's configuration [cfg_repo d] (constants and code
    shape re-read from filestorage.go on every run) under H-live(d). *)

(** The Locker built into the Issuance LTS is [lk_step] at the thread's lock key: the only
    events that change the lock table are the successful acquisition and release. *)
Theorem S_issuance_lock_table_is_locker : forall t th s f b th' s' e,
  tstep t th s f b = Some (th', s', e) ->
  match e_op e, e_out e with
  | OAcq k, 0 => lk_step (lks s k) (LAcq t) = Some (lks s' k) /\ forall j, j <> k -> lks s' j = lks s j
  | OUnlock k, 0 => lk_step (lks s k) (LRel t) = Some (lks s' k) /\ forall j, j <> k -> lks s' j = lks s j
  | _, _ => forall j, lks s' j = lks s j
  end.
Proof. exact tstep_is_lk_step. Qed.

(** C08 ==> Locker, one lock file.  Every run from "no lock file" - any number of threads and
    processes, every interleaving of system-call-level steps, heartbeats, time (H-live), kills
    of processes that own nothing - projects to a run of the abstract Locker from "free",
    ending in the abstract state [holder s]. *)
Theorem S_filelock_refines_locker : forall d, H_live d -> forall ls s,
  LockRefine.runs (FLC.cfg_repo d) (FLP.live_ok (FLC.cfg_repo d)) FL.init ls s ->
  lk_run None (project ls) = Some (holder s).
Proof. exact repo_filelock_refines_locker. Qed.
Print Assumptions S_filelock_refines_locker.

(** ... any number of lock files (names) side by side, one clock, shared processes: the
    holders of the family are a lock table and every run is a run of that table. *)
Theorem S_filelocks_refine_lock_table : forall d, H_live d -> forall fls F,
  fruns (FLC.cfg_repo d) finit fls F ->
  tbl_run (fun _ => None) (fproject fls) (holders F) /\ FInv (FLC.cfg_repo d) F.
Proof. exact repo_filelocks_refine_lock_table. Qed.
Print Assumptions S_filelocks_refine_lock_table.

(** Composition.  The implementation = Issuance threads over the family of lock files,
    synchronised on the four Locker events (Lock called / returns nil / returns ctx.Err() /
    Unlock).  Every implementation run is an Issuance run, and the Issuance lock table equals
    the holders of the lock files at every moment. *)
Theorem S_impl_refines_issuance : forall d, H_live d -> forall cs st ls s F,
  iruns (FLC.cfg_repo d) (iinit cs st) ls (s, F) ->
  reachable cs st s /\ Coupled s F /\ FInv (FLC.cfg_repo d) F.
Proof. exact repo_impl_refines_issuance. Qed.
Print Assumptions S_impl_refines_issuance.

(** The product refuses nothing: (i) whenever the lock file lets thread t's Lock call return
    nil, the Issuance model's acquisition - with its guard "nobody holds" - is enabled (this
    is C08's mutual exclusion); (ii) a thread at its deferred release holds the lock file;
    (iii) a thread that reaches its Lock call is a fresh contender (one Lock call per
    request). *)
Theorem S_grant_never_refused : forall d, H_live d -> forall s F t th x b,
  Coupled s F -> FInv (FLC.cfg_repo d) F -> thread_at s t th -> tpc th = PLockWait ->
  FL.step (FLC.cfg_repo d) (F (c_lk (cfg th))) (FL.LWriteMeta t) = Some x ->
  exists s1, step s (Label t FNone b) = Some (s1, Ev t (OAcq (c_lk (cfg th))) 0) /\
             forall p, sync_of (Ev t (OAcq (c_lk (cfg th))) 0) p = Some (c_lk (cfg th), FL.LWriteMeta t).
Proof. exact repo_grant_never_refused. Qed.
Print Assumptions S_grant_never_refused.

Theorem S_release_never_refused : forall c cs st s F t th r b,
  reachable cs st s -> Coupled s F -> FInv c F -> thread_at s t th -> tpc th = PUnlock r ->
  exists s1 x, step s (Label t FNone b) = Some (s1, Ev t (OUnlock (c_lk (cfg th))) 0) /\
               FL.step c (F (c_lk (cfg th))) (FL.LUnlock t) = Some x.
Proof. exact release_never_refused. Qed.

Theorem S_start_never_refused : forall c cs st ls s F t th b p,
  iruns c (iinit cs st) ls (s, F) -> thread_at s t th -> tpc th = PLockCall -> canc th = false ->
  exists s1 x, step s (Label t FNone b) = Some (s1, Ev t (OLock (c_lk (cfg th))) 0) /\
               sync_of (Ev t (OLock (c_lk (cfg th))) 0) p = Some (c_lk (cfg th), FL.LStart t p) /\
               FL.step c (F (c_lk (cfg th))) (FL.LStart t p) = Some x.
Proof. exact start_never_refused. Qed.

(** ... and the other direction of "Lock is enabled iff nobody holds", as far as C08 proves it:
    when no lock file is in place the abstract lock is free, and a waiting request at the top of
    its loop acquires by two steps of the product, in no time (O_EXCL create; Lock returns nil
    together with the Issuance acquisition). *)
Theorem S_free_lock_acquired_at_once : forall d, H_live d -> forall cs st ls s F w th ec b p,
  iruns (FLC.cfg_repo d) (iinit cs st) ls (s, F) -> thread_at s w th -> tpc th = PLockWait ->
  FL.file (F (c_lk (cfg th))) = None -> FL.cs (F (c_lk (cfg th))) w = FL.CTry ec ->
  (FL.lastcreate (F (c_lk (cfg th))) < FL.now (F (c_lk (cfg th))))%Z ->
  lks (sh s) (c_lk (cfg th)) = None /\
  exists s' F', iruns (FLC.cfg_repo d) (s, F) [IEnv (FOne (c_lk (cfg th)) (FL.LTryCreate w)); IThr (Label w FNone b) p] (s', F') /\
    lks (sh s') (c_lk (cfg th)) = Some w /\
    exists i, FL.cs (F' (c_lk (cfg th))) w = FL.CHolding i /\ FL.file (F' (c_lk (cfg th))) = Some i.
Proof. intros d Hd. exact (free_lock_acquired_at_once (FLC.cfg_repo d) (repo_checks d) (repo_guard d) (repo_good d Hd)). Qed.

(** C01 o C08.  With FileStorage's lock underneath: requests for one identifier that agree
    on the lock key are never inside Issuer.Issue at the same time ... *)
Theorem S_issue_spans_disjoint_over_filelock : forall d, H_live d -> forall cs st ls s F t1 t2 th1 th2,
  agree_on_lock cs -> iruns (FLC.cfg_repo d) (iinit cs st) ls (s, F) ->
  thread_at s t1 th1 -> thread_at s t2 th2 ->
  in_span th1 = true -> in_span th2 = true -> c_idn (cfg th1) = c_idn (cfg th2) -> t1 = t2.
Proof. exact repo_impl_issue_spans_disjoint. Qed.
Print Assumptions S_issue_spans_disjoint_over_filelock.

(** ... a request in its locked region (re-check ... deferred release) is the thread holding
    the lock FILE of its lock key: the file is in place, it is that thread's inode, its
    heartbeat goroutine has been started; and conversely the holder of a lock file is the owner
    in the Issuance lock table and the only thread in a locked region of that key. *)
Theorem S_locked_region_holds_lock_file : forall d, H_live d -> forall cs st ls s F t th,
  iruns (FLC.cfg_repo d) (iinit cs st) ls (s, F) -> thread_at s t th -> locked (tpc th) = true ->
  exists i, FL.cs (F (c_lk (cfg th))) t = FL.CHolding i /\ FL.file (F (c_lk (cfg th))) = Some i /\
            FL.hb (F (c_lk (cfg th))) i <> FL.HNone.
Proof. exact repo_locked_region_holds_lock_file. Qed.

Theorem S_lock_file_holder_is_owner : forall d, H_live d -> forall cs st ls s F k t i,
  iruns (FLC.cfg_repo d) (iinit cs st) ls (s, F) -> FL.cs (F k) t = FL.CHolding i ->
  lks (sh s) k = Some t /\
  forall t' th', thread_at s t' th' -> c_lk (cfg th') = k -> locked (tpc th') = true -> t' = t.
Proof. exact repo_lock_file_holder_is_owner. Qed.

(** C09 o C08.  Every operation releases the lock FILE it took: along every implementation
    run in which no Unlock call of request t itself is made to fail (anything else may fail,
    be cancelled or panic), once t has returned it holds no lock file of any name. *)
Theorem S_locks_released_over_filelock : forall d, H_live d -> forall cs st ls s F t th,
  iruns_ok (FLC.cfg_repo d) (unlock_ok_for t) (iinit cs st) ls (s, F) ->
  thread_at s t th -> final_pc (tpc th) = true ->
  recd th = false /\ forall k i, FL.cs (F k) t <> FL.CHolding i.
Proof. exact repo_impl_locks_released. Qed.
Print Assumptions S_locks_released_over_filelock.

(** Trace-level theorems of C01 carry over as well (any restriction [ok] on schedules / fault
    plans; the run of the Issuance threads inside an implementation run is an Issuance run
    with that restriction): F2 - storage holds a complete, not-due bundle: no request that
    touches the name enters the issuer; F3 - all successful ManageSync callers without a fault
    of their own end with the stored certificate, which is not due.  (These hold by the
    construction of the product; that the product loses no behaviour of the real system is
    the content of the three never-refused theorems above.  C01's liveness clauses are NOT
    carried over: a waiting request also needs the lock file's polling steps and time.) *)
Theorem S_no_issue_on_fresh_storage_over_filelock : forall c cs st n L ce ls s F,
  canon0 n L cs ->
  st (SK n KKey) <> None -> st (SK n KCrt) = Some (VCrt ce) -> st (SK n KMeta) <> None -> c_due ce = false ->
  iruns_ok c (truthful n) (iinit cs st) ls (s, F) ->
  exists es, runs (truthful n) (init_state cs st) es s /\
    sto (sh s) (SK n KCrt) = Some (VCrt ce) /\
    Forall (fun e => forall i, e_op e = OIssS i -> forall c0, nth_error cs (e_tid e) = Some c0 -> ~ touches n c0) es.
Proof. exact impl_no_issue_on_fresh_storage. Qed.

Theorem S_callers_agree_not_due_over_filelock : forall c cs st n L ls s F,
  canon0 n L cs -> (forall c0, In c0 cs -> touches n c0 -> c_issdue c0 = false) -> stored_match st n ->
  iruns_ok c (ok3m n) (iinit cs st) ls (s, F) ->
  forall t th, thread_at s t th -> touches n (cfg th) -> c_prog (cfg th) = PManage ->
    tpc th = PDone ROk -> flt th = false ->
    exists ce, seen th = Some ce /\ c_due ce = false /\ sto (sh s) (SK n KCrt) = Some (VCrt ce).
Proof. exact impl_callers_agree_not_due. Qed.

(** Crashes of HOLDERS.  The Locker with Crash / Stale (DESIGN A.3: a crashed holder's lock is
    freed by the Stale step) is refined along every run - SIGKILL of anybody at any step, no
    timing hypothesis - whose stale-removals satisfy [remove_ok]: no os.Remove of a file judged
    stale while a live thread owns the lock file that is in place.  In particular at most one
    live thread holds the lock, and for the two-state Locker of the Issuance model a holder's
    crash is a release. *)
Theorem S_crash_refines_locker : forall d, H_live d -> forall ls es s,
  cruns (FLC.cfg_repo d) FL.init ls es s -> lk3_run KFree es = Some (abs3 s).
Proof. exact repo_crash_refines_locker. Qed.
Print Assumptions S_crash_refines_locker.

Theorem S_mutex_with_crashes : forall d, H_live d -> forall ls es s t1 t2 i1 i2,
  cruns (FLC.cfg_repo d) FL.init ls es s ->
  FL.cs s t1 = FL.CHolding i1 -> FL.cs s t2 = FL.CHolding i2 -> t1 = t2.
Proof. exact repo_mutex_with_crashes. Qed.

Theorem S_crash_is_release_for_issuance : forall d, H_live d -> forall s l s',
  XInv (FLC.cfg_repo d) s -> remove_ok s l -> FL.step (FLC.cfg_repo d) s l = Some s' ->
  match vis3 s l with
  | Some (EAcq t) => lk_step (collapse (abs3 s)) (LAcq t) = Some (collapse (abs3 s'))
  | Some (ERel t) | Some (ECrash t) => lk_step (collapse (abs3 s)) (LRel t) = Some (collapse (abs3 s'))
  | Some EStale | None => collapse (abs3 s') = collapse (abs3 s)
  end.
Proof. exact repo_crash_is_release_for_issuance. Qed.

(** R.  Without [remove_ok] the refinement is FALSE (code with all fixes, heartbeats on time):
    the documented race - two waiters judge a dead holder's file stale, the second one's
    os.Remove deletes the first one's live lock file - violates [remove_ok] and then performs
    an acquisition while the abstract Locker (either version) says "held": the Locker that the
    Issuance level assumes is not what FileStorage implements after a holder's death. *)
Theorem S_crash_refinement_refuted_stale_race :
  (exists s, FL.run cfg_resets FL.init race_before_remove = Some s /\ ~ remove_ok s (FL.LRemove 2)) /\
  (exists s s', FL.run cfg_resets FL.init race_before_grant = Some s /\
     FL.step cfg_resets s (FL.LWriteMeta 2) = Some s' /\
     abs3 s = KHeld 1 /\ vis3 s (FL.LWriteMeta 2) = Some (EAcq 2) /\
     lk3_step (abs3 s) (EAcq 2) = None /\
     lk_step (collapse (abs3 s)) (LAcq 2) = None /\
     (exists i1 i2, FL.cs s' 1 = FL.CHolding i1 /\ FL.cs s' 2 = FL.CHolding i2 /\ i1 <> i2)).
Proof. exact crash_refinement_refuted_stale_race. Qed.
Print Assumptions S_crash_refinement_refuted_stale_race.

(** non-vacuity: H-live is satisfiable; an implementation run with one request inside the
    issuer holding the lock file and a second request of another process polling it; the
    hypotheses of [S_grant_never_refused]; a run with a holder's crash, a stale removal and a
    new acquisition *)
Example S_H_live_satisfiable : H_live d2.
Proof. exact H_live_d2. Qed.

Example S_impl_run_nontrivial :
  agree_on_lock demo_cs /\
  exists s F, iruns (FLC.cfg_repo d2) (iinit demo_cs demo_st) demo_labels (s, F) /\
    (exists th0, thread_at s 0 th0 /\ in_span th0 = true) /\
    (exists th1, thread_at s 1 th1 /\ tpc th1 = PLockWait) /\
    lks (sh s) 7 = Some 0 /\
    FL.cs (F 7) 0 = FL.CHolding 0 /\ FL.file (F 7) = Some 0 /\
    (exists ec u, FL.cs (F 7) 1 = FL.CSleep ec u).
Proof. exact impl_run_nontrivial. Qed.

Example S_grant_hypotheses_met :
  exists s F th x, iruns (FLC.cfg_repo d2) (iinit demo_cs demo_st) (firstn 3 demo_labels) (s, F) /\
    thread_at s 0 th /\ tpc th = PLockWait /\
    FL.step (FLC.cfg_repo d2) (F (c_lk (cfg th))) (FL.LWriteMeta 0) = Some x.
Proof. exact grant_hypotheses_met. Qed.

Example S_crash_run_nontrivial :
  exists s, cruns cfg_resets FL.init recovery_run [EAcq 0; ECrash 0; EStale; EAcq 1] s /\
            abs3 s = KHeld 1 /\ FL.cs s 0 = FL.CDead /\
            lk3_run KFree [EAcq 0; ECrash 0; EStale; EAcq 1] = Some (KHeld 1).
Proof. exact crash_run_nontrivial. Qed.
(** all theorems and examples of this module *)
Definition S1_all := (S_issuance_lock_table_is_locker, S_filelock_refines_locker, S_filelocks_refine_lock_table, S_impl_refines_issuance, S_grant_never_refused, S_release_never_refused, S_start_never_refused, S_free_lock_acquired_at_once, S_issue_spans_disjoint_over_filelock, S_locked_region_holds_lock_file, S_lock_file_holder_is_owner, S_locks_released_over_filelock, S_no_issue_on_fresh_storage_over_filelock, S_callers_agree_not_due_over_filelock, S_crash_refines_locker, S_mutex_with_crashes, S_crash_is_release_for_issuance, S_crash_refinement_refuted_stale_race, S_H_live_satisfiable, S_impl_run_nontrivial, S_grant_hypotheses_met, S_crash_run_nontrivial).
Print Assumptions S1_all.
End S1.

(* ================================================================================================ *)
(* scopes opened by the previous part do not reach this one *)
Close Scope N_scope. Close Scope Z_scope. Close Scope positive_scope. Close Scope string_scope. Close Scope char_scope.

(** ===== S2: FileSys (C10) ==> the abstract atomic Storage map of Issuance / Bundle / Account =====
    Files: System/StorageRefine.v (sequential), System/StorageLin.v (concurrent).
    The fragment is wrapped in a module so that its imports (FileSys.Model and Issuance.Model both
    define [value], [op], [ROk], [step], [run] ...) do not leak into the rest of Props/System.v. *)
From CM Require Import Lib.Str.
From CM Require FileSys.Model FileSys.Proofs FileSys.Lts FileSys.LtsProofs System.StorageRefine System.StorageLin.
From CM Require Issuance.Model Issuance.Base Bundle.Model Safe.Model Safe.KeysProofs Gen.Consts Clean.Model.

Module S2.
Import CM.FileSys.Model CM.FileSys.Proofs CM.System.StorageRefine.

(** ---------- (A) sequential refinement ---------- *)

(** FileSys.Model ==> atomic map.  For every sequence of Store / Load / Delete / Exists whose keys come
    from a key set [K] in which no key is a component-wise prefix of another ([prefix_free]), run on
    a tree [fs] that is closed and [compat]ible with [K] (no regular file strictly above a key of [K],
    no directory at a key of [K]; anything else may be there) and that agrees with the map [m] on [K]
    through [abs fs k = Some v <-> resolve fs k = inr (EFile v)]: FileStorage's results ARE the atomic
    map's results (Store/Delete ok, Load = the last stored value or not-exist, Exists = a value is
    stored), and the final tree again represents the final map. *)
Theorem S_fs_refines_amap : forall K : path -> Prop, prefix_free K ->
  forall (ops : list (aop path value)) (fs : fsys) (m : amap path value),
  Rep K fs m -> Forall (op_in K) ops ->
  snd (fs_run fs (map fop ops)) = map fobs (snd (arun path_eqb m ops)) /\
  Rep K (fst (fs_run fs (map fop ops))) (fst (arun path_eqb m ops)).
Proof. exact fs_refines_amap. Qed.
Print Assumptions S_fs_refines_amap.

(** the same from the empty tree; [nonroot]: the empty key is not in [K] *)
Theorem S_fs_refines_amap_empty : forall K : path -> Prop, prefix_free K -> nonroot K ->
  forall ops, Forall (op_in K) ops ->
  snd (fs_run [] (map fop ops)) = map fobs (snd (arun path_eqb (fun _ => None) ops)) /\
  forall k, K k -> abs (fst (fs_run [] (map fop ops))) k = fst (arun path_eqb (fun _ => None) ops) k.
Proof. exact fs_refines_amap_empty. Qed.

(** the two side conditions are exactly what is needed: FileStorage answers every sequence over [K]
    like the flat map IF AND ONLY IF [K] is prefix-free and does not contain the root *)
Theorem S_refines_iff_side_conditions : forall K : path -> Prop,
  (nonroot K /\ prefix_free K) <->
  (forall ops, Forall (op_in K) ops ->
     snd (fs_run [] (map fop ops)) = map fobs (snd (arun path_eqb (fun _ => None) ops))).
Proof. exact refines_iff_side_conditions. Qed.
Print Assumptions S_refines_iff_side_conditions.

(** List / Stat in the map's vocabulary: among the keys of [K] a recursive List of any prefix returns
    exactly the stored keys strictly below it; Stat of a key of [K] is a terminal key with the size of
    the stored value, or not-exist *)
Theorem S_list_refines : forall K fs m p k, Rep K fs m -> K k ->
  (In k (okeys (fs_list fs p true)) <-> alisted proper_prefix m p k).
Proof. exact list_refines. Qed.
Theorem S_stat_refines : forall K fs m k, Rep K fs m -> K k ->
  fs_stat fs k = match m k with
                 | Some v => Obs ROk [] true [] (N.of_nat (length v))
                 | None => obs_cls RNotExist
                 end.
Proof. exact stat_refines. Qed.

(** the refinement for ANY model with its own key / value types: an injective key embedding whose
    image is prefix-free, any value encoding; [ERep fs m]: [fs] closed, compatible with the image,
    and [abs fs (emb k) = option_map enc (m k)] for every abstract key *)
Theorem S_fs_refines_embedded : forall (Ky Vl : Type) (keqb : Ky -> Ky -> bool),
  (forall a b, keqb a b = true <-> a = b) ->
  forall (emb : Ky -> path) (enc : Vl -> value), (forall a b, emb a = emb b -> a = b) ->
  prefix_free (image emb) ->
  forall (ops : list (aop Ky Vl)) (fs : fsys) (m : amap Ky Vl), ERep emb enc fs m ->
  snd (fs_run fs (map fop (map (eop emb enc) ops))) = map fobs (map (eres enc) (snd (arun keqb m ops))) /\
  ERep emb enc (fst (fs_run fs (map fop (map (eop emb enc) ops)))) (fst (arun keqb m ops)).
Proof. exact @fs_refines_embedded. Qed.

(** what is NOT refined (each on the keys "a", "a/b", "a/b/c"; left: FileStorage, right: flat map) *)
(** (i) a key below a file key: Store fails, Exists false, Load not-exist (ENOTDIR) *)
Theorem S_key_below_file_refuted :
  exists ops, fs_obs ops = [obs_cls ROk; obs_cls ROther; Obs ROk [] false [] 0; obs_cls RNotExist] /\
              am_obs ops = [obs_cls ROk; obs_cls ROk; Obs ROk [] true [] 0; Obs ROk [7] false [] 0].
Proof. exact key_below_file_refuted. Qed.
(** (ii) Store onto a directory key fails (rename onto a directory), Load of it errs (EISDIR) *)
Theorem S_store_onto_directory_refuted :
  exists ops, fs_obs ops = [obs_cls ROk; obs_cls ROther; obs_cls ROther] /\
              am_obs ops = [obs_cls ROk; obs_cls ROk; Obs ROk [5] false [] 0].
Proof. exact store_onto_directory_refuted. Qed.
(** (iii) Delete of a prefix removes the keys below it *)
Theorem S_delete_prefix_refuted :
  exists ops, fs_obs ops = [obs_cls ROk; obs_cls ROk; obs_cls RNotExist] /\
              am_obs ops = [obs_cls ROk; obs_cls ROk; Obs ROk [7] false [] 0].
Proof. exact delete_prefix_refuted. Qed.
(** (iv) Exists of a directory key is true, Stat succeeds (non-terminal), nothing is stored there *)
Theorem S_exists_directory_refuted :
  exists ops, fs_obs ops = [obs_cls ROk; Obs ROk [] true [] 0] /\
              am_obs ops = [obs_cls ROk; Obs ROk [] false [] 0] /\
              fs_stat (fst (fs_run [] (map fop ops))) k_a = Obs ROk [] false [] 0.
Proof. exact exists_directory_refuted. Qed.
(** (v) List returns directories (keys without a value), and keeps returning a directory after the
    last key below it was deleted *)
Theorem S_list_shows_directories_refuted :
  exists fs, fs = fst (fs_run [] [OpStore k_abc [7]]) /\
    okeys (fs_list fs k_a false) = [k_ab] /\ abs fs k_ab = None /\
    okeys (fs_list fs k_a true) = [k_ab; k_abc] /\
    okeys (fs_list (fst (fs_delete fs k_abc)) k_a true) = [k_ab] /\
    abs (fst (fs_delete fs k_abc)) k_ab = None /\ abs (fst (fs_delete fs k_abc)) k_abc = None.
Proof. exact list_shows_directories_refuted. Qed.

(** the hypotheses of the refinement are satisfiable: a key set shaped like certmagic's and a run *)
Example S_K_ex_side_conditions : prefix_free K_ex /\ nonroot K_ex.
Proof. exact K_ex_side_conditions. Qed.
Example S_fs_refines_amap_ex :
  let ops := [AStore [[1]; [2]; [3]] [9]; AExists [[1]; [2]; [4]]; AStore [[5]] [8];
              ALoad [[1]; [2]; [3]]; ADelete [[1]; [2]; [3]]; ALoad [[1]; [2]; [3]]] in
  Forall (op_in K_ex) ops /\
  fs_obs ops = [obs_cls ROk; Obs ROk [] false [] 0; obs_cls ROk; Obs ROk [9] false [] 0; obs_cls ROk; obs_cls RNotExist] /\
  am_obs ops = fs_obs ops.
Proof. exact fs_refines_amap_ex. Qed.

(** certmagic's real key builders (Safe.Model, C11) produce a prefix-free key set: certificate assets
    certificates/<issuer>/<name>/<name><ext> and OCSP staples ocsp/<name>-<hash>, for issuers and
    names that sanitize to one real component; a general criterion: equal depth per first component *)
Theorem S_prefix_free_by_depth : forall (K : path -> Prop) (depth : option str -> nat),
  nonroot K -> (forall a, K a -> length a = depth (hd_error a)) -> prefix_free K.
Proof. exact prefix_free_by_depth. Qed.
Theorem S_certmagic_keys_prefix_free : forall (lower : N -> N) (is_space : N -> bool),
  (forall c, is_upper_ascii (lower c) = false) ->
  prefix_free (KeysCorr.K_cm lower is_space) /\ nonroot (KeysCorr.K_cm lower is_space).
Proof. exact KeysCorr.certmagic_keys_prefix_free. Qed.
Print Assumptions S_certmagic_keys_prefix_free.
(** ... and the condition on the issuer is needed: an issuer key that sanitizes to nothing makes
    certificates/x/x.crt a proper prefix of certificates/x/x.crt/x.crt.key *)
Theorem S_certs_keys_empty_issuer_refuted :
  exists i1 d1 i2 d2,
    proper_prefix (Safe.Model.kc (Safe.Model.site_cert ascii_lower ascii_space i1 d1))
                  (Safe.Model.kc (Safe.Model.site_key ascii_lower ascii_space i2 d2)) = true.
Proof. exact KeysCorr.certs_keys_empty_issuer_refuted. Qed.
Example S_K_cm_inhabited :
  KeysCorr.K_cm ascii_lower ascii_space (Safe.Model.kc (Safe.Model.site_cert ascii_lower ascii_space [120] [121])) /\
  Safe.Model.kc (Safe.Model.site_cert ascii_lower ascii_space [120] [121]) =
    [Gen.Consts.prefix_certs; [120]; [121]; [121; 46; 99; 114; 116]].
Proof. exact KeysCorr.K_cm_inhabited. Qed.

(** ---------- Issuance (C01..) and Bundle (C06/C07) use exactly the atomic map ---------- *)

(** Issuance.Model ==> atomic map.  [sput] is [aput]; every thread step (every pc, fault, choice bit)
    leaves [sto] alone or performs exactly the abstract operation its event names: a storage event
    with outcome 0/1 is that operation with that result, every other event (outcome 2 = injected
    error or cancelled context, 3 = panic, non-storage operations) has no effect on the storage *)
Theorem S_issuance_sput_is_aput : Issuance.Model.sput = aput Issuance.Model.skey_eqb.
Proof. exact IssCorr.sput_is_aput. Qed.
Theorem S_issuance_step_is_astep : forall t th s f b th' s' e,
  Issuance.Model.tstep t th s f b = Some (th', s', e) ->
  (IssCorr.sto_ev e = false /\ Issuance.Model.sto s' = Issuance.Model.sto s) \/
  (IssCorr.sto_ev e = true /\
   exists o, fst (astep Issuance.Model.skey_eqb (Issuance.Model.sto s) o) = Issuance.Model.sto s' /\
             IssCorr.ev_agrees e o (snd (astep Issuance.Model.skey_eqb (Issuance.Model.sto s) o))).
Proof. exact IssCorr.tstep_is_astep. Qed.

(** Issuance.Model + FileSys.Model.  Every run of the Issuance LTS (any threads, schedules, faults)
    started on a storage that the tree [fs] represents (through an injective, prefix-free key embedding
    and any value encoding) is reproduced by FileStorage: one FileStorage call per storage event of the
    run, on the embedded key of that event, whose result in FileSys.Model is the outcome Issuance
    logged (0 = ok/true, 1 = not-exist/false); the final tree represents the final storage. *)
Theorem S_issuance_on_filestorage :
  forall (emb : Issuance.Model.skey -> path) (enc : Issuance.Model.value -> value),
  (forall a b, emb a = emb b -> a = b) -> prefix_free (image emb) ->
  forall ok s es s' fs,
  Issuance.Base.runs ok s es s' -> ERep emb enc fs (Issuance.Model.sto (Issuance.Model.sh s)) ->
  exists fops,
    Forall2 (fun e x => IssCorr.ev_fs_agrees emb e (fst x) (snd x)) (filter IssCorr.sto_ev es)
            (combine fops (snd (fs_run fs fops))) /\
    ERep emb enc (fst (fs_run fs fops)) (Issuance.Model.sto (Issuance.Model.sh s')).
Proof. exact IssCorr.issuance_on_filestorage. Qed.
Print Assumptions S_issuance_on_filestorage.
Example S_issuance_on_filestorage_ex :
  (forall a b, IssCorr.emb_ex a = IssCorr.emb_ex b -> a = b) /\ prefix_free (image IssCorr.emb_ex) /\
  exists s es, Issuance.Base.runs Issuance.Base.any_label
                 (Issuance.Model.init_state [IssCorr.ex_cfg] (fun _ => None)) es s /\
    length (filter IssCorr.sto_ev es) = 8%nat /\
    Issuance.Model.sto (Issuance.Model.sh s) (Issuance.Model.SK 0 Issuance.Model.KCrt) <> None /\
    ERep IssCorr.emb_ex (fun _ => []) []
         (Issuance.Model.sto (Issuance.Model.sh (Issuance.Model.init_state [IssCorr.ex_cfg] (fun _ => None)))).
Proof.
  split; [apply IssCorr.emb_ex_ok|]. split; [apply IssCorr.emb_ex_ok|]. exact IssCorr.issuance_on_filestorage_ex.
Qed.

(** Bundle.Model ==> atomic map.  The storage prims of the fault monad: when the plan does not fail the
    call it performs the abstract step (and if the plan kills the process at this index the result is
    [Dead] with the effect in place); when the plan fails it, the storage is unchanged *)
Theorem S_bundle_store_is_astep : forall pl k v w, Bundle.Model.p_fail pl (Bundle.Model.w_cnt w) = false ->
  (forall k', Bundle.Model.sget (Bundle.Model.w_st (snd (Bundle.Model.store pl k v w))) k' =
              fst (astep Bundle.Model.fkey_eqb (Bundle.Model.sget (Bundle.Model.w_st w)) (AStore k v)) k') /\
  fst (Bundle.Model.store pl k v w) =
    if Bundle.Model.crash_at pl (Bundle.Model.w_cnt w) then Bundle.Model.Dead else Bundle.Model.Ok tt.
Proof. exact BundleCorr.store_is_astep. Qed.
Theorem S_bundle_load_is_astep : forall pl k w, Bundle.Model.p_fail pl (Bundle.Model.w_cnt w) = false ->
  Bundle.Model.w_st (snd (Bundle.Model.load pl k w)) = Bundle.Model.w_st w /\
  fst (Bundle.Model.load pl k w) =
    if Bundle.Model.crash_at pl (Bundle.Model.w_cnt w) then Bundle.Model.Dead else
    match snd (astep Bundle.Model.fkey_eqb (Bundle.Model.sget (Bundle.Model.w_st w)) (ALoad k)) with
    | AVal v => Bundle.Model.Ok v
    | _ => Bundle.Model.Fail Bundle.Model.ENotExist
    end.
Proof. exact BundleCorr.load_is_astep. Qed.
Theorem S_bundle_delete_is_astep : forall pl k w, Bundle.Model.p_fail pl (Bundle.Model.w_cnt w) = false ->
  (forall k', Bundle.Model.sget (Bundle.Model.w_st (snd (Bundle.Model.delete pl k w))) k' =
              fst (astep Bundle.Model.fkey_eqb (Bundle.Model.sget (Bundle.Model.w_st w)) (ADelete k)) k') /\
  fst (Bundle.Model.delete pl k w) =
    if Bundle.Model.crash_at pl (Bundle.Model.w_cnt w) then Bundle.Model.Dead else Bundle.Model.Ok tt.
Proof. exact BundleCorr.delete_is_astep. Qed.
Theorem S_bundle_exists_is_astep : forall pl k w, Bundle.Model.p_fail pl (Bundle.Model.w_cnt w) = false ->
  Bundle.Model.w_st (snd (Bundle.Model.exists_ pl k w)) = Bundle.Model.w_st w /\
  fst (Bundle.Model.exists_ pl k w) =
    if Bundle.Model.crash_at pl (Bundle.Model.w_cnt w) then Bundle.Model.Dead else
    match snd (astep Bundle.Model.fkey_eqb (Bundle.Model.sget (Bundle.Model.w_st w)) (AExists k)) with
    | ABool b => Bundle.Model.Ok b
    | _ => Bundle.Model.Ok false
    end.
Proof. exact BundleCorr.exists_is_astep. Qed.
Theorem S_bundle_failed_prim_no_effect : forall pl k v w, Bundle.Model.p_fail pl (Bundle.Model.w_cnt w) = true ->
  Bundle.Model.w_st (snd (Bundle.Model.store pl k v w)) = Bundle.Model.w_st w /\
  Bundle.Model.w_st (snd (Bundle.Model.delete pl k w)) = Bundle.Model.w_st w /\
  Bundle.Model.w_st (snd (Bundle.Model.load pl k w)) = Bundle.Model.w_st w /\
  Bundle.Model.w_st (snd (Bundle.Model.exists_ pl k w)) = Bundle.Model.w_st w.
Proof. exact BundleCorr.failed_prim_no_effect. Qed.
(** Delete of a site directory is modelled as the four flat Deletes of the files Bundle knows there *)
Theorem S_bundle_delete_dir_is_aruns : forall st i d k',
  Bundle.Model.sget (Bundle.Model.sdel_dir st i d) k' =
  fst (arun Bundle.Model.fkey_eqb (Bundle.Model.sget st)
         [ADelete (i, d, Bundle.Model.FKey); ADelete (i, d, Bundle.Model.FCrt);
          ADelete (i, d, Bundle.Model.FMeta); ADelete (i, d, Bundle.Model.FComp)]) k'.
Proof. exact BundleCorr.delete_dir_is_aruns. Qed.

(** Clean.Model (C18) does NOT use the flat map: its store is the key tree FileStorage has (Delete of a
    prefix removes what is below, List shows implied directories, Stat of a directory key succeeds,
    Load of a directory errs, Store onto a directory fails): cases (ii)-(v) above are assumptions of
    CleanStorage's model, consistent with FileSys.Model *)
Theorem S_clean_storage_is_tree_semantics :
  let st0 := [(CleanCorr.c_ab, CleanCorr.f0)] in
  Clean.Model.lookup (Clean.Model.remove CleanCorr.c_a st0) CleanCorr.c_ab = None /\
  Clean.Model.list_pure true st0 CleanCorr.c_a = Some [CleanCorr.c_ab] /\
  Clean.Model.stat_pure st0 CleanCorr.c_a = Clean.Model.StatDir /\
  exists e : Clean.Model.env,
    fst (Clean.Model.do_load e CleanCorr.c_a (CleanCorr.st_of st0)) = Clean.Model.LErr /\
    fst (Clean.Model.do_store e CleanCorr.c_a CleanCorr.f0 (CleanCorr.st_of st0)) = false.
Proof. exact CleanCorr.clean_storage_is_tree_semantics. Qed.

(** ---------- (B) concurrent refinement: FileSys.Lts ==> atomic map ---------- *)
Import CM.FileSys.Lts CM.FileSys.LtsProofs CM.System.StorageLin.
Local Open Scope nat_scope.

(** FileSys.Lts ==> atomic map.  In every reachable state (any number of threads, any schedule, kills
    anywhere) what the destination names hold is the atomic map obtained by running the abstract
    history [lin (log s)] (rename(2) = AStore of the whole value, unlink(2) = ADelete, in the order of
    those instants) from the initial contents *)
Theorem S_lts_state_is_amap : forall s0 s, reachable s0 s ->
  forall k, named_value s k = amap_of (named_value s0) (log s) k.
Proof. exact lts_state_is_amap. Qed.

(** forward simulation: every system call of every thread is a stutter or exactly ONE abstract step
    (one AStore of the whole value at the rename, one ADelete at the unlink); in particular a SIGKILL
    at any instant changes nothing *)
Theorem S_lts_step_refines_amap : forall s0 s l s', reachable s0 s -> step s l = Some s' ->
  (length (label_aop s l) <= 1) /\
  forall k, named_value s' k = fst (arun Nat.eqb (named_value s) (label_aop s l)) k.
Proof. exact lts_step_refines_amap. Qed.
Print Assumptions S_lts_step_refines_amap.
Theorem S_kill_is_stutter : forall s0 s t s', reachable s0 s -> step s (LKill t) = Some s' ->
  forall k, named_value s' k = named_value s k.
Proof. exact kill_is_stutter. Qed.

(** every completed Load returned the abstract Load on the map of the history up to its open(2) *)
Theorem S_load_is_atomic : forall s0 s post t k r pre, reachable s0 s ->
  log s = post ++ EvRet t k r :: pre ->
  exists mid before, pre = mid ++ EvOpen t k :: before /\
    snd (astep Nat.eqb (amap_of (named_value s0) before) (ALoad k)) = load_res r.
Proof. exact load_is_atomic. Qed.
Print Assumptions S_load_is_atomic.

(** the history contains only whole values of Stores that were called *)
Theorem S_history_is_whole_calls : forall s0 s k v, reachable s0 s -> In (AStore k v) (lin (log s)) ->
  exists t, In (EvStore t k v) (log s) /\ In (EvRename t k v) (log s).
Proof. exact history_is_whole_calls. Qed.

(** outcome of a Store call vs its effect: returned nil => exactly one effect, the whole value;
    returned an error or still running => none; killed => none, or one whole effect of its own call *)
Theorem S_store_outcome : forall s0 s t, reachable s0 s ->
  match thr s t with
  | WDone k v => renames_of t (log s) = [(k, v)] /\ In (AStore k v) (lin (log s))
  | WErr _ _ | WStart _ _ | WOpen _ _ _ _ _ | WSynced _ _ _ _ | WClosed _ _ _ _ => renames_of t (log s) = []
  | TDead => renames_of t (log s) = [] \/
             exists k v, renames_of t (log s) = [(k, v)] /\ In (EvStore t k v) (log s) /\
                         In (AStore k v) (lin (log s))
  | _ => True
  end.
Proof. exact store_outcome. Qed.
Print Assumptions S_store_outcome.

(** what a killed Store leaves behind: its temp name stays bound in every continuation *)
Theorem S_orphan_temp_forever : forall ls s s' n i, run s ls = Some s' ->
  dir s (NTemp n) = Some i -> (forall t, ~ owns (thr s t) n) -> dir s' (NTemp n) = Some i.
Proof. exact orphan_temp_forever. Qed.

(** "a process that died in a Store has stored the value" is false for FileStorage: killed between
    close(2) and rename(2) the OLD value stays, the history has no entry for the call, and the temp
    file is orphaned (hypotheses of S_orphan_temp_forever met) *)
Theorem S_dead_store_took_effect_refuted :
  exists s, reachable init_empty s /\ thr s 1 = TDead /\ In (EvStore 1 0 [2%N; 3%N]) (log s) /\
            named_value s 0 = Some [1%N] /\ lin (log s) = [AStore 0 [1%N]] /\
            renames_of 1 (log s) = [] /\
            exists i, dir s (NTemp 1) = Some i /\ (forall t, ~ owns (thr s t) 1).
Proof. exact dead_store_took_effect_refuted. Qed.
Print Assumptions S_dead_store_took_effect_refuted.
(** ... and killed after the rename the new value is there, whole *)
Example S_killed_store_took_effect :
  exists s, reachable init_empty s /\ thr s 1 = TDead /\
            named_value s 0 = Some [2%N; 3%N] /\ lin (log s) = [AStore 0 [1%N]; AStore 0 [2%N; 3%N]] /\
            renames_of 1 (log s) = [(0, [2%N; 3%N])].
Proof. exact killed_store_took_effect. Qed.

(** FINDING (Clean.Model x FileSys.Lts; reproduced on the Go code).  List does not hide atomicfile's
    temp files.  Clean side: the OCSP pass deletes any unparseable file directly below "ocsp", which
    the temp file of a Store in flight is.  Lts side: once its temp name is gone the writer cannot
    rename any more, the Store can only end with an error and no effect. *)
Example S_clean_deletes_temp_of_inflight_store :
  exists e : Clean.Model.env,
    Clean.Model.sto (Clean.Model.delete_old_staples e (fun _ => 0%Z)
                       (CleanCorr.st_of [(CleanTemp.temp_key, CleanTemp.half_written)])) = [].
Proof. exact CleanTemp.clean_deletes_temp_of_inflight_store. Qed.
Theorem S_cleaner_removes_temp_store_fails : forall s t k v tmp i, thr s t = WClosed k v tmp i ->
  let s1 := foreign_unlink_temp s tmp in
  step s1 (LRename t) = None /\
  exists s2, step s1 (LFail t) = Some s2 /\ thr s2 t = WErr k v /\ lin (log s2) = lin (log s) /\
             forall k', named_value s2 k' = named_value s k'.
Proof. exact cleaner_removes_temp_store_fails. Qed.
(** all theorems and examples of this module *)
Definition S2_all := (S_fs_refines_amap, S_fs_refines_amap_empty, S_refines_iff_side_conditions, S_list_refines, S_stat_refines, S_fs_refines_embedded, S_key_below_file_refuted, S_store_onto_directory_refuted, S_delete_prefix_refuted, S_exists_directory_refuted, S_list_shows_directories_refuted, S_K_ex_side_conditions, S_fs_refines_amap_ex, S_prefix_free_by_depth, S_certmagic_keys_prefix_free, S_certs_keys_empty_issuer_refuted, S_K_cm_inhabited, S_issuance_sput_is_aput, S_issuance_step_is_astep, S_issuance_on_filestorage, S_issuance_on_filestorage_ex, S_bundle_store_is_astep, S_bundle_load_is_astep, S_bundle_delete_is_astep, S_bundle_exists_is_astep, S_bundle_failed_prim_no_effect, S_bundle_delete_dir_is_aruns, S_clean_storage_is_tree_semantics, S_lts_state_is_amap, S_lts_step_refines_amap, S_kill_is_stutter, S_load_is_atomic, S_history_is_whole_calls, S_store_outcome, S_orphan_temp_forever, S_dead_store_took_effect_refuted, S_killed_store_took_effect, S_clean_deletes_temp_of_inflight_store, S_cleaner_removes_temp_store_fails).
Print Assumptions S2_all.
End S2.

(* ================================================================================================ *)
(* scopes opened by the previous part do not reach this one *)
Close Scope N_scope. Close Scope Z_scope. Close Scope positive_scope. Close Scope string_scope. Close Scope char_scope.

(** Fragment s34 for coq/theories/Props/System.v.
    Candidates 3 (C12 cache ==> C03 lookup; the cache views of C05 and C02) and 4 (C04 renewal
    decision underneath C05 maintenance and C01 issuance).
    The models share identifiers ([cert], [cache], [run], [step], [state], ...), so every part
    imports its models inside a [Module]; the requires are at the top. *)
From Coq Require Import ZArith List Bool Lia Arith Permutation.
From CM Require Lib.Str Gen.Consts Cache.Model Cache.AMapFacts Cache.Proofs Cache.Sched
  Lookup.Model Lookup.Proofs Lookup.Check Lookup.SpecProofs
  Maintain.Model Maintain.Spec Maintain.Base Maintain.Inv Maintain.Proofs Handshake.Model
  Renewal.Model Renewal.Proofs Renewal.F64 Renewal.F64Proofs
  Issuance.Model Issuance.Proofs Issuance.Invariants Issuance.NoReissueTL Issuance.NoReissue
  Lookup.ProofsX System.CacheLookup System.CacheLookupX System.CacheMaintain System.CacheHandshake System.RenewMaintain System.RenewIssuance.

(** ====================================================================================
    Part 1.  C12 (Cache) ==> the precondition of C03 (Lookup)
    ==================================================================================== *)
Module S34_CacheLookup.
Import ListNotations.
Import CM.Lib.Str CM.Cache.Model CM.Cache.AMapFacts CM.Cache.Proofs CM.Cache.Sched
  CM.Lookup.Model CM.Lookup.Proofs CM.Lookup.ProofsX CM.Lookup.Check CM.Lookup.SpecProofs
  CM.System.CacheLookup CM.System.CacheLookupX.
Open Scope nat_scope.

(** Vocabulary (System.CacheLookup): C12's schedules run over [dstate] = the two maps with the
    capacity configured at that moment (Cache.SetOptions is a step).  [dstate_after cap0 pool sched]
    = the dstate after the scheduler ran [sched] on the threads [pool] from the empty cache with
    capacity [cap0]; [dstate_at .. k] after the first k decisions; [state_after] / [state_at] their
    maps.  [HandshakeGuarantees names_of cap s] = record of the conclusions of C03's theorems about
    one cache state (lookup_sound, answer_complete, exact_preferred, first_listed_wins,
    ip_preferred_without_sni, unexpired_supported_preferred, error_only_if_unlisted, exactness of
    getAllMatchingCerts); [DGuarantees names_of d] = the same at the capacity [d_cap d] on [d_st d].
    Neither Props/C03.v nor Props/C12.v has any of the statements of this part (C12_every_schedule
    gives [DInv] only; C03 is stated for an abstract [Inv] state and, for lookup_sound alone, for
    sequential fixed-capacity histories). *)

(** C12's invariant is all C03 needs.  Connects Cache.Proofs.Inv with Lookup.Proofs. *)
Theorem S_cache_invariant_gives_handshake_guarantees : forall names_of cap s,
  Inv names_of cap s -> HandshakeGuarantees names_of cap s.
Proof. exact guarantees_of_inv. Qed.

(** For EVERY pool of well-formed thread programs (the code paths of C12, SetOptions, scans, and
    any others) and EVERY schedule, the cache after the schedule gives every C03 guarantee, at
    the capacity then configured.  Connects Cache.Sched (C12_every_schedule) with Lookup. *)
Theorem S_handshake_guarantees_every_schedule : forall names_of cap0 pool sched,
  wf_pool names_of pool -> DGuarantees names_of (dstate_after cap0 pool sched).
Proof. exact guarantees_every_schedule. Qed.
Print Assumptions S_handshake_guarantees_every_schedule.

(** ... and at every instant of the schedule (after its first k decisions, for every k) *)
Theorem S_handshake_guarantees_every_instant : forall names_of cap0 pool sched k,
  wf_pool names_of pool -> DGuarantees names_of (dstate_at cap0 pool sched k).
Proof. exact guarantees_every_instant. Qed.

(** ... from any state an earlier history / schedule left behind *)
Theorem S_handshake_guarantees_schedule_from : forall names_of d pool sched,
  DInv names_of d -> wf_pool names_of pool ->
  DGuarantees names_of (fst (run_sched sched (d, pool))).
Proof. exact guarantees_schedule_from. Qed.

(** the same for sequential histories: fixed capacity (end and every point), and histories that
    also change the capacity / query / scan / stop *)
Theorem S_handshake_guarantees_every_history : forall names_of cap ops,
  Forall (wf_op names_of) ops -> HandshakeGuarantees names_of cap (run cap init ops).
Proof. exact guarantees_every_history. Qed.
Theorem S_handshake_guarantees_every_point_of_history : forall names_of cap ops,
  Forall (wf_op names_of) ops -> Forall (HandshakeGuarantees names_of cap) (trace cap init ops).
Proof. exact guarantees_every_point_of_history. Qed.
Theorem S_handshake_guarantees_every_dhistory : forall names_of cap0 ops,
  Forall (wf_dop names_of) ops -> DGuarantees names_of (drun (dinit cap0) ops).
Proof. exact guarantees_every_dhistory. Qed.

(** The record unpacked: one system-level theorem per C03 theorem, for every pool and schedule. *)
Theorem S_lookup_sound_every_schedule : forall lower is_space sup valid names_of cap0 pool sched cfg sni ip e c,
  wf_pool names_of pool ->
  let d := dstate_after cap0 pool sched in let s := d_st d in let cap := d_cap d in
  lookup lower is_space sup valid s cap cfg sni ip e = ROk c ->
  let n := normalize lower is_space sni in
  (alookup (c_hash c) (cache s) = Some c /\
   ((n <> [] /\ exists san, In san (c_names c) /\ covers san n) \/
    (n = [] /\ In ip (c_names c)) \/
    (n = [] /\ default_name cfg <> [] /\ In (normalize lower is_space (default_name cfg)) (c_names c)) \/
    (fallback_name cfg <> [] /\ In (normalize lower is_space (fallback_name cfg)) (c_names c)))) \/
  (almost_full cap (length (cache s)) = true /\ loaded e = Some c /\
   name_err e = false /\ qualifies e = true).
Proof. intros until c. intros Hwf d s cap. apply (hg_sound _ _ _ (guarantees_every_schedule names_of cap0 pool sched Hwf)). Qed.

Theorem S_answer_complete_every_schedule : forall (complete : cert -> Prop) lower is_space sup valid names_of cap0 pool sched cfg sni ip e c,
  wf_pool names_of pool ->
  let d := dstate_after cap0 pool sched in let s := d_st d in let cap := d_cap d in
  (forall h x, alookup h (cache s) = Some x -> complete x) ->
  (forall x, loaded e = Some x -> complete x) ->
  lookup lower is_space sup valid s cap cfg sni ip e = ROk c -> complete c.
Proof. intros until c. intros Hwf d s cap. apply (hg_complete _ _ _ (guarantees_every_schedule names_of cap0 pool sched Hwf)). Qed.

Theorem S_exact_preferred_every_schedule : forall lower is_space sup valid names_of cap0 pool sched cfg sni ip e,
  wf_pool names_of pool ->
  let d := dstate_after cap0 pool sched in let s := d_st d in let cap := d_cap d in
  let n := normalize lower is_space sni in
  n <> [] -> idx s n <> [] ->
  exists c, lookup lower is_space sup valid s cap cfg sni ip e = ROk c /\ In n (c_names c) /\
            In c (get_all_matching_certs s n).
Proof. intros until e. intros Hwf d s cap. apply (hg_exact _ _ _ (guarantees_every_schedule names_of cap0 pool sched Hwf)). Qed.

Theorem S_first_listed_wins_every_schedule : forall lower is_space sup valid names_of cap0 pool sched cfg sni ip e
    (pre : list name) (m : name) (post : list name),
  wf_pool names_of pool ->
  let d := dstate_after cap0 pool sched in let s := d_st d in let cap := d_cap d in
  let n := normalize lower is_space sni in
  n <> [] -> n :: wildcard_candidates n = pre ++ m :: post ->
  Forall (fun m' => idx s m' = []) pre -> idx s m <> [] ->
  exists c, lookup lower is_space sup valid s cap cfg sni ip e = ROk c /\
            In c (get_all_matching_certs s m) /\ In m (c_names c) /\
            ((exists c', In c' (get_all_matching_certs s m) /\ good sup valid c') -> good sup valid c).
Proof. intros until post. intros Hwf d s cap. apply (hg_first_listed _ _ _ (guarantees_every_schedule names_of cap0 pool sched Hwf)). Qed.

Theorem S_ip_preferred_without_sni_every_schedule : forall lower is_space sup valid names_of cap0 pool sched cfg sni ip e,
  wf_pool names_of pool ->
  let d := dstate_after cap0 pool sched in let s := d_st d in let cap := d_cap d in
  normalize lower is_space sni = [] -> idx s ip <> [] ->
  exists c, lookup lower is_space sup valid s cap cfg sni ip e = ROk c /\ In ip (c_names c) /\
            In c (get_all_matching_certs s ip) /\
            ((exists c', In c' (get_all_matching_certs s ip) /\ good sup valid c') -> good sup valid c).
Proof. intros until e. intros Hwf d s cap. apply (hg_ip _ _ _ (guarantees_every_schedule names_of cap0 pool sched Hwf)). Qed.

Theorem S_unexpired_supported_preferred_every_schedule : forall lower is_space sup valid names_of cap0 pool sched cfg sni ip c b v,
  wf_pool names_of pool ->
  let s := state_after cap0 pool sched in
  from_cache lower is_space sup valid s cfg sni ip = Some (c, b, v) ->
  In c (get_all_matching_certs s v) /\
  ((exists c', In c' (get_all_matching_certs s v) /\ good sup valid c') -> good sup valid c).
Proof. intros until v. intros Hwf s. apply (hg_unexpired _ _ _ (guarantees_every_schedule names_of cap0 pool sched Hwf)). Qed.

Theorem S_error_only_if_unlisted_every_schedule : forall lower is_space sup valid names_of cap0 pool sched cfg sni ip e,
  wf_pool names_of pool ->
  let d := dstate_after cap0 pool sched in let s := d_st d in let cap := d_cap d in
  lookup lower is_space sup valid s cap cfg sni ip e = RErr ->
  let n := normalize lower is_space sni in
  if is_nil n then idx s ip = []
  else Forall (fun m' => idx s m' = []) (n :: wildcard_candidates n).
Proof. intros until e. intros Hwf d s cap. apply (hg_error _ _ _ (guarantees_every_schedule names_of cap0 pool sched Hwf)). Qed.

(** the extended C03 theorems (Lookup.ProofsX: storage, the almost-full load, custom selection
    policies) on the cache any schedule produces *)
Theorem S_lookup_sound_x_every_schedule : forall names_of cap0 pool sched, wf_pool names_of pool ->
  forall lower is_space sup valid conn cfg sni ip e c s',
  let d := dstate_after cap0 pool sched in let s := d_st d in let cap := d_cap d in
  storage_wf (x_storage e) ->
  lookup_x lower is_space (select_cert sup valid) conn s cap cfg sni ip e = (ROk c, s') ->
  let n := normalize lower is_space sni in
  (alookup (c_hash c) (cache s) = Some c /\
   ((n <> [] /\ exists san, In san (c_names c) /\ covers san n) \/
    (n = [] /\ conn = true /\ In ip (c_names c)) \/
    (n = [] /\ default_name cfg <> [] /\ In (normalize lower is_space (default_name cfg)) (c_names c)) \/
    (fallback_name cfg <> [] /\ In (normalize lower is_space (fallback_name cfg)) (c_names c)))) \/
  (almost_full cap (length (cache s)) = true /\
   exists nm x, hello_name lower is_space cfg ip (x_idna e) = Some nm /\
                subject_qualifies is_space nm = true /\
                load_from_storage (x_storage e) (x_broken e) nm = Some x /\ sd_servable x = true /\ c = sd_cert x /\
                exists san, In san (c_names c) /\ covers san nm).
Proof. exact lookup_sound_x_after_schedule. Qed.

Theorem S_custom_selector_scope_every_schedule : forall names_of cap0 pool sched, wf_pool names_of pool ->
  forall lower is_space sup valid p conn cfg sni ip e c s',
  let d := dstate_after cap0 pool sched in let s := d_st d in let cap := d_cap d in
  lookup_x lower is_space (sel_policy sup valid p) conn s cap cfg sni ip e = (ROk c, s') ->
  (alookup (c_hash c) (cache s) = Some c /\
   exists pre v b post, tried lower is_space conn cfg sni ip = pre ++ (v, b) :: post /\
     Forall (fun q => sel_policy sup valid p s (fst q) = None) pre /\
     sel_policy sup valid p s v = Some c /\
     (p <> PDefault -> In c (choices_for s v))) \/
  (exists x, load_ok lower is_space cap s cfg ip e x /\ sd_servable x = true /\ c = sd_cert x).
Proof. exact custom_selector_scope_after_schedule. Qed.

(** the handshake is itself a writer (the almost-full load): run as one step on the cache a
    schedule produced it leaves C12's invariant -- and with it every guarantee -- intact *)
Theorem S_lookup_after_schedule_preserves_invariant : forall names_of cap0 pool sched, wf_pool names_of pool ->
  forall lower is_space sel conn cfg sni ip e,
  let d := dstate_after cap0 pool sched in let s := d_st d in let cap := d_cap d in
  (forall k x, alookup k (x_storage e) = Some x -> wf_cert names_of (sd_cert x)) ->
  let s' := snd (lookup_x lower is_space sel conn s cap cfg sni ip e) in
  Inv names_of cap s' /\ HandshakeGuarantees names_of cap s'.
Proof. exact lookup_after_schedule_preserves_invariant. Qed.

(** C03_spec_ok_of_model and C03_answer_among_all_matching: the run-time monitors of C03 accept
    the model's answer on the cache any schedule produces *)
Theorem S_spec_ok_of_model_every_schedule : forall lower is_space names_of cap0 pool sched c,
  wf_pool names_of pool ->
  l_state c = state_after cap0 pool sched -> l_cap c = d_cap (dstate_after cap0 pool sched) ->
  (forall h x, alookup h (cache (l_state c)) = Some x -> at_complete (attr_get (l_attrs c) h) = true) ->
  (forall h x, alookup h (cache (l_state c)) = Some x -> at_names (attr_get (l_attrs c) h) = c_names x) ->
  (forall k x, alookup k (x_storage (l_envx c)) = Some x ->
     alookup (c_hash (sd_cert x)) (l_stored_complete c) = Some true) ->
  spec_lookup_o lower is_space c (obs_of c (fst (run_lookup lower is_space c))) = true /\
  spec_amc_o lower is_space c (obs_of c (fst (run_lookup lower is_space c))) (amc_of lower is_space c) = true.
Proof. exact spec_ok_after_schedule. Qed.

(** the sequential-history forms Props/C03.v does not have (two shown unpacked; the others are
    the fields of [S_handshake_guarantees_every_history]) *)
Theorem S_first_listed_wins_every_history : forall lower is_space sup valid names_of cap ops cfg sni ip e
    (pre : list name) (m : name) (post : list name),
  Forall (wf_op names_of) ops ->
  let s := run cap init ops in
  let n := normalize lower is_space sni in
  n <> [] -> n :: wildcard_candidates n = pre ++ m :: post ->
  Forall (fun m' => idx s m' = []) pre -> idx s m <> [] ->
  exists c, lookup lower is_space sup valid s cap cfg sni ip e = ROk c /\
            In c (get_all_matching_certs s m) /\ In m (c_names c) /\
            ((exists c', In c' (get_all_matching_certs s m) /\ good sup valid c') -> good sup valid c).
Proof. intros until post. intros Hwf s. apply (hg_first_listed _ _ _ (guarantees_every_history names_of cap ops Hwf)). Qed.
Theorem S_error_only_if_unlisted_every_history : forall lower is_space sup valid names_of cap ops cfg sni ip e,
  Forall (wf_op names_of) ops ->
  let s := run cap init ops in
  lookup lower is_space sup valid s cap cfg sni ip e = RErr ->
  let n := normalize lower is_space sni in
  if is_nil n then idx s ip = []
  else Forall (fun m' => idx s m' = []) (n :: wildcard_candidates n).
Proof. intros until e. intros Hwf s. apply (hg_error _ _ _ (guarantees_every_history names_of cap ops Hwf)). Qed.

(** The handshake's lookup is itself not atomic: every selectCert is its own read-locked
    getAllMatchingCerts (handshake.go L121-163, cache.go L335).  (Upstream C12 now has the
    analogous program for Cache.AllMatchingCertificates, [prog_all_matching]; the handshake's
    getCertificateFromCache is not there, and C03 still reads one state.)  [prog_from_cache] is
    getCertificateFromCache as a thread program of C12's scheduler (one PReadName per
    selectCert); it is well formed, so C12's schedule theorems cover pools that contain
    handshakes ... *)
Theorem S_lookup_is_a_wellformed_thread : forall lower is_space sup valid names_of cfg sni ip (K : lk_answer -> prog),
  (forall r, wf_prog names_of (K r)) ->
  wf_prog names_of (prog_from_cache lower is_space sup valid cfg sni ip K).
Proof. exact prog_from_cache_wf. Qed.

(** ... what it hands to the rest of the handshake, when its j-th read sees the cache [dst j]
    (whatever other threads did in between), is [na_from_cache] of those states ... *)
Theorem S_lookup_thread_computes : forall lower is_space sup valid (dst : nat -> dstate) cfg sni ip (K : lk_answer -> prog),
  exists fuel, feed dst 0 fuel (prog_from_cache lower is_space sup valid cfg sni ip K) =
               K (na_from_cache lower is_space sup valid (fun j => d_st (dst j)) cfg sni ip).
Proof. exact prog_from_cache_computes. Qed.

(** ... which is C03's [from_cache] when nothing interleaves ... *)
Theorem S_nonatomic_lookup_is_C03_when_atomic : forall lower is_space sup valid s cfg sni ip,
  na_from_cache lower is_space sup valid (fun _ => s) cfg sni ip = from_cache lower is_space sup valid s cfg sni ip.
Proof. exact na_from_cache_atomic. Qed.

(** ... and is sound under every interleaving: with the reads at arbitrary instants [t j] of any
    schedule of any well-formed pool (the capacity may change in between), the answer was really
    in the cache, listed under the name [v] it was found under, at the instant of the read that
    found it ([found_at]); [v] covers the SNI / is the local IP / the default / the fallback name.
    Connects Cache.Sched with Lookup.Model. *)
Theorem S_nonatomic_lookup_sound_every_schedule : forall lower is_space sup valid names_of cap0 pool sched (t : nat -> nat) cfg sni ip c b v,
  wf_pool names_of pool ->
  na_from_cache lower is_space sup valid (fun j => state_at cap0 pool sched (t j)) cfg sni ip = Some (c, b, v) ->
  let n := normalize lower is_space sni in
  exists j, found_at sup valid (fun j => state_at cap0 pool sched (t j)) j c v /\
    ((b = true /\ n <> [] /\ covers v n) \/
     (b = true /\ n = [] /\ v = ip) \/
     (b = false /\ n = [] /\ default_name cfg <> [] /\ v = normalize lower is_space (default_name cfg)) \/
     (b = false /\ fallback_name cfg <> [] /\ v = normalize lower is_space (fallback_name cfg))).
Proof. exact na_lookup_sound_in_schedule. Qed.
Print Assumptions S_nonatomic_lookup_sound_every_schedule.

(** exact_preferred survives interleaving only relative to the FIRST read (the Example shows an
    interleaved lookup answering the wildcard certificate while the exact one is cached) *)
Theorem S_nonatomic_exact_preferred : forall lower is_space sup valid names_of cap (st : nat -> state),
  (forall j, Inv names_of cap (st j)) -> forall cfg sni ip,
  normalize lower is_space sni <> [] -> idx (st 0) (normalize lower is_space sni) <> [] ->
  exists c, na_from_cache lower is_space sup valid st cfg sni ip = Some (c, true, normalize lower is_space sni) /\
            found_at sup valid st 0 c (normalize lower is_space sni).
Proof. exact na_exact_preferred. Qed.

(** satisfiability: six threads (three cacheCertificate, a reload, a handshake staple refresh, a
    handshake lookup) under one schedule; the cache at each of its nine instants; atomic lookups
    at several instants; an interleaved lookup that answers the wildcard certificate *)
Example S_cache_lookup_satisfiable :
  wf_pool x_names_of x_pool /\
  map (fun k => akeys (cache (state_at 0 x_pool x_sched k))) (seq 0 9) =
    [[]; [[101; 49]]; [[101; 49]]; [[101; 49]]; [[101; 49]; [119]]; [[101; 49]; [119]];
     [[119]; [101; 50]]; [[119]; [101; 50]; [102]]; [[119]; [101; 50]; [102]]]%N /\
  x_lookup 3 (x_cfg [] []) [32; 65; 46; 120; 32]%N = ROk x_e1 /\
  x_lookup 8 (x_cfg [] []) [32; 65; 46; 120; 32]%N = ROk x_e2 /\
  x_lookup 3 (x_cfg [] []) [113; 46; 120]%N = RErr /\
  x_lookup 8 (x_cfg [] x_fb) [] = ROk (set_ocsp x_w 7) /\
  na_from_cache ascii_lower ascii_space (fun _ => true) x_valid
    (fun j => state_at 0 x_pool x_sched (match j with 0 => 0 | _ => 6 end)) (x_cfg [] []) x_ax x_ip
    = Some (x_w, true, x_wx) /\
  from_cache ascii_lower ascii_space (fun _ => true) x_valid (state_at 0 x_pool x_sched 6) (x_cfg [] []) x_ax x_ip
    = Some (x_e2, true, x_ax).
Proof. pose proof system_hypotheses_satisfiable as H. intuition. Qed.
(** all theorems and examples of this module *)
Definition S34_CacheLookup_all := (S_cache_invariant_gives_handshake_guarantees, S_handshake_guarantees_every_schedule, S_handshake_guarantees_every_instant, S_handshake_guarantees_schedule_from, S_handshake_guarantees_every_history, S_handshake_guarantees_every_point_of_history, S_handshake_guarantees_every_dhistory, S_lookup_sound_every_schedule, S_answer_complete_every_schedule, S_exact_preferred_every_schedule, S_first_listed_wins_every_schedule, S_ip_preferred_without_sni_every_schedule, S_unexpired_supported_preferred_every_schedule, S_error_only_if_unlisted_every_schedule, S_lookup_sound_x_every_schedule, S_custom_selector_scope_every_schedule, S_lookup_after_schedule_preserves_invariant, S_spec_ok_of_model_every_schedule, S_first_listed_wins_every_history, S_error_only_if_unlisted_every_history, S_lookup_is_a_wellformed_thread, S_lookup_thread_computes, S_nonatomic_lookup_is_C03_when_atomic, S_nonatomic_lookup_sound_every_schedule, S_nonatomic_exact_preferred, S_cache_lookup_satisfiable).
Print Assumptions S34_CacheLookup_all.
End S34_CacheLookup.

(** ====================================================================================
    Part 2.  C12's cache refines the cache views of C05 (Maintain) and C02 (Handshake)
    ==================================================================================== *)
Module S34_CacheViews.
Import ListNotations.
Import CM.Lib.Str CM.Cache.Model CM.Cache.AMapFacts CM.Cache.Proofs CM.Lookup.Model CM.Lookup.Proofs
  CM.System.CacheMaintain CM.System.CacheHandshake.
Open Scope nat_scope.

(** Abstraction: [eh], [en] injective encodings of Maintain's identities / names as hashes /
    names; [conc c] the cached value (hash, Names, managed, no tags); [R cap l s]: the entries of
    the C12 cache map, in order, are [map conc l], and [Inv names_of cap s];
    [ok c]: [names_of (eh (cid c)) = map en (cnames c)].

    Maintain's cache_add (no-op on a present identity) is C12's add_cert while the cache is below
    capacity -- in particular always with Capacity 0 (unlimited), C05's stated assumption. *)
Theorem S_maintain_cache_add_refined : forall (eh : nat -> hash) (en : nat -> name),
  (forall a b, eh a = eh b -> a = b) -> (forall a, eh a <> []) ->
  forall names_of cap l s c v,
  R eh en names_of cap l s -> ok eh en names_of c -> at_capacity cap s = false ->
  R eh en names_of cap (m_add c l) (add_cert cap (conc eh en c) v s).
Proof. exact refine_add_below_capacity. Qed.

Theorem S_maintain_cache_remove_refined : forall (eh : nat -> hash) (en : nat -> name),
  (forall a b, eh a = eh b -> a = b) ->
  forall names_of cap l s c,
  R eh en names_of cap l s -> ok eh en names_of c ->
  R eh en names_of cap (m_remove c l) (remove_cert (conc eh en c) s).
Proof. exact refine_remove. Qed.

Theorem S_maintain_cache_replace_refined : forall (eh : nat -> hash) (en : nat -> name),
  (forall a b, eh a = eh b -> a = b) -> (forall a, eh a <> []) ->
  forall names_of l s old new v,
  R eh en names_of 0 l s -> ok eh en names_of old -> ok eh en names_of new ->
  R eh en names_of 0 (m_replace old new l) (replace_cert 0 (conc eh en old) (conc eh en new) v s).
Proof. exact refine_replace. Qed.

(** Maintain's derived index [resolve n] is what C12's stored index returns for [en n]: as a set
    always; as a permutation (so same length) when no certificate repeats a name; hence
    Maintain's [served] is determined by getAllMatchingCerts *)
Theorem S_maintain_resolve_is_index_lookup : forall (eh : nat -> hash) (en : nat -> name),
  (forall a b, en a = en b -> a = b) ->
  forall names_of cap l s n cc,
  R eh en names_of cap l s ->
  (In cc (get_all_matching_certs s (en n)) <-> In cc (map (conc eh en) (m_resolve n l))).
Proof. exact refine_resolve. Qed.
Theorem S_maintain_resolve_permutation : forall (eh : nat -> hash) (en : nat -> name),
  (forall a b, en a = en b -> a = b) ->
  forall names_of cap l s n,
  R eh en names_of cap l s -> (forall h, NoDup (names_of h)) ->
  Permutation (get_all_matching_certs s (en n)) (map (conc eh en) (m_resolve n l)).
Proof. exact refine_resolve_perm. Qed.
Theorem S_maintain_served_is_index_lookup : forall (eh : nat -> hash) (en : nat -> name),
  (forall a b, eh a = eh b -> a = b) -> (forall a b, en a = en b -> a = b) ->
  forall names_of cap l s n i,
  R eh en names_of cap l s -> (forall h, NoDup (names_of h)) ->
  (m_served n l = Some i <-> exists cc, get_all_matching_certs s (en n) = [cc] /\ c_hash cc = eh i).
Proof. exact refine_served. Qed.

(** FINDING (scope of C05): with a finite Capacity the refinement fails -- the second
    cacheCertificate at Capacity 1 evicts the first entry, which Maintain's cache keeps; so
    C05_pass_leaves_not_due_untouched etc. are theorems about Capacity 0 (the default) *)
Theorem S_capacity_breaks_maintain_cache_refuted :
  exists (l : list mcert) (s : state) (c : mcert) (v : option hash),
    R eh0 en0 names_of0 1 l s /\ ok eh0 en0 names_of0 c /\
    In (mc 0) (m_add c l) /\
    alookup (eh0 0) (cache (add_cert 1 (conc eh0 en0 c) v s)) = None /\
    ~ R eh0 en0 names_of0 1 (m_add c l) (add_cert 1 (conc eh0 en0 c) v s).
Proof. exact capacity_breaks_refinement_refuted. Qed.
Print Assumptions S_capacity_breaks_maintain_cache_refuted.

Example S_maintain_cache_refinement_satisfiable :
  let l := m_replace (mc 0) (mc 2) (m_add (mc 1) (m_add (mc 0) [])) in
  let s := replace_cert 0 (conc eh0 en0 (mc 0)) (conc eh0 en0 (mc 2)) None
             (add_cert 0 (conc eh0 en0 (mc 1)) None (add_cert 0 (conc eh0 en0 (mc 0)) None init)) in
  R eh0 en0 names_of0 0 l s /\
  map cid l = [1; 2] /\ akeys (cache s) = [eh0 1; eh0 2] /\
  m_served 2 l = Some 2 /\ get_all_matching_certs s (en0 2) = [conc eh0 en0 (mc 2)] /\
  m_served 0 l = None /\ get_all_matching_certs s (en0 0) = [].
Proof. exact refinement_run. Qed.

(** The on-demand handshake model of C02: its cache operations are C12's (cache_add only below capacity: the
    model says evictions are not modelled; cache_update: see below) ... *)
Theorem S_handshake_cache_find_refined : forall (eh : N -> hash),
  (forall a b, eh a = eh b -> a = b) ->
  forall names_of cap w s id, RH eh names_of cap w s ->
  match Handshake.Model.cache_find id w with
  | Some c => alookup (eh id) (cache s) = Some (hconc eh c)
  | None => alookup (eh id) (cache s) = None
  end.
Proof. exact refine_find. Qed.
Theorem S_handshake_cache_add_refined : forall (eh : N -> hash),
  (forall a b, eh a = eh b -> a = b) -> (forall a, eh a <> []) ->
  forall names_of cap w s c v,
  RH eh names_of cap w s -> hok eh names_of c -> at_capacity cap s = false ->
  RH eh names_of cap (Handshake.Model.cache_add c w) (add_cert cap (hconc eh c) v s).
Proof. exact refine_h_add. Qed.
Theorem S_handshake_cache_remove_refined : forall (eh : N -> hash),
  (forall a b, eh a = eh b -> a = b) ->
  forall names_of cap w s c,
  RH eh names_of cap w s -> hok eh names_of c ->
  RH eh names_of cap (Handshake.Model.cache_remove (h_id c) w) (remove_cert (hconc eh c) s).
Proof. exact refine_h_remove. Qed.
Theorem S_handshake_cache_replace_refined : forall (eh : N -> hash),
  (forall a b, eh a = eh b -> a = b) -> (forall a, eh a <> []) ->
  forall names_of cap w s old new v,
  RH eh names_of cap w s -> hok eh names_of old -> hok eh names_of new ->
  at_capacity cap (remove_cert (hconc eh old) s) = false ->
  RH eh names_of cap (Handshake.Model.cache_replace old new w) (replace_cert cap (hconc eh old) (hconc eh new) v s).
Proof. exact refine_h_replace. Qed.
Theorem S_handshake_cache_update_refined : forall (eh : N -> hash),
  (forall a b, eh a = eh b -> a = b) ->
  forall names_of cap w s c,
  RH eh names_of cap w s -> hok eh names_of c ->
  RH eh names_of cap (Handshake.Model.cache_update c w) (write_back_whole_copy (hconc eh c) s).
Proof. exact refine_h_update. Qed.
(** ... which is C12's one-field write-back of today's code when the copy differs from the cached
    entry only in its staple ([write_back] = set_ocsp_at: handshakeMaintenance) or its ARI
    ([set_ari_at]: updateARI) *)
Theorem S_handshake_cache_update_staple_refined : forall (eh : N -> hash),
  (forall a b, eh a = eh b -> a = b) ->
  forall names_of cap w s c x,
  RH eh names_of cap w s -> hok eh names_of c -> Handshake.Model.cache_find (h_id c) w = Some x ->
  hconc eh c = set_ocsp (hconc eh x) (c_ocsp (hconc eh c)) ->
  RH eh names_of cap (Handshake.Model.cache_update c w) (write_back (hconc eh c) s).
Proof. exact refine_h_update_staple. Qed.
Theorem S_handshake_cache_update_ari_refined : forall (eh : N -> hash),
  (forall a b, eh a = eh b -> a = b) ->
  forall names_of cap w s c x v,
  RH eh names_of cap w s -> hok eh names_of c -> Handshake.Model.cache_find (h_id c) w = Some x ->
  hconc eh c = set_ari (hconc eh x) v ->
  RH eh names_of cap (Handshake.Model.cache_update c w) (set_ari_at (eh (h_id c)) v s).
Proof. exact refine_h_update_ari. Qed.

(** ... and its ORACLE [h_hit] ("certificate selected from the cache by
    getCertificateFromCache"), when instantiated by what C03's [from_cache] answers on the C12
    state, names a certificate the handshake model's [cache_find] finds, listing the name it was
    found under.  Connects Handshake.Model (C02) with Lookup.Model (C03) through Cache (C12). *)
Theorem S_handshake_hit_oracle_from_C03 : forall (eh : N -> hash),
  (forall a b, eh a = eh b -> a = b) ->
  forall names_of lower is_space sup valid cap w s cfg sni ip cc b v,
  RH eh names_of cap w s ->
  from_cache lower is_space sup valid s cfg sni ip = Some (cc, b, v) ->
  exists c, hconc eh c = cc /\ Handshake.Model.cache_find (h_id c) w = Some c /\ In v (h_names c) /\
    let n := normalize lower is_space sni in
    ((b = true /\ n <> [] /\ covers v n) \/ (b = true /\ n = [] /\ v = ip) \/
     (b = false /\ n = [] /\ default_name cfg <> [] /\ v = normalize lower is_space (default_name cfg)) \/
     (b = false /\ fallback_name cfg <> [] /\ v = normalize lower is_space (fallback_name cfg))).
Proof. exact hit_oracle_from_C03. Qed.
Print Assumptions S_handshake_hit_oracle_from_C03.

Example S_handshake_cache_refinement_satisfiable :
  let w := Handshake.Model.cache_update hx_c1'
             (Handshake.Model.cache_replace hx_c0 hx_c2
               (Handshake.Model.cache_add hx_c1 (Handshake.Model.cache_add hx_c0 hx_w0))) in
  let s := write_back (hconc heh hx_c1')
             (replace_cert 3 (hconc heh hx_c0) (hconc heh hx_c2) None
               (add_cert 3 (hconc heh hx_c1) None (add_cert 3 (hconc heh hx_c0) None init))) in
  RH heh hx_names_of 3 w s /\
  from_cache ascii_lower ascii_space (fun _ => true) (fun _ => true) s {| default_name := []; fallback_name := [] |} hx_ax [] =
    Some (hconc heh hx_c2, true, hx_ax) /\
  Handshake.Model.cache_find 2 w = Some hx_c2.
Proof. pose proof handshake_cache_run as H. cbv zeta in *. intuition. Qed.
(** all theorems and examples of this module *)
Definition S34_CacheViews_all := (S_maintain_cache_add_refined, S_maintain_cache_remove_refined, S_maintain_cache_replace_refined, S_maintain_resolve_is_index_lookup, S_maintain_resolve_permutation, S_maintain_served_is_index_lookup, S_capacity_breaks_maintain_cache_refuted, S_maintain_cache_refinement_satisfiable, S_handshake_cache_find_refined, S_handshake_cache_add_refined, S_handshake_cache_remove_refined, S_handshake_cache_replace_refined, S_handshake_cache_update_refined, S_handshake_cache_update_staple_refined, S_handshake_cache_update_ari_refined, S_handshake_hit_oracle_from_C03, S_handshake_cache_refinement_satisfiable).
Print Assumptions S34_CacheViews_all.
End S34_CacheViews.

(** ====================================================================================
    Part 3.  C04 (renewal decision) underneath C05 (maintenance)
    ==================================================================================== *)
Module S34_RenewMaintain.
Import ListNotations.
Import CM.Gen.Consts CM.Renewal.Model CM.Renewal.Proofs CM.Renewal.F64 CM.Renewal.F64Proofs
  CM.Maintain.Model CM.Maintain.Spec CM.Maintain.Base CM.Maintain.Inv CM.Maintain.Proofs CM.System.RenewMaintain.
Open Scope nat_scope.

(** Instantiation: [env k] = the C04 inputs of the certificate with identity k, [draw k] = the
    rand.Int63n value used for it; [verdict_at now k] = [decide scale (env k) (draw k) now = Renew];
    [Timed now s]: every certificate of the Maintain state carries that verdict in [cdue];
    [retime now' s]: every certificate re-decided at [now'].
    The cached copy is decided by NeedsRenewal = decide_leaf (maintain.go L145, config.go L466),
    the stored copy by managedCertNeedsRenewal = managed_decide (certificates.go L494 <- maintain.go
    L152; config.go L815): the same function for a parsable bundle. *)
Theorem S_decision_paths_agree : forall scale i rnd now,
  decide_leaf scale true i rnd now = decide scale i rnd now /\
  managed_decide scale true i rnd now = decide scale i rnd now.
Proof. exact decide_paths_agree. Qed.

(** (a) C04 renew_when_due (any of its four clauses: [due_reason]) + C05_renewal_end_to_end +
    C05_failed_renewal_keeps_serving.  A managed, not-on-demand cached certificate that C04 finds
    due at the instant of the pass (and is the stored copy of its name; for every other cached
    certificate C04 finds nothing due, or it is unmanaged / on-demand) is renewed by the next
    pass and its job: one Issue, the new certificate stored, cached, answering for its names, the
    old one gone, no job left -- unless the issuer fails for the name: then through any history
    without an external renewal / issuer repair it stays cached, stored and answering, nothing
    issued. *)
Theorem S_due_certificate_is_renewed : forall scale, scale_spec scale ->
  forall env draw od idue now s p c,
  WF od s -> Timed scale env draw now s -> take_pass p (passes s) = None ->
  NoDup (cache s) -> In c (cache s) -> cman c = true -> od (chead c) = false ->
  due_reason (env (cid c)) (draw (cid c)) now ->
  stored (store s) (chead c) = Some c ->
  (forall x, In x (cache s) -> x <> c ->
     nothing_due (env (cid x)) (draw (cid x)) now \/ cman x = false \/ od (chead x) = true) ->
  no_job_for (chead c) (jobs s) = true ->
  let n := chead c in
  (is_failing s n = false ->
     let s' := run od idue s [PassScan p; PassAct p; JobStep n 0; JobStep n 0; JobStep n 0] in
     issued s' = n :: issued s /\ failed s' = failed s /\
     stored (store s') n = Some (new_cert idue s n) /\
     In (new_cert idue s n) (cache s') /\ ~ In c (cache s') /\
     (forall m, In m (cnames (new_cert idue s n)) -> In (new_cert idue s n) (resolve m (cache s'))) /\
     jobs s' = jobs s) /\
  (is_failing s n = true -> forall h, Forall (fun e => ~ touches_name n e) h ->
     let s' := run od idue s h in
     In c (cache s') /\ stored (store s') n = Some c /\
     cnt (issued s') n = cnt (issued s) n /\
     (forall m, In m (cnames c) -> In c (resolve m (cache s')))).
Proof. exact due_certificate_is_renewed. Qed.
Print Assumptions S_due_certificate_is_renewed.

(** the same with no hypothesis on the arithmetic: Go's float64 product (C04's exact model) *)
Theorem S_due_certificate_is_renewed_float64 : forall env draw od idue now s p c,
  WF od s -> Timed scale_f64 env draw now s -> take_pass p (passes s) = None ->
  NoDup (cache s) -> In c (cache s) -> cman c = true -> od (chead c) = false ->
  due_reason (env (cid c)) (draw (cid c)) now ->
  stored (store s) (chead c) = Some c ->
  (forall x, In x (cache s) -> x <> c ->
     nothing_due (env (cid x)) (draw (cid x)) now \/ cman x = false \/ od (chead x) = true) ->
  no_job_for (chead c) (jobs s) = true ->
  let n := chead c in
  (is_failing s n = false ->
     let s' := run od idue s [PassScan p; PassAct p; JobStep n 0; JobStep n 0; JobStep n 0] in
     issued s' = n :: issued s /\ failed s' = failed s /\
     stored (store s') n = Some (new_cert idue s n) /\
     In (new_cert idue s n) (cache s') /\ ~ In c (cache s') /\
     (forall m, In m (cnames (new_cert idue s n)) -> In (new_cert idue s n) (resolve m (cache s'))) /\
     jobs s' = jobs s) /\
  (is_failing s n = true -> forall h, Forall (fun e => ~ touches_name n e) h ->
     let s' := run od idue s h in
     In c (cache s') /\ stored (store s') n = Some c /\
     cnt (issued s') n = cnt (issued s) n /\
     (forall m, In m (cnames c) -> In c (resolve m (cache s')))).
Proof. exact due_certificate_is_renewed_f64. Qed.

(** a due certificate whose stored copy C04 does not find due (renewed by another instance) is
    adopted by the pass without contacting the issuer (C04 renew + wait + C05_adopts_external_renewal) *)
Theorem S_due_certificate_adopts_stored : forall scale, scale_spec scale ->
  forall env draw od idue now s p c st,
  WF od s -> Timed scale env draw now s -> take_pass p (passes s) = None ->
  In c (cache s) -> cman c = true -> od (chead c) = false ->
  due_reason (env (cid c)) (draw (cid c)) now ->
  stored (store s) (chead c) = Some st -> nothing_due (env (cid st)) (draw (cid st)) now ->
  let s' := step od idue (step od idue s (PassScan p)) (PassAct p) in
  In st (cache s') /\ ~ In c (cache s') /\
  (forall m, In m (cnames st) -> In st (resolve m (cache s'))) /\
  store s' = store s /\ issued s' = issued s /\ failed s' = failed s.
Proof. exact due_certificate_adopts_stored. Qed.

(** (b) C04_wait_when_nothing_due + C05_pass_leaves_not_due_untouched / C05_renews_once: a cached
    certificate for which C04 finds nothing due stays in the cache, answering for all its names,
    through EVERY history; and no Issue is made for its name when it is the stored copy *)
Theorem S_not_due_certificate_untouched : forall scale, scale_spec scale ->
  forall env draw od idue now s h c,
  WF od s -> Timed scale env draw now s -> In c (cache s) ->
  nothing_due (env (cid c)) (draw (cid c)) now ->
  In c (cache (run od idue s h)) /\
  (forall m, In m (cnames c) -> In c (resolve m (cache (run od idue s h)))).
Proof. exact not_due_certificate_untouched. Qed.
Theorem S_not_due_certificate_not_reissued : forall scale, scale_spec scale ->
  forall env draw od now s h c,
  Timed scale env draw now s -> stored (store s) (chead c) = Some c ->
  nothing_due (env (cid c)) (draw (cid c)) now ->
  cnt (issued (run od false s h)) (chead c) <= cnt (issued s) (chead c).
Proof. exact not_due_certificate_not_reissued. Qed.

(** (d) [idue = false] from C04: a certificate satisfying the explicit freshness condition
    [fresh_inputs] (age outside the configured fraction, the final 1/50, five intervals; no ARI,
    or a window at least an interval ahead and age outside the final 1/20) is not due
    (C04_wait_when_nothing_due / C04_future_window_never_immediate) ... *)
Theorem S_fresh_certificate_not_due : forall scale, scale_spec scale ->
  forall i rnd now, fresh_inputs i now -> admissible i rnd -> decide scale i rnd now = Wait.
Proof. exact fresh_not_due. Qed.

(** ... so when what is handed out during the history is fresh, the Maintain model with
    [idue = false] is the C04-instantiated one ([Timed] is an invariant) and C05_renews_once
    holds with C04 underneath *)
Theorem S_renews_once_with_C04 : forall scale, scale_spec scale ->
  forall env draw od now s h n,
  Timed scale env draw now s ->
  (forall k, next s <= k -> fresh_inputs (env k) now /\ admissible (env k) (draw k)) ->
  Timed scale env draw now (run od false s h) /\
  cnt (issued (run od false s h)) n <= cnt (issued s) n + (if stored_fresh (store s) n then 0 else 1) /\
  (forall st, stored (store s) n = Some st -> nothing_due (env (cid st)) (draw (cid st)) now ->
     cnt (issued (run od false s h)) n <= cnt (issued s) n).
Proof. exact renews_once_with_C04. Qed.
Theorem S_renews_once_with_C04_float64 : forall env draw od now s h n,
  Timed scale_f64 env draw now s ->
  (forall k, next s <= k -> fresh_inputs (env k) now /\ admissible (env k) (draw k)) ->
  Timed scale_f64 env draw now (run od false s h) /\
  cnt (issued (run od false s h)) n <= cnt (issued s) n + (if stored_fresh (store s) n then 0 else 1) /\
  (forall st, stored (store s) n = Some st -> nothing_due (env (cid st)) (draw (cid st)) now ->
     cnt (issued (run od false s h)) n <= cnt (issued s) n).
Proof. exact renews_once_with_C04_f64. Qed.
Print Assumptions S_renews_once_with_C04_float64.

(** (c) "due does not change during a history".  With the draw fixed the verdict only moves from
    wait to renew (C04_monotone_in_now) ... *)
Theorem S_verdict_monotone : forall scale env draw now now' k,
  (now <= now')%Z -> verdict_at scale env draw now k = true -> verdict_at scale env draw now' k = true.
Proof. exact verdict_monotone. Qed.

(** ... re-deciding at the same instant changes nothing ... *)
Theorem S_retime_same_instant : forall scale env draw now s,
  Timed scale env draw now s -> retime scale env draw now s = s.
Proof. exact retime_same_instant. Qed.

(** ... C05's invariant survives re-deciding at a later instant, all clauses but one: "passes and
    renewal jobs only hold due certificates" by monotonicity; "a queued reload stays reloadable"
    must be asked for at the new instant ... *)
Theorem S_wf_survives_later_instant : forall scale env draw od now now' s,
  WF od s -> Timed scale env draw now s -> (now <= now')%Z ->
  (forall q c st, In q (passes s) -> In c (preload q) -> stored (store s) (chead c) = Some st ->
                  verdict_at scale env draw now' (cid st) = false) ->
  WF od (retime scale env draw now' s).
Proof. exact WF_retime. Qed.

(** ... and that clause really breaks (a pass caught between scan and act while the stored copy
    it decided to reload becomes due) *)
Theorem S_later_instant_breaks_queued_reload_refuted :
  exists od s t1 t2, WF od s /\ Timed scale_f64 x_env x_draw t1 s /\ (t1 <= t2)%Z /\
    ~ WF od (retime scale_f64 x_env x_draw t2 s).
Proof. exact retime_breaks_queued_reload_refuted. Qed.
Print Assumptions S_later_instant_breaks_queued_reload_refuted.

(** the history split at an instant: first leg with the verdicts of t1, every certificate
    re-decided at t2 >= t1, second leg.  The first leg stays timed; the re-decided state is timed
    for t2 and well formed (so every C05 theorem applies to the second leg); every certificate due
    at t1 is due at t2; every renewal job decided at t1 is still justified at t2. *)
Theorem S_history_split_at_an_instant : forall scale env draw od t1 t2 s h1 h2,
  WF od s -> Timed scale env draw t1 s -> (t1 <= t2)%Z ->
  (forall k, next s <= k -> verdict_at scale env draw t1 k = false) ->
  let s1 := run od false s h1 in
  (forall q c st, In q (passes s1) -> In c (preload q) -> stored (store s1) (chead c) = Some st ->
                  verdict_at scale env draw t2 (cid st) = false) ->
  let s2 := retime scale env draw t2 s1 in
  Timed scale env draw t1 s1 /\ Timed scale env draw t2 s2 /\ WF od s2 /\ WF od (run od false s2 h2) /\
  (forall c, InSt s1 c -> cdue c = true -> cdue (retime_cert scale env draw t2 c) = true) /\
  (forall j old, In j (jobs s1) -> jold j = Some old ->
     eligible od (retime_cert scale env draw t2 old) = true).
Proof. exact split_history. Qed.

(** satisfiability, with 90-day certificates and Go's float64 arithmetic: identity 0 issued on day
    0 (due on day 61), identity 1 on day 50, everything handed out later on day 61 *)
Example S_renew_maintain_satisfiable :
  map (verdict_at scale_f64 x_env x_draw t61) [0; 1; 3; 9] = [true; false; false; false] /\
  map (verdict_at scale_f64 x_env x_draw t115) [0; 1; 3; 9] = [true; true; false; true] /\
  WF x_od (x_s []) /\ Timed scale_f64 x_env x_draw t61 (x_s []) /\
  due_reason (x_env 0) (x_draw 0) t61 /\ nothing_due (x_env 1) (x_draw 1) t61 /\
  (forall k, next (x_s []) <= k -> fresh_inputs (x_env k) t61 /\ admissible (x_env k) (x_draw k)) /\
  (let s' := run x_od false (x_s []) [PassScan 1; PassAct 1; JobStep 0 0; JobStep 0 0; JobStep 0 0] in
   cache s' = [xc1; xc3; new_cert false (x_s []) 0] /\ issued s' = [0]).
Proof.
  pose proof x_verdicts as (H1 & _ & H3 & _). pose proof x_renewed as H. cbv zeta in H.
  split; [exact H1|]. split; [exact H3|]. split; [apply x_s_wf|]. split; [apply x_s_timed|].
  split; [exact x_due_reason_0|]. split; [exact x_nothing_due_1|]. split; [exact x_fresh|]. intuition.
Qed.
(** all theorems and examples of this module *)
Definition S34_RenewMaintain_all := (S_decision_paths_agree, S_due_certificate_is_renewed, S_due_certificate_is_renewed_float64, S_due_certificate_adopts_stored, S_not_due_certificate_untouched, S_not_due_certificate_not_reissued, S_fresh_certificate_not_due, S_renews_once_with_C04, S_renews_once_with_C04_float64, S_verdict_monotone, S_retime_same_instant, S_wf_survives_later_instant, S_later_instant_breaks_queued_reload_refuted, S_history_split_at_an_instant, S_renew_maintain_satisfiable).
Print Assumptions S34_RenewMaintain_all.
End S34_RenewMaintain.

(** ====================================================================================
    Part 4.  C04 (renewal decision) underneath C01 (issuance)
    ==================================================================================== *)
Module S34_RenewIssuance.
Import ListNotations.
Import CM.Renewal.Model CM.Renewal.Proofs CM.Renewal.F64 CM.Renewal.F64Proofs
  CM.Issuance.Model CM.Issuance.Proofs CM.Issuance.Invariants CM.Issuance.NoReissueTL CM.Issuance.NoReissue
  CM.System.RenewMaintain CM.System.RenewIssuance.
Open Scope nat_scope.

(** C01_no_issue_on_fresh_storage_partial with "not due" supplied by C04_wait_when_nothing_due *)
Theorem S_no_issue_on_storage_not_due_by_C04 : forall scale, scale_spec scale ->
  forall cs st n L ce es s i rnd now,
  canon0 n L cs ->
  st (SK n KKey) <> None -> st (SK n KCrt) = Some (VCrt ce) -> st (SK n KMeta) <> None ->
  c_due ce = due_b scale i rnd now -> nothing_due i rnd now ->
  runs (truthful n) (init_state cs st) es s ->
  sto (sh s) (SK n KCrt) = Some (VCrt ce) /\
  Forall (fun e => forall j, e_op e = OIssS j -> forall c, nth_error cs (e_tid e) = Some c -> ~ touches n c) es.
Proof. exact no_issue_on_storage_not_due_by_C04. Qed.
Print Assumptions S_no_issue_on_storage_not_due_by_C04.

(** C01_no_reissue_after_save_partial with [c_issdue = false] supplied by C04 for an issuer whose
    certificates are fresh ([fresh_inputs]) at the instant of the run *)
Theorem S_no_reissue_after_save_of_fresh_by_C04 : forall scale, scale_spec scale ->
  forall cs st n L s l s1 t th es s2 i rnd now,
  canon0 n L cs -> reachable cs st s ->
  step s l = Some (s1, Ev t (OStore (SK n KMeta)) 0) ->
  thread_at s t th -> cert_prog (cfg th) ->
  c_issdue (cfg th) = due_b scale i rnd now -> fresh_inputs i now -> admissible i rnd ->
  runs (truthful n) s1 es s2 ->
  exists ce, nc th = Some ce /\ c_due ce = false /\
    sto (sh s2) (SK n KCrt) = Some (VCrt ce) /\ sto (sh s2) (SK n KKey) <> None /\ sto (sh s2) (SK n KMeta) <> None /\
    Forall (fun e => forall j, e_op e = OIssS j -> forall c, nth_error cs (e_tid e) = Some c -> ~ touches n c) es.
Proof. exact no_reissue_after_save_of_fresh_by_C04. Qed.

Example S_renew_issuance_satisfiable :
  let ce := {| c_id := 7; c_kid := 1; c_due := due_b scale_f64 (i90 (50 * day)) 0 t61 |} in
  c_due ce = false /\ nothing_due (i90 (50 * day)) 0 t61 /\
  fresh_inputs (i90 t61) t61 /\ admissible (i90 t61) 0 /\
  due_b scale_f64 (i90 t61) 0 t61 = false /\ due_b scale_f64 (i90 0) 0 t61 = true.
Proof. exact issuance_hypotheses_satisfiable. Qed.
(** all theorems and examples of this module *)
Definition S34_RenewIssuance_all := (S_no_issue_on_storage_not_due_by_C04, S_no_reissue_after_save_of_fresh_by_C04, S_renew_issuance_satisfiable).
Print Assumptions S34_RenewIssuance_all.
End S34_RenewIssuance.

(* ================================================================================================ *)
(* scopes opened by the previous part do not reach this one *)
Close Scope N_scope. Close Scope Z_scope. Close Scope positive_scope. Close Scope string_scope. Close Scope char_scope.

(** * Part 5.  Bundle save / recover (C06, C07)  x  file lock recovery (C08)  x  Issuance lock discipline (C01, C09)

    C07 ASSUMES its recovery step: [break_lock] ("the Locker's staleness rule") and then a fault-free
    manage of a fresh instance.  C08 PROVES that rule for FileStorage's lock file.  C09 proves, for the
    Issuance LTS (which has no crash step), that every exit path releases.  This part
      (1) proves the Bundle-level lock facts that were missing (every plan: failing calls, crash at any index),
      (2) composes Bundle x FileLock on the product state with the coupling  k_locked = "the lock file exists":
          a crash at ANY storage-call index leaves a state from which one recovering waiter obtains the lock
          by its own steps (= break_lock) AND the next Manage recovers, outside the exactly characterised stuck class,
      (3) shows that Bundle's [with_lock] and Issuance's [locked] region are the same bracket discipline,
      (4) says what the documented stale race does to all this (two recoverers): refuted, with witnesses. *)
From Coq Require Import List NArith ZArith Bool Arith Lia.
From CM Require Gen.Consts.
From CM Require FileLock.Model FileLock.Check FileLock.Proofs FileLock.Refuted.
From CM Require Bundle.Model Bundle.Proofs Bundle.Faults.
From CM Require Issuance.Model Issuance.Proofs Issuance.Invariants.
From CM Require Props.C07 Props.C08.
From CM Require System.CrashRecoverBundle System.CrashRecoverLock System.CrashRecover
  System.CrashRecoverIssuance System.CrashRecoverAgree.

(* ------------------------------------------------------------------------------------------------ *)
Module S5_BundleLock.
Import ListNotations.
Import CM.Bundle.Model CM.Bundle.Proofs CM.Bundle.Faults CM.System.CrashRecoverBundle.
Open Scope N_scope.

(** Bundle (C07), every plan.  Connects: Bundle.Model's own log with its lock bit - the Bundle-level
    counterpart of C09_locks_released.  One operation (obtain / renew / manage) started with the lock
    free appends a log segment [new] whose lock calls (newest first) are one of five words, and the word
    decides the lock bit afterwards:
      no lock call | Lock failed by the plan           -> free
      Lock ok (no Unlock)                              -> HELD, and only if the run died
      Unlock ok, Lock ok                               -> free
      Unlock failed by the plan, Lock ok               -> HELD although the run returned (the class that
                                                          C09 excludes by [unlock_ok_for]: the deferred
                                                          releaseLock's error is only logged). *)
Theorem S_bundle_lock_after : forall pl cfg sp orc h w0,
  is_op7 h = true -> w_locked w0 = false ->
  let r := run_hop pl cfg sp orc h w0 in
  exists new, w_log (snd r) = new ++ w_log w0 /\
    ((lock_calls new = [] /\ w_locked (snd r) = false) \/
     (lock_calls new = [ev_lock_failed] /\ w_locked (snd r) = false) \/
     (lock_calls new = [ev_lock_ok] /\ w_locked (snd r) = true /\ fst r = Dead) \/
     (lock_calls new = [ev_unlock None; ev_lock_ok] /\ w_locked (snd r) = false) \/
     (lock_calls new = [ev_unlock (Some EInjected); ev_lock_ok] /\ w_locked (snd r) = true /\
      exists n, p_fail pl n = true)).
Proof. exact bundle_lock_after. Qed.
Print Assumptions S_bundle_lock_after.

(** ... hence: a run that did not die and whose log shows no failed Unlock leaves no lock (any plan) *)
Theorem S_bundle_locks_released : forall pl cfg sp orc h w0,
  is_op7 h = true -> w_locked w0 = false ->
  fst (run_hop pl cfg sp orc h w0) <> Dead ->
  ~ In (ev_unlock (Some EInjected)) (w_log (snd (run_hop pl cfg sp orc h w0))) ->
  w_locked (snd (run_hop pl cfg sp orc h w0)) = false.
Proof. exact bundle_locks_released. Qed.

(** ... and under plans that only kill (no failing call) every run that returns has released *)
Theorem S_bundle_locks_released_crash_only : forall pl cfg sp orc h w0,
  is_op7 h = true -> w_locked w0 = false -> (forall n, p_fail pl n = false) ->
  fst (run_hop pl cfg sp orc h w0) <> Dead ->
  w_locked (snd (run_hop pl cfg sp orc h w0)) = false.
Proof. exact bundle_locks_released_crash_only. Qed.

(** the full shape, not only the lock calls: new = post ++ mid ++ pre with no lock call and no write to a
    certificate file in [pre] and [post], and [mid] the bracket ([wl]) - without pending revocations *)
Theorem S_bundle_log_shape : forall pl cfg sp orc h w,
  is_op7 h = true -> k_ocsp (w_core w) = [] -> w_locked w = false ->
  exists new, w_log (snd (run_hop pl cfg sp orc h w)) = new ++ w_log w /\
              hshape pl quiet_ev new (is_dead (fst (run_hop pl cfg sp orc h w))) (w_locked (snd (run_hop pl cfg sp orc h w))).
Proof. exact run_hop_bracket. Qed.
(** all theorems and examples of this module *)
Definition S5_BundleLock_all := (S_bundle_lock_after, S_bundle_locks_released, S_bundle_locks_released_crash_only, S_bundle_log_shape).
Print Assumptions S5_BundleLock_all.
End S5_BundleLock.

(* ------------------------------------------------------------------------------------------------ *)
Module S5_CrashRecover.
Import ListNotations.
Import CM.Gen.Consts CM.FileLock.Model CM.FileLock.Check CM.FileLock.Proofs.
Import CM.System.CrashRecoverLock.
Import CM.Bundle.Model CM.Bundle.Proofs CM.Bundle.Faults CM.System.CrashRecoverBundle.
Import CM.System.CrashRecover.

(** the simulation diagram of the coupling  [coupled w s := k_locked (w_core w) = fl_locked s]
    (Bundle world x FileLock state; [fl_locked s] = the lock file exists):
    Bundle's Lock on a free lock = the two FileLock steps create + write ... *)
Theorem S_coupled_lock : forall (c : fl_config) pl w s t ec,
  coupled w s -> w_locked w = false -> p_fail pl (w_cnt w) = false ->
  cs s t = CTry ec -> (lastcreate s < now s)%Z ->
  exists s2, run c s [LTryCreate t; LWriteMeta t] = Some s2 /\ cs s2 t = CHolding (nexti s) /\
             w_locked (snd (lock pl w)) = true /\ coupled (snd (lock pl w)) s2.
Proof. exact coupled_lock. Qed.

(** ... on a taken lock Bundle answers with an error at once (it has no waiting) = EEXIST in FileLock ... *)
Theorem S_coupled_lock_refused : forall (c : fl_config) pl w s t ec,
  coupled w s -> w_locked w = true -> p_fail pl (w_cnt w) = false -> cs s t = CTry ec ->
  exists s1, step c s (LTryCreate t) = Some s1 /\ cs s1 t = CExists ec /\
             w_locked (snd (lock pl w)) = true /\ coupled (snd (lock pl w)) s1.
Proof. exact coupled_lock_refused. Qed.

(** ... Unlock = os.Remove of the name; process death leaves the Bundle world and the lock file as they
    are; and no other FileLock step (reads, sleeps, heartbeats, time) creates or removes the lock file *)
Theorem S_coupled_unlock_kill_other : forall (c : fl_config),
  (forall pl w s t i, p_fail pl (w_cnt w) = false -> cs s t = CHolding i ->
     exists s1, step c s (LUnlock t) = Some s1 /\ cs s1 t = CReleased /\
                w_locked (snd (unlock pl w)) = false /\ coupled (snd (unlock pl w)) s1) /\
  (forall w s p s1, coupled w s -> step c s (LKill p) = Some s1 -> coupled w s1) /\
  (forall w s l s1, coupled w s -> step c s l = Some s1 ->
     (forall t, l <> LTryCreate t) -> (forall t, l <> LRemove t) -> (forall t, l <> LUnlock t) -> coupled w s1).
Proof.
  intros c. split; [intros; eapply coupled_unlock; eauto|]. split; [apply coupled_kill | apply coupled_other].
Qed.

Open Scope N_scope.
(** THE COMPOSED THEOREM (Bundle C07 x FileLock C08, repository configuration, H-live(d)).
    Any reachable Bundle state, any of obtain / renew / manage, any plan under which the run dies with the
    lock held - by S_bundle_lock_after that is a crash between the operation's own Lock and Unlock, the
    Lock call included, or after an Unlock the plan failed.  On the FileLock side the crashed instance is
    thread [t], owner of the file in place, killed in ANY reachable state; then any continuation in which
    the dead file is still in place and has become stale for a waiter [w] ([dead_file]: metadata older
    than factor * interval since the crash and [w] at the top of its loop, or empty with a modification
    time that old and [w] at its retry limit).  Then
      (0) the coupling holds at the crash, after the kill and at [s'];
      (1) the lock calls of the dead run's log segment are [Lock ok] or [Unlock failed; Lock ok];
      (2) [break_lock] is the abstract image of the waiter's own break run [brk] (3 resp. 2 steps, no time),
          after which its O_EXCL create succeeds: it owns the new lock file, nobody else's state changed;
      (3) outside the stuck class the fresh instance's fault-free manage from [break_lock]'s state serves a
          certificate that is not due, names the subject and has its key, and leaves the lock free;
      (4) the stuck class is exactly "the new .key stored next to an older certificate for another key",
          and then every later manage fails with the mismatch - the LOCK is recovered all the same. *)
Theorem S_crash_recovers_composed : forall d, H_live d ->
  forall pl cfg sp orc h w0 s0 t i s ls s' w brk,
  reach6 cfg sp (w_core w0) -> k_ocsp (w_core w0) = [] -> canonical sp -> (1 <= n_iss cfg)%nat -> is_op7 h = true ->
  let r := run_hop pl cfg sp orc h w0 in let w1 := snd r in
  fst r = Dead -> w_locked w1 = true ->
  reach (cfg_repo d) any_label init s0 -> held_by s0 t -> file s0 = Some i ->
  step (cfg_repo d) s0 (LKill (cproc s0 t)) = Some s ->
  run (cfg_repo d) s ls = Some s' -> file s' = Some i -> dead_file s0 s' t i w brk ->
  (coupled w1 s0 /\ coupled w1 s /\ coupled w1 s') /\
  (exists new, w_log w1 = new ++ w_log w0 /\
     (lock_calls new = [ev_lock_ok] \/ lock_calls new = [ev_unlock (Some EInjected); ev_lock_ok])) /\
  (exists s3 s4, run (cfg_repo d) s' brk = Some s3 /\ coupled (break_lock w1) s3 /\ same_but w s' s3 /\
                 step (cfg_repo d) s3 (LTryCreate w) = Some s4 /\ held_by s4 w /\ now s4 = now s' /\
                 (forall t', t' <> w -> cs s4 t' = cs s' t')) /\
  (stuck (w_st w1) cfg (s_save sp) = false ->
   forall orc_r, all_up cfg orc_r (w_st w1) (s_save sp) ->
   exists mc c', evals (manage no_faults cfg sp orc_r) (w_core (break_lock w1)) (Ok mc) c' /\
                 served_ok cfg sp mc c' /\ k_locked c' = false) /\
  (stuck (w_st w1) cfg (s_save sp) = true ->
   (exists j k x m, In j (issuers cfg) /\ key_origin cfg sp (w_core w0) k /\
      dir_crt (w_st w0) j (s_save sp) = Some x /\ dir_meta (w_st w0) j (s_save sp) = Some m /\ c_pub x <> k /\
      w_st w1 = sput (w_st w0) (j, s_save sp, FKey) (VKey k)) /\
   forall orc_r, evals (manage no_faults cfg sp orc_r) (w_core (break_lock w1)) (Fail EMismatch) (w_core (break_lock w1))).
Proof. exact crash_recovers_composed. Qed.
Print Assumptions S_crash_recovers_composed.

(** the other crash points (before the Lock call, at a Lock call the plan failed, after a successful
    Unlock) leave no lock: nothing to break, [break_lock] is the identity on the core *)
Theorem S_crash_without_lock_recovers : forall pl cfg sp orc h w0 orc_r,
  reach6 cfg sp (w_core w0) -> k_ocsp (w_core w0) = [] -> canonical sp -> (1 <= n_iss cfg)%nat -> is_op7 h = true ->
  let w1 := snd (run_hop pl cfg sp orc h w0) in
  w_locked w1 = false -> stuck (w_st w1) cfg (s_save sp) = false -> all_up cfg orc_r (w_st w1) (s_save sp) ->
  w_core (break_lock w1) = w_core w1 /\
  exists mc c', evals (manage no_faults cfg sp orc_r) (w_core w1) (Ok mc) c' /\ served_ok cfg sp mc c' /\ k_locked c' = false.
Proof. exact crash_without_lock_recovers. Qed.

(** every crash point falls under one of the two theorems *)
Theorem S_crash_point_cases : forall pl cfg sp orc h w0,
  is_op7 h = true -> w_locked w0 = false ->
  let r := run_hop pl cfg sp orc h w0 in
  fst r = Dead ->
  exists new, w_log (snd r) = new ++ w_log w0 /\
    ((w_locked (snd r) = true /\
        (lock_calls new = [ev_lock_ok] \/ lock_calls new = [ev_unlock (Some EInjected); ev_lock_ok])) \/
     (w_locked (snd r) = false /\
        (lock_calls new = [] \/ lock_calls new = [ev_lock_failed] \/ lock_calls new = [ev_unlock None; ev_lock_ok]))).
Proof. exact crash_point_cases. Qed.
Close Scope N_scope.
Open Scope Z_scope.

(** the time bound (FileLock C08, both recovery theorems with C08_waiter_looks_again_within_poll): a
    waiter that sleeps is due within one poll interval; once its timer has fired and more than
    factor * interval has passed since the crash its own five steps make it the owner, in no time.
    So the lock can be had no later than factor * interval + poll after the crash. *)
Theorem S_recovery_within_poll : forall d, H_live d -> forall s0 t i cr u s ls s' w ec due,
  reach (cfg_repo d) any_label init s0 ->
  cs s0 t = CHolding i -> file s0 = Some i -> content s0 i = FileLock.Model.FMeta cr (Some u) ->
  step (cfg_repo d) s0 (LKill (cproc s0 t)) = Some s ->
  run (cfg_repo d) s ls = Some s' -> file s' = Some i ->
  cs s' w = CSleep ec due ->
  due <= now s' + file_lock_poll_interval /\
  (due <= now s' -> stale_after < now s' - now s0 ->
   exists s5, run (cfg_repo d) s' [LWake w; LTryCreate w; LOpenRead w; LRemove w; LTryCreate w] = Some s5 /\
              held_by s5 w /\ now s5 = now s').
Proof. exact fl_recovery_within_poll. Qed.

(** the new owner's Lock call returns as soon as its clock reading differs from the previous creation's
    (a modelling device of FileLock.Model: creation stamps are distinct) *)
Theorem S_recoverer_returns : forall d s w ec i,
  cs s w = CCreated ec i -> lastcreate s < now s ->
  exists s1, step (cfg_repo d) s (LWriteMeta w) = Some s1 /\ cs s1 w = CHolding i /\ file s1 = file s /\ now s1 = now s.
Proof. exact fl_owner_returns. Qed.

(** the side condition made precise: ONE recoverer.  If, at the state [s'] in which the waiter starts its
    break run, nobody else owns a lock file and nobody else has judged the dead file stale (no thread sits
    between its read and its os.Remove), then from the waiter's create on mutual exclusion holds again
    along every continuation in which no owner is killed. *)
Theorem S_single_recoverer_mutex : forall d, H_live d -> forall s' brk s3 s4 w ec,
  reach (cfg_repo d) any_label init s' ->
  run (cfg_repo d) s' brk = Some s3 -> same_but w s' s3 -> file s3 = None -> cs s3 w = CTry ec ->
  step (cfg_repo d) s3 (LTryCreate w) = Some s4 ->
  (forall t j, t <> w -> ~ owner s' t j) -> (forall t e, t <> w -> cs s' t <> CStale e) ->
  forall s5 t1 t2 i1 i2, reach (cfg_repo d) (live_ok (cfg_repo d)) s4 s5 ->
    cs s5 t1 = CHolding i1 -> cs s5 t2 = CHolding i2 -> t1 = t2.
Proof. exact fl_single_recoverer_mutex. Qed.
Print Assumptions S_single_recoverer_mutex.

(** R - two recoverers (the stale race, REPOSITORY configuration, H-live(2 s), every heartbeat on time):
    both waiters meet the hypotheses of the composed theorem in the same state [s'] - each can obtain the
    lock "by its own steps" - and a schedule that interleaves their steps, with no further kill and no
    Unlock, ends with both holding.  filestorage.go, comment above [type FileStorage] ("imperfect mutual
    exclusion if locks become stale") and the NOTE in Lock's stale branch. *)
Theorem S_two_recoverers_refuted :
  exists s0 s s' s9,
    reach (cfg_repo d2) any_label init s0 /\
    cs s0 0%nat = CHolding 0%nat /\ file s0 = Some 0%nat /\ content s0 0%nat = FileLock.Model.FMeta (Some 0) (Some 0) /\
    step (cfg_repo d2) s0 (LKill (cproc s0 0%nat)) = Some s /\
    run (cfg_repo d2) s race_after_kill = Some s' /\ file s' = Some 0%nat /\
    stale_after < now s' - now s0 /\ cs s' 1%nat = CTry 0 /\ cs s' 2%nat = CTry 0 /\
    run (cfg_repo d2) s' race_tail = Some s9 /\
    (forall p, ~ In (LKill p) race_tail) /\ ~ In (LUnlock 1%nat) race_tail /\
    cs s9 1%nat = CHolding 1%nat /\ cs s9 2%nat = CHolding 2%nat.
Proof. exact fl_two_recoverers_refuted. Qed.
Print Assumptions S_two_recoverers_refuted.

(** R - consequently the FileLock state after a crash has no abstraction to a Locker with ONE owner per
    key (the lock table [lks : key -> option owner] that Issuance's I_lock is about) *)
Theorem S_single_owner_abstraction_refuted :
  exists s, reach (cfg_repo d2) any_label init s /\
    ~ exists lk : option tid, forall t, (exists i, cs s t = CHolding i) <-> lk = Some t.
Proof. exact fl_single_owner_abstraction_refuted. Qed.
Close Scope Z_scope.
Open Scope N_scope.

(** R - what that does to C07's "a single fault-free manage recovers": the Bundle model cannot state two
    concurrent recoverers (one lock bit, sequential operations).  Built by hand from its own [store]
    primitive: after a crash at the Lock call (recoverable for ONE recoverer), two recoverers renew with a
    fresh key each, neither crashes, no call fails, and the six Stores of their two saves interleave as
    key_A key_B crt_B meta_B crt_A meta_A - the result is C07's stuck class, and the next manage fails
    with the key mismatch.  One after the other the same saves are harmless. *)
Theorem S_single_manage_recovery_refuted_two_recoverers :
  fst (run_hop lockcall_plan Props.C07.w7_cfg Props.C07.w7_sp (Oracle [Some (20%Z, VFresh)] []) HManage Props.C07.w7_w0) = Dead /\
  w_locked w7n_w1 = true /\ stuck (w_st w7n_w1) Props.C07.w7_cfg 0 = false /\
  stuck (w_st (snd (saves_sequential (break_lock w7n_w1)))) Props.C07.w7_cfg 0 = false /\
  (let w2 := snd (saves_interleaved (break_lock w7n_w1)) in
   fst (saves_interleaved (break_lock w7n_w1)) = Ok tt /\ stuck (w_st w2) Props.C07.w7_cfg 0 = true /\
   dir_key (w_st w2) 0 0 = Some 2 /\ dir_crt (w_st w2) 0 0 = Some xA /\
   fst (manage no_faults Props.C07.w7_cfg Props.C07.w7_sp (Oracle [Some (30%Z, VFresh)] []) w2) = Fail EMismatch).
Proof. exact single_manage_recovery_refuted_two_recoverers. Qed.
Print Assumptions S_single_manage_recovery_refuted_two_recoverers.

(** non-vacuity of the composed theorem: C07's renewal witness with key reuse dies right after Storage
    call 11 (Store of the new .key, inside the bracket) / C08's recovery demo; and its conclusion (2) *)
Example S_crash_recovers_composed_satisfiable :
  exists s0 s s',
    H_live d2 /\
    reach6 Props.C07.w7r_cfg Props.C07.w7_sp (w_core Props.C07.w7r_w0) /\ k_ocsp (w_core Props.C07.w7r_w0) = [] /\
    canonical Props.C07.w7_sp /\ (1 <= n_iss Props.C07.w7r_cfg)%nat /\ is_op7 HManage = true /\
    fst (run_hop Props.C07.w7_plan Props.C07.w7r_cfg Props.C07.w7_sp (Oracle [Some (20%Z, VFresh)] []) HManage Props.C07.w7r_w0) = Dead /\
    w_locked Props.C07.w7r_w1 = true /\ stuck (w_st Props.C07.w7r_w1) Props.C07.w7r_cfg (s_save Props.C07.w7_sp) = false /\
    reach (cfg_repo d2) any_label init s0 /\ held_by s0 0%nat /\ file s0 = Some 0%nat /\
    step (cfg_repo d2) s0 (LKill (cproc s0 0%nat)) = Some s /\
    run (cfg_repo d2) s Props.C08.demo_after_kill = Some s' /\ file s' = Some 0%nat /\
    dead_file s0 s' 0%nat 0%nat 1%nat [LTryCreate 1%nat; LOpenRead 1%nat; LRemove 1%nat] /\
    exists s3 s4, run (cfg_repo d2) s' [LTryCreate 1%nat; LOpenRead 1%nat; LRemove 1%nat] = Some s3 /\
                  coupled (break_lock Props.C07.w7r_w1) s3 /\
                  step (cfg_repo d2) s3 (LTryCreate 1%nat) = Some s4 /\ held_by s4 1%nat.
Proof. exact crash_recovers_composed_hypotheses_satisfiable. Qed.

(** ... and the other way to die: AT the Lock call (Bundle: death after Storage call 7, the lock taken,
    nothing written; FileLock: killed between the O_EXCL create and the metadata write, the waiter at its
    retry limit 10 s later) *)
Example S_crash_at_lock_call_satisfiable :
  exists s0 s s',
    fst (run_hop lockcall_plan Props.C07.w7r_cfg Props.C07.w7_sp (Oracle [Some (20%Z, VFresh)] []) HManage Props.C07.w7r_w0) = Dead /\
    w_locked w7l_w1 = true /\ w_st w7l_w1 = w_st Props.C07.w7r_w0 /\
    (exists new, w_log w7l_w1 = new ++ w_log Props.C07.w7r_w0 /\ lock_calls new = [ev_lock_ok]) /\
    reach (cfg_repo d2) any_label init s0 /\ held_by s0 0%nat /\ file s0 = Some 0%nat /\
    step (cfg_repo d2) s0 (LKill (cproc s0 0%nat)) = Some s /\
    run (cfg_repo d2) s empty_after_kill = Some s' /\ file s' = Some 0%nat /\
    dead_file s0 s' 0%nat 0%nat 1%nat [LOpenRead 1%nat; LRemove 1%nat].
Proof. exact crash_at_lock_call_hypotheses_satisfiable. Qed.

(** ... and of S_single_recoverer_mutex: in C08's demo thread 1 is the only waiter *)
Example S_single_recoverer_satisfiable :
  exists s' s3 s4,
    reach (cfg_repo d2) any_label init s' /\
    run (cfg_repo d2) s' [LTryCreate 1; LOpenRead 1; LRemove 1]%nat = Some s3 /\ same_but 1%nat s' s3 /\
    file s3 = None /\ (exists ec, cs s3 1%nat = CTry ec /\ cs s4 1%nat = CCreated ec 1%nat) /\
    step (cfg_repo d2) s3 (LTryCreate 1%nat) = Some s4 /\
    (forall t j, t <> 1%nat -> ~ owner s' t j) /\ (forall t e, t <> 1%nat -> cs s' t <> CStale e).
Proof. exact fl_single_recoverer_hypotheses_satisfiable. Qed.
(** ... of S_recovery_within_poll: the waiter sleeps when the holder is killed; 10 s and a bit later its timer has fired *)
Example S_recovery_within_poll_satisfiable :
  exists s0 s s' ec due,
    run (cfg_repo d2) init Props.C08.demo_before_kill = Some s0 /\
    cs s0 0%nat = CHolding 0%nat /\ file s0 = Some 0%nat /\
    content s0 0%nat = FileLock.Model.FMeta (Some 0%Z) (Some lock_freshness_interval) /\
    step (cfg_repo d2) s0 (LKill (cproc s0 0%nat)) = Some s /\
    run (cfg_repo d2) s [LTick (stale_after + 1)%Z] = Some s' /\ file s' = Some 0%nat /\
    cs s' 1%nat = CSleep ec due /\ (due <= now s')%Z /\ (stale_after < now s' - now s0)%Z.
Proof. exact fl_recovery_within_poll_hypotheses_satisfiable. Qed.

(** ... and of the simulation diagram: a fresh world next to a fresh contender, the locked world next to a
    second contender and the holder *)
Example S_coupled_diagram_satisfiable :
  exists s s2 s3,
    run (cfg_repo d2) init [LStart 0%nat 0%nat] = Some s /\
    coupled empty_world s /\ w_locked empty_world = false /\ p_fail no_faults (w_cnt empty_world) = false /\
    cs s 0%nat = CTry 0 /\ (lastcreate s < now s)%Z /\
    run (cfg_repo d2) s [LTryCreate 0%nat; LWriteMeta 0%nat] = Some s2 /\
    step (cfg_repo d2) s2 (LStart 1%nat 1%nat) = Some s3 /\
    let w1 := snd (lock no_faults empty_world) in
    coupled w1 s3 /\ w_locked w1 = true /\ cs s3 1%nat = CTry 0 /\ cs s3 0%nat = CHolding 0%nat.
Proof. exact coupled_diagram_hypotheses_satisfiable. Qed.
(** all theorems and examples of this module *)
Definition S5_CrashRecover_all := (S_coupled_lock, S_coupled_lock_refused, S_coupled_unlock_kill_other, S_crash_recovers_composed, S_crash_without_lock_recovers, S_crash_point_cases, S_recovery_within_poll, S_recoverer_returns, S_single_recoverer_mutex, S_two_recoverers_refuted, S_single_owner_abstraction_refuted, S_single_manage_recovery_refuted_two_recoverers, S_crash_recovers_composed_satisfiable, S_crash_at_lock_call_satisfiable, S_single_recoverer_satisfiable, S_recovery_within_poll_satisfiable, S_coupled_diagram_satisfiable).
Print Assumptions S5_CrashRecover_all.
End S5_CrashRecover.

(* ------------------------------------------------------------------------------------------------ *)
Module S5_LockDiscipline.
Import ListNotations.
Import CM.System.CrashRecoverIssuance.

Module Iss.
Import CM.Issuance.Model CM.Issuance.Proofs CM.Issuance.Invariants.

(** Issuance (C01 / C09) as a trace property in the vocabulary shared with the Bundle log: projected on
    any one thread, every trace of every run (any number of threads, every schedule, every plan of error /
    cancel / panic faults) passes the bracket monitor [lev_ok]: acquisitions (OAcq granted) and release
    calls (OUnlock, successful or not) alternate, and Stores / Deletes on the bundle's keys happen only
    in between *)
Theorem S_issuance_traces_bracketed : forall cs st es s t,
  runs any_label (init_state cs st) es s -> lev_ok false (map (lev_of_iss t) es) = true.
Proof. exact issuance_traces_bracketed. Qed.
Print Assumptions S_issuance_traces_bracketed.

(** ... and at every such write the writer owns its lock key in the lock table (I_lock) *)
Theorem S_issuance_write_owns_lock : forall cs st s l s' e th,
  reachable cs st s -> step s l = Some (s', e) -> thread_at s (l_tid l) th ->
  lev_of_iss (l_tid l) e = EWrite ->
  locked (tpc th) = true /\ lks (sh s) (c_lk (cfg th)) = Some (l_tid l).
Proof. exact issuance_write_owns_lock. Qed.

(** what I_lock means for mutual exclusion: one thread per lock key inside the locked region; and the
    Locker's acquisition step is guarded by "nobody owns the key" - the step FileLock takes for the second
    recoverer in S_two_recoverers_refuted has no counterpart in the Issuance LTS, so C01's
    issue_spans_disjoint (proved from I_lock) does not transfer to FileStorage after a holder's death
    with two recovering waiters *)
Theorem S_I_lock_exclusive : forall s t1 t2 th1 th2,
  I_lock s -> thread_at s t1 th1 -> thread_at s t2 th2 ->
  locked (tpc th1) = true -> locked (tpc th2) = true -> c_lk (cfg th1) = c_lk (cfg th2) -> t1 = t2.
Proof. exact I_lock_exclusive. Qed.

Theorem S_locker_acquire_needs_free : forall t th s f b th' s' e,
  tstep t th s f b = Some (th', s', e) -> lev_of_iss t e = EAcq -> lks s (c_lk (cfg th)) = None.
Proof. exact locker_acquire_needs_free. Qed.

Example S_issuance_bracket_nontrivial :
  let cs := [TCfg (PObtain false) 0 0 0 0 false false false false] in
  exists ls s es, run (init_state cs (fun _ => None)) ls = Some (s, es) /\
    In EWrite (map (lev_of_iss 0) es) /\ In EAcq (map (lev_of_iss 0) es) /\ In ERel (map (lev_of_iss 0) es) /\
    lev_ok false (map (lev_of_iss 0) es) = true.
Proof. exact issuance_bracket_nontrivial. Qed.
(** all theorems and examples of this module *)
Definition Iss_all := (S_issuance_traces_bracketed, S_issuance_write_owns_lock, S_I_lock_exclusive, S_locker_acquire_needs_free, S_issuance_bracket_nontrivial).
Print Assumptions Iss_all.
End Iss.

Module Bun.
Import CM.Bundle.Model CM.Bundle.Proofs CM.Bundle.Faults CM.System.CrashRecoverBundle CM.System.CrashRecoverAgree.
Open Scope N_scope.

(** Bundle (C06 / C07): the SAME monitor accepts the log segment of every obtain / renew / manage under
    every plan - failing calls at any indices, process death after any call - so Bundle's [with_lock] and
    Issuance's [locked] region are the same discipline ([lev_of_bundle]: Lock that succeeded = acquire,
    every Unlock call = release, Store / Delete on certificate files and site directories = write).
    [k_ocsp = []]: with a key-compromise revocation pending manage first quarantines the key OUTSIDE the
    lock (maintain.go forceRenew -> moveCompromisedPrivateKey); the Issuance LTS has no such operation. *)
Theorem S_bundle_log_bracketed : forall pl cfg sp orc h w0,
  is_op7 h = true -> k_ocsp (w_core w0) = [] -> w_locked w0 = false ->
  exists new, w_log (snd (run_hop pl cfg sp orc h w0)) = new ++ w_log w0 /\
              lev_ok false (map lev_of_bundle (rev new)) = true.
Proof. exact bundle_log_bracketed. Qed.
Print Assumptions S_bundle_log_bracketed.

(** obtain and renew: no hypothesis on revocations *)
Theorem S_bundle_obtain_renew_bracketed : forall pl cfg sp orc w0,
  w_locked w0 = false ->
  (exists new, w_log (snd (obtain pl cfg sp orc w0)) = new ++ w_log w0 /\ lev_ok false (map lev_of_bundle (rev new)) = true) /\
  (forall f, exists new, w_log (snd (renew pl cfg sp orc f w0)) = new ++ w_log w0 /\ lev_ok false (map lev_of_bundle (rev new)) = true).
Proof. exact bundle_obtain_renew_bracketed. Qed.

(** in every run that did not die the bracket is closed: the lock calls are none, one failed Lock, or
    Lock ok followed by one Unlock call *)
Theorem S_bundle_bracket_closed : forall pl cfg sp orc h w0,
  is_op7 h = true -> w_locked w0 = false -> fst (run_hop pl cfg sp orc h w0) <> Dead ->
  exists new, w_log (snd (run_hop pl cfg sp orc h w0)) = new ++ w_log w0 /\
    (lock_calls new = [] \/ lock_calls new = [ev_lock_failed] \/
     exists e, lock_calls new = [ev_unlock e; ev_lock_ok]).
Proof. exact bundle_bracket_closed. Qed.

Example S_bundle_log_bracketed_nontrivial :
  let new := w_log (snd (run_hop no_faults agree_cfg agree_sp (Oracle [Some (20%Z, VFresh)] []) HManage agree_w0)) in
  k_ocsp (w_core agree_w0) = [] /\ w_locked agree_w0 = false /\
  In EWrite (map lev_of_bundle (rev new)) /\ In EAcq (map lev_of_bundle (rev new)) /\ In ERel (map lev_of_bundle (rev new)) /\
  lev_ok false (map lev_of_bundle (rev new)) = true.
Proof. exact bundle_log_bracketed_nontrivial. Qed.
(** all theorems and examples of this module *)
Definition Bun_all := (S_bundle_log_bracketed, S_bundle_obtain_renew_bracketed, S_bundle_bracket_closed, S_bundle_log_bracketed_nontrivial).
Print Assumptions Bun_all.
End Bun.
End S5_LockDiscipline.

(* ================================================================================================ *)
(* scopes opened by the previous part do not reach this one *)
Close Scope N_scope. Close Scope Z_scope. Close Scope positive_scope. Close Scope string_scope. Close Scope char_scope.

(** ===== S6: Issuance (C01/C09) <=> Bundle (C06/C07): two independent models of the same Go code
    agree on their overlap =====
    Files: System/IssBundle.v (vocabulary, translation, obtain), IssBundle2.v (renew), IssBundle3.v
    (manage), IssBundle4.v (combined statement, DisableStorageCheck, examples, witnesses),
    IssBundle5-7.v (differing spellings).
    The fragment is wrapped in a module: Issuance.Model and Bundle.Model share many names (they are
    only ever used qualified, as [I.] and [B.]). *)
From Coq Require Import List Bool Arith NArith ZArith.
From CM Require Issuance.Model Bundle.Model.
From CM Require System.IssBundle System.IssBundle2 System.IssBundle3 System.IssBundle4
                System.IssBundle5 System.IssBundle6 System.IssBundle7.

Module S6.
Import ListNotations.
Import CM.System.IssBundle CM.System.IssBundle2 CM.System.IssBundle3 CM.System.IssBundle4
       CM.System.IssBundle5 CM.System.IssBundle6 CM.System.IssBundle7.

(** Reading aid.  [agree k x c st] (System/IssBundle.v) says, for Issuance request configuration [c],
    initial storage [st], fault plan [k] ([None]: no fault; [Some i]: the Storage / lock call with
    index [i] fails -- Issuance: fault [FErr] on the transition that makes the i-th call, Bundle:
    [p_fail i]) and [x] (Bundle classifies a certificate that Issuance calls "due" as in its renewal
    window / as expired):
      1. [iss_trace k c st = bun_trace k x c st]: the events of Issuance's complete single-thread run
         (thread 0 alone, deterministic schedule, from [init_state [c] st]; Emit / IssueStart /
         IssueEnd dropped, OLock+OAcq = one Lock) are, call by call with outcomes, the call log of
         Bundle's [obtain] / [renew] / [manage] run on the translated configuration and storage;
      2. both finish and return the same ok / error;
      3. the three files of the name end with the same (translated) content;
      4. the lock ends in the same state (held only if the Unlock call itself failed).
    [sto_of h rest]: the storage whose three files of name class 0 are given by the shape [h] (each
    absent, or present with an arbitrary value of its type) and every other key by [rest]. *)

(** Issuance.Model [PObtain false] <=> Bundle.Model [obtain]: for EVERY fault plan (none, or one
    error at any call index), ReusePrivateKeys on/off, every shape of the three files with arbitrary
    key / certificate / metadata numbers, any other storage content. *)
Theorem S_iss_bundle_obtain_agree : forall k x idn reuse force issdue h rest,
  agree k x (mk_cfg (I.PObtain false) idn reuse force issdue) (sto_of h rest).
Proof. exact obtain_agrees. Qed.
Print Assumptions S_iss_bundle_obtain_agree.

(** Issuance.Model [PRenew false] <=> Bundle.Model [renew force]: the same, forced and not, the stored
    certificate due or not. *)
Theorem S_iss_bundle_renew_agree : forall k x idn reuse force issdue h rest,
  agree k x (mk_cfg (I.PRenew false) idn reuse force issdue) (sto_of h rest).
Proof. exact renew_agrees. Qed.
Print Assumptions S_iss_bundle_renew_agree.

(** Issuance.Model [PManage] <=> Bundle.Model [manage] (the ManageSync path: load + staple; if absent
    obtain and load; if due renew and reload): every fault plan, every shape (files present/absent,
    key matches the certificate or not, due or not) -- with REPRESENTATIVE key numbers (stored key 1,
    certificate for key 1 or 2, fresh keys from 0), because the key-matches-leaf comparison of two
    universally quantified numbers does not compute; certificate and metadata numbers arbitrary. *)
Theorem S_iss_bundle_manage_agree : forall k x idn reuse force issdue pk pc hm rest,
  agree k x (mk_cfg I.PManage idn reuse force issdue) (sto_of (rep_shape pk pc hm) rest).
Proof. exact manage_agrees. Qed.
Print Assumptions S_iss_bundle_manage_agree.

(** the same for ARBITRARY key numbers, on the storages where the comparison only ever sees the
    freshly generated key: the bundle is incomplete and not (ReusePrivateKeys with a stored key). *)
Theorem S_iss_bundle_manage_agree_ids : forall k x idn reuse force issdue h rest,
  (h_key h = None \/ h_crt h = None \/ h_meta h = None) -> (reuse = false \/ h_key h = None) ->
  agree k x (mk_cfg I.PManage idn reuse force issdue) (sto_of h rest).
Proof. exact manage_agrees_ids. Qed.

(** the three together, on Issuance's own configuration record: [overlap c] = sync obtain / sync renew /
    ManageSync, lock / pre-check / load+save name class 0 (canonical spelling), storage check enabled. *)
Theorem S_iss_bundle_overlap_agree : forall k x c h rest,
  overlap c = true ->
  (I.c_prog c = I.PManage ->
     (exists pk pc hm, h = rep_shape pk pc hm) \/
     (incomplete h /\ (I.c_reuse c = false \/ h_key h = None))) ->
  agree k x c (sto_of h rest).
Proof. exact overlap_agrees. Qed.

(** the Issuance side of every comparison IS a run of the LTS: [run] from [init_state [c] st] along a
    label list that only moves thread 0, never uses the choice bit, and injects no fault when k = None *)
Theorem S_iss_bundle_is_lts_run : forall k c st, exists ls,
  I.run (I.init_state [c] st) ls = Some (iss_final k c st, snd (iss_run k c st)) /\
  Forall (fun l => I.l_tid l = 0 /\ I.l_bit l = false /\ (k = None -> I.l_fault l = I.FNone)) ls.
Proof. exact ex_is_run. Qed.

(** every typed storage is pointwise a [sto_of] (so the shapes cover all well-formed storages) *)
Theorem S_iss_bundle_shapes_cover : forall st, typed0 st -> forall k, st k = sto_of (shape_of st) st k.
Proof. exact typed_is_shape. Qed.

(** DisableStorageCheck (Issuance [c_chk = false]; Bundle has no such switch, config.go:1185): fault-free,
    Issuance's trace is Bundle's trace minus the three scratch-key calls; result, files, lock agree. *)
Theorem S_iss_bundle_nochk_obtain : forall x idn reuse force issdue h rest,
  agree_nochk x (mk_cfg_nochk (I.PObtain false) idn reuse force issdue) (sto_of h rest).
Proof. exact nochk_obtain_agrees. Qed.
Theorem S_iss_bundle_nochk_renew : forall x idn reuse force issdue h rest,
  agree_nochk x (mk_cfg_nochk (I.PRenew false) idn reuse force issdue) (sto_of h rest).
Proof. exact nochk_renew_agrees. Qed.
Theorem S_iss_bundle_nochk_manage : forall x idn reuse force issdue pk pc hm rest,
  agree_nochk x (mk_cfg_nochk I.PManage idn reuse force issdue) (sto_of (rep_shape pk pc hm) rest).
Proof. exact nochk_manage_agrees. Qed.
(** ... and literally the traces differ *)
Theorem S_iss_bundle_nochk_literal_refuted : exists c st,
  I.c_chk c = false /\ iss_trace None c st <> bun_trace None false c st.
Proof. exact nochk_literal_refuted. Qed.

(** Beyond the canonical spelling: requested name class 0 (pre-check, key reuse), certificate name
    class 1 (load, save) -- Issuance [c_pk <> c_vk], Bundle [s_pre <> s_load = s_save]; [agree2] is
    [agree] with the files of both classes.  obtain: every fault plan; renew, manage: fault-free. *)
Theorem S_iss_bundle_obtain_agree_spelling : forall k x idn reuse force issdue h0 h1 rest,
  agree2 k x (mk_cfg2 (I.PObtain false) idn reuse force issdue) (sto_of2 h0 h1 rest).
Proof. exact obtain_agrees_spelling_faults. Qed.
Theorem S_iss_bundle_renew_agree_spelling : forall x idn reuse force issdue h0 h1 rest,
  agree2 None x (mk_cfg2 (I.PRenew false) idn reuse force issdue) (sto_of2 h0 h1 rest).
Proof. exact renew_agrees_spelling. Qed.
Theorem S_iss_bundle_manage_agree_spelling : forall x idn reuse force issdue (pk0 : bool) hc0 hm0 pk pc hm rest,
  agree2 None x (mk_cfg2 I.PManage idn reuse force issdue)
         (sto_of2 (Shape (if pk0 then Some 3 else None) hc0 hm0) (rep_shape pk pc hm) rest).
Proof. exact manage_agrees_spelling. Qed.

(** FINDINGS: where the models do NOT agree (all outside the typed, uncontended overlap).
    Ill-typed files -- neither model is uniformly right:
    R1 renew, .crt does not parse: Go renews (config.go:1268-1271); Issuance renews; Bundle fails. *)
Theorem S_iss_bundle_junk_crt_renew_refuted : exists c st x,
  overlap c = true /\
  iss_result (iss_final None c st) = Some true /\ fst (bun_run None x c st) = Some false /\
  length (iss_trace None c st) = 11 /\ length (bun_trace None x c st) = 8.
Proof. exact junk_crt_renew_refuted. Qed.
(** R2 renew, .json does not parse: Go fails (crypto.go:263-266); Bundle fails; Issuance renews. *)
Theorem S_iss_bundle_junk_meta_renew_refuted : exists c st x,
  overlap c = true /\
  iss_result (iss_final None c st) = Some true /\ fst (bun_run None x c st) = Some false.
Proof. exact junk_meta_renew_refuted. Qed.
(** R3 obtain with ReusePrivateKeys, .key does not decode: Go fails (config.go:730-733); Bundle fails;
    Issuance issues. *)
Theorem S_iss_bundle_junk_key_reuse_obtain_refuted : exists c st x,
  overlap c = true /\
  iss_result (iss_final None c st) = Some true /\ fst (bun_run None x c st) = Some false.
Proof. exact junk_key_reuse_obtain_refuted. Qed.
(** R4 renew without ReusePrivateKeys, .key does not decode: Go never decodes it (config.go:845-849) and
    succeeds; Issuance succeeds; Bundle fails. *)
Theorem S_iss_bundle_junk_key_renew_refuted : exists c st x,
  overlap c = true /\
  iss_result (iss_final None c st) = Some true /\ fst (bun_run None x c st) = Some false.
Proof. exact junk_key_renew_refuted. Qed.
(** R5 the lock is held by somebody else: Go blocks in Storage.Lock (storage.go:285-293); Issuance waits
    at PLockWait; Bundle's [lock] fails at once and the request returns an error. *)
Theorem S_iss_bundle_busy_lock_refuted : exists c st,
  overlap c = true /\
  (exists th, I.thr (snd (fst (iss_run_busy c st))) = [th] /\ I.tpc th = I.PLockWait) /\
  iss_result (snd (fst (iss_run_busy c st))) = None /\
  b_ok (fst (B.obtain B.no_faults (tr_config c) (tr_subject c) (tr_oracle false c)
                      (B.World (B.Core [] [] true 0 0) 0 []))) = Some false.
Proof. exact busy_lock_refuted. Qed.
Print Assumptions S_iss_bundle_junk_crt_renew_refuted.
Print Assumptions S_iss_bundle_junk_meta_renew_refuted.

(** Satisfiability / non-trivial runs: an obtain with key reuse (11 calls; both traces spelled out), a
    storeTx roll-back under a fault, a forced renewal, a ManageSync that renews (19 calls), one that
    obtains (15 calls), the spelling defect re-issuing, the roll-back deleting an older key file. *)
Example S_iss_bundle_ex_manage_renews :
  length (iss_trace None (mk_cfg I.PManage 5 false false false)
                    (sto_of (rep_shape true (Some (7, true, true)) (Some 7)) ex_none)) = 19 /\
  overlap (mk_cfg I.PManage 5 false false false) = true.
Proof. split; vm_compute; reflexivity. Qed.
Example S_iss_bundle_ex_obtain_rollback :
  iss_trace (Some 8) (mk_cfg (I.PObtain false) 5 false false false) (sto_of (Shape None None None) ex_none) =
  [Call CExists (TgFile 0 I.KCrt) COk;
   Call CStore TgScratch COk; Call CLoad TgScratch COk; Call CDelete TgScratch COk;
   Call CLock TgLock COk;
   Call CExists (TgFile 0 I.KCrt) COk;
   Call CStore (TgFile 0 I.KKey) COk; Call CStore (TgFile 0 I.KCrt) COk; Call CStore (TgFile 0 I.KMeta) CErr;
   Call CDelete (TgFile 0 I.KCrt) COk; Call CDelete (TgFile 0 I.KKey) COk;
   Call CUnlock TgLock COk].
Proof. exact (proj1 ex_obtain_rollback). Qed.
Example S_iss_bundle_ex_rollback_deletes_old_key :
  I.sto (I.sh (iss_final (Some 7) ex_c ex_st)) (I.SK 1 I.KKey) = None /\
  B.sget (B.w_st (snd (bun_run2 (Some 7) false ex_c ex_st))) (0, 1%N, B.FKey) = None /\
  iss_result (iss_final (Some 7) ex_c ex_st) = Some false /\
  ex_st (I.SK 1 I.KKey) = Some (I.VKey 3).
Proof. exact ex_rollback_deletes_old_key. Qed.
(** the hypotheses of [S_iss_bundle_manage_agree_ids] / [S_iss_bundle_overlap_agree] are met: a lone
    certificate file with arbitrary numbers, no key reuse; the run obtains (17 calls) *)
Example S_iss_bundle_ex_ids_hypotheses : forall ci ck cd,
  let h := Shape None (Some (I.Cert ci ck cd)) None in
  (h_key h = None \/ h_crt h = None \/ h_meta h = None) /\ (false = false \/ h_key h = None) /\
  overlap (mk_cfg I.PManage 5 false false false) = true /\
  length (iss_trace None (mk_cfg I.PManage 5 false false false) (sto_of h ex_none)) = 17.
Proof.
  intros ci ck cd h. split; [left; reflexivity|]. split; [left; reflexivity|].
  split; vm_compute; reflexivity.
Qed.
(** all theorems and examples of this module *)
Definition S6_all := (S_iss_bundle_obtain_agree, S_iss_bundle_renew_agree, S_iss_bundle_manage_agree, S_iss_bundle_manage_agree_ids, S_iss_bundle_overlap_agree, S_iss_bundle_is_lts_run, S_iss_bundle_shapes_cover, S_iss_bundle_nochk_obtain, S_iss_bundle_nochk_renew, S_iss_bundle_nochk_manage, S_iss_bundle_nochk_literal_refuted, S_iss_bundle_obtain_agree_spelling, S_iss_bundle_renew_agree_spelling, S_iss_bundle_manage_agree_spelling, S_iss_bundle_junk_crt_renew_refuted, S_iss_bundle_junk_meta_renew_refuted, S_iss_bundle_junk_key_reuse_obtain_refuted, S_iss_bundle_junk_key_renew_refuted, S_iss_bundle_busy_lock_refuted, S_iss_bundle_ex_manage_renews, S_iss_bundle_ex_obtain_rollback, S_iss_bundle_ex_rollback_deletes_old_key, S_iss_bundle_ex_ids_hypotheses).
Print Assumptions S6_all.
End S6.

(* ================================================================================================ *)
(* scopes opened by the previous part do not reach this one *)
Close Scope N_scope. Close Scope Z_scope. Close Scope positive_scope. Close Scope string_scope. Close Scope char_scope.

(** ===== S7: the models of Config.GetCertificate / getCertDuringHandshake (handshake.go) connected =====
    Files: System/HandshakeCompose.v (Lookup C03 <-> Handshake C02, over the C12 cache),
           System/HandshakeComposeSF.v (SingleFlight C13 <-> Handshake C02),
           System/HandshakeComposeRenew.v (Renewal C04 underneath Handshake C02).
    Lookup.Model, Cache.Model, Handshake.Model, SingleFlight.Model and Maintain.Model share identifiers
    ([cert], [name], [state], [step], [run], [result], [RErr], [qualifies], [almost_full] ...): the fragment is a
    module, the Handshake / SingleFlight names are used qualified ([H.], [SF.]). *)
From CM Require Import Lib.Str.
From CM Require Gen.Consts Cache.Model Cache.AMapFacts Cache.Proofs Lookup.Model Lookup.Proofs
  Handshake.Model Handshake.Proofs SingleFlight.Model SingleFlight.Proofs
  Renewal.Model Renewal.Proofs Renewal.F64 Renewal.F64Proofs Props.C02
  System.CacheHandshake System.RenewMaintain
  System.HandshakeComposeBase System.HandshakeCompose System.HandshakeComposeSF System.HandshakeComposeRenew.
From Coq Require Import List ZArith NArith Bool Arith.

Module S7.
Module H := CM.Handshake.Model.
Module SF := CM.SingleFlight.Model.

(** ---------- (A) Lookup (C03) <-> Handshake (C02), on a C12 cache ---------- *)
Module A.
Import CM.Cache.Model CM.Cache.Proofs CM.Lookup.Model CM.System.CacheHandshake CM.System.HandshakeCompose.
Import ListNotations.

(** CONSISTENCY ON THE OVERLAP (Lookup.Model <-> Handshake.Model; both model getCertDuringHandshake).
    [eh]/[dh]: encoding of the handshake model's numeric identities as C12 hashes, with a decoder.
    [RH eh names_of cap w s] (S34): the world's cache is the C12 state [s] seen through [hconc], and [s]
    satisfies C12's invariant.  Lookup's [lookup] COMPUTES the cache lookup and takes "IDNA error /
    SubjectQualifiesForCert / what loadCertFromStorage yields when the cache is almost full" as oracles
    ([env]); Handshake's [handshake] COMPUTES those and takes the cache lookup's answer as an oracle
    ([h_hit], [h_default]).  With each oracle instantiated by what the other model computes
    ([hello_of (from_cache ..)], [env_of_handshake w h]) and cfg.OnDemand == nil, the two models give the same
    answer — the same certificate, or both an error — for every cache content, ClientHello,
    configuration, storage content and capacity. *)
Theorem S_od_off_handshake_is_lookup :
  forall (eh : N -> hash) (dh : hash -> N), (forall i, dh (eh i) = i) ->
  forall (names_of : hash -> list name) (lower : N -> N) (is_space : N -> bool) (sup valid : hash -> bool)
    cap (w : hworld) (s : state) (cfg : config) (sni ip : str) nm m ok vanish own kids res w',
  RH eh names_of cap w s -> H.w_cap w = cap -> H.w_od w = None ->
  let fc := from_cache lower is_space sup valid s cfg sni ip in
  let h := hello_of dh fc nm m ok vanish in
  H.handshake is_space w h = (own, kids, res, w') ->
  res_rel eh res (lookup lower is_space sup valid s cap cfg sni ip (env_of_handshake eh is_space w h)).
Proof. intros eh dh Hd names_of. exact (od_off_handshake_is_lookup eh dh Hd names_of). Qed.
Print Assumptions S_od_off_handshake_is_lookup.

(** the two models read cacheAlmostFull's factor through two different translator constants; on
    related states the two tests agree *)
Theorem S_almost_full_agree : forall eh names_of cap w s,
  RH eh names_of cap w s -> H.w_cap w = cap ->
  H.almost_full w = almost_full cap (length (cache s)).
Proof. exact almost_full_agree. Qed.

(** COMPOSITION (C02's theorem with C03's lookup on C12's cache), on-demand enabled.  For the hello whose
    cache answer is what [from_cache] computes on the C12 state:
    (1) C02_gated: in every goroutine of the handshake every Issuer.Issue for m is preceded by a most recent
        yes of the policy about m itself; every bundle read m by a most recent yes about a qualifying y,
        m being y, y's wildcard variant, or [hk]; every y is the handshake's name, its wildcard variant or [hk]
        — where [hk] is now the first subject of the certificate the REAL lookup matched;
    (2) C03 through C12: that matched certificate is really in the cache, under a listed name that covers
        the SNI (or is the local IP when there is no SNI); it is what the handshake serves, without policy,
        storage or issuer activity of its own, unless it is managed and due / revoked;
    (3) nothing matched: there is no third bundle key. *)
Theorem S_on_demand_end_to_end :
  forall (eh : N -> hash) (dh : hash -> N), (forall i, dh (eh i) = i) ->
  forall (names_of : hash -> list name) (lower : N -> N) (is_space : N -> bool) (sup valid : hash -> bool)
    cap (w : hworld) (s : state) (cfg : config) (sni ip : str) nm m ok vanish own kids res w',
  RH eh names_of cap w s -> H.store_wf w -> H.od_on w = true ->
  let fc := from_cache lower is_space sup valid s cfg sni ip in
  let h := hello_of dh fc nm m ok vanish in
  let hk := lookup_hit_key fc in
  H.handshake is_space w h = (own, kids, res, w') ->
  (forall g, In g (own :: kids) -> forall i x, nth_error g i = Some x ->
     (forall mm, x = H.EIssue mm -> H.qualifies is_space mm = true /\ CM.Props.C02.covered_by_yes mm g i) /\
     (forall mm, x = H.ELoad mm -> exists n y, nm = Some n /\ H.qualifies is_space y = true /\
        CM.Props.C02.covered_by_yes y g i /\ H.load_ok hk y mm = true /\ In y (H.cands n hk))) /\
  (forall cc v, fc = Some (cc, true, v) ->
     alookup (c_hash cc) (cache s) = Some cc /\ In v (c_names cc) /\
     (let n := normalize lower is_space sni in (n <> [] /\ covers v n) \/ (n = [] /\ v = ip)) /\
     exists c : hcert, hconc eh c = cc /\ H.cache_find (h_id c) w = Some c /\
       (H.c_managed c && (H.due c || H.c_revoked c) = false -> res = H.RCert (h_id c) /\ own = [])) /\
  ((forall cc v, fc <> Some (cc, true, v)) -> hk = None).
Proof. intros eh dh Hd names_of. exact (on_demand_end_to_end eh dh Hd names_of). Qed.

(** ... for every cache content the C12 operations can produce *)
Theorem S_on_demand_end_to_end_reachable :
  forall (eh : N -> hash) (dh : hash -> N), (forall i, dh (eh i) = i) ->
  forall (names_of : hash -> list name) (lower : N -> N) (is_space : N -> bool) (sup valid : hash -> bool)
    cap (ops : list op) (w : hworld) (cfg : config) (sni ip : str) nm m ok vanish own kids res w',
  Forall (wf_op names_of) ops ->
  let s := run cap init ops in
  map snd (cache s) = map (hconc eh) (w_cache w) -> H.store_wf w -> H.od_on w = true ->
  let fc := from_cache lower is_space sup valid s cfg sni ip in
  let h := hello_of dh fc nm m ok vanish in
  let hk := lookup_hit_key fc in
  H.handshake is_space w h = (own, kids, res, w') ->
  (forall g, In g (own :: kids) -> forall i x, nth_error g i = Some x ->
     (forall mm, x = H.EIssue mm -> H.qualifies is_space mm = true /\ CM.Props.C02.covered_by_yes mm g i) /\
     (forall mm, x = H.ELoad mm -> exists n y, nm = Some n /\ H.qualifies is_space y = true /\
        CM.Props.C02.covered_by_yes y g i /\ H.load_ok hk y mm = true /\ In y (H.cands n hk))) /\
  (forall cc v, fc = Some (cc, true, v) ->
     alookup (c_hash cc) (cache s) = Some cc /\ In v (c_names cc) /\
     (let n := normalize lower is_space sni in (n <> [] /\ covers v n) \/ (n = [] /\ v = ip)) /\
     exists c : hcert, hconc eh c = cc /\ H.cache_find (h_id c) w = Some c /\
       (H.c_managed c && (H.due c || H.c_revoked c) = false -> res = H.RCert (h_id c) /\ own = [])) /\
  ((forall cc v, fc <> Some (cc, true, v)) -> hk = None).
Proof. intros eh dh Hd names_of. exact (on_demand_end_to_end_reachable eh dh Hd names_of). Qed.
Print Assumptions S_on_demand_end_to_end_reachable.

(** (Handshake.Model alone, used above) a matched certificate that is not (managed and (due or revoked))
    is served as it is *)
Theorem S_hit_served_as_is : forall is_space w h id c own kids res w',
  H.h_hit h = Some id -> H.cache_find id w = Some c ->
  H.c_managed c && (H.due c || H.c_revoked c) = false ->
  H.handshake is_space w h = (own, kids, res, w') ->
  res = H.RCert (H.c_id c) /\ own = [].
Proof. exact hit_served_as_is. Qed.

(** hypotheses satisfiable (capacity 2, cache full: " A.x " matched; q.y loaded from storage; e.y's
    bundle expired -> fallback certificate; z.y -> fallback; IDNA error -> error; and an on-demand world
    with a due wildcard certificate) *)
Example S_od_off_agreement_satisfiable :
  RH heh y_names_of 2 y_w1 y_s1 /\ H.w_cap y_w1 = 2 /\ H.w_od y_w1 = None /\
  y_hs1 [32; 65; 46; 120; 32]%N (Some y_ax) = (H.RCert 0, ROk (hconc heh y_c0)) /\
  y_hs1 y_qy (Some y_qy) = (H.RCert 5, ROk (hconc heh (H.as_loaded y_b5))) /\
  y_hs1 y_ey (Some y_ey) = (H.RCert 1, ROk (hconc heh y_c1)) /\
  y_hs1 y_zy (Some y_zy) = (H.RCert 1, ROk (hconc heh y_c1)) /\
  y_hs1 y_zy None = (H.RErr 1, RErr).
Proof. exact od_off_agreement_satisfiable. Qed.
Example S_on_demand_end_to_end_satisfiable :
  Forall (wf_op y_names_of) y_ops2 /\
  map snd (cache y_s2) = map (hconc heh) (w_cache y_w2) /\ H.store_wf y_w2 /\ H.od_on y_w2 = true /\
  let fc := from_cache ascii_lower ascii_space (fun _ => true) (fun _ => true) y_s2 (Config [] []) y_qx [] in
  fc = Some (hconc heh y_c2, true, y_wx) /\
  lookup_hit_key fc = Some y_wx /\
  (let '(own, kids, r, _) := H.handshake ascii_space y_w2 (hello_of dheh fc (Some y_qx) H.MgrNone true false) in
   (own, kids, r)) = ([H.EExists y_wx], [[H.EDecision y_qx true; H.ELoad y_qx]], H.RCert 2) /\
  (let fc' := from_cache ascii_lower ascii_space (fun _ => true) (fun _ => true) y_s2 (Config [] []) y_ax [] in
   let '(own, kids, r, _) := H.handshake ascii_space y_w2 (hello_of dheh fc' (Some y_ax) H.MgrNone true false) in
   (own, kids, r)) = ([], [], H.RCert 0).
Proof. exact on_demand_end_to_end_satisfiable. Qed.
(** all theorems and examples of this module *)
Definition A_all := (S_od_off_handshake_is_lookup, S_almost_full_agree, S_on_demand_end_to_end, S_on_demand_end_to_end_reachable, S_hit_served_as_is, S_od_off_agreement_satisfiable, S_on_demand_end_to_end_satisfiable).
Print Assumptions A_all.
End A.

(** ---------- (B) SingleFlight (C13) <-> Handshake (C02) ---------- *)
Module B.
Import CM.System.HandshakeComposeSF.
Import ListNotations.
Local Open Scope nat_scope.

(** C02's MONITOR HOLDS OF C13's CONCURRENT MODEL (SingleFlight.Model <-> Handshake.Model).  SingleFlight has
    the policy as environment (label [AGate allow]); Handshake proves the gating theorem for one handshake
    run alone.  [eff] projects a step of a goroutine into Handshake's effect vocabulary, [run_log] runs the
    LTS keeping every goroutine's effects.  For every run (any number of goroutines, any interleaving,
    waits, wake-ups, re-entries, time-outs, storage / eviction interference) the effects of every goroutine
    pass [Handshake.Model.scan_ok], the boolean form of C02_gated.  ([nm]: the names handshakes arrive with
    qualify — SubjectQualifiesForCert is part of what [AGate] answers.) *)
Theorem S_concurrent_handshakes_pass_C02_monitor :
  forall (is_space : N -> bool) (nm : SF.name -> H.name), (forall n, H.qualifies is_space (nm n) = true) ->
  forall c0 s0 f0 ls s' lg',
  run_log nm (SF.init c0 s0 f0) (fun _ => []) ls = Some (s', lg') ->
  forall t th, SF.thr s' t = Some th ->
  H.scan_ok is_space (nm (SF.t_name th)) None (lg' t) = true.
Proof. exact concurrent_handshakes_pass_C02_monitor. Qed.

(** position by position: an Issuer.Issue / bundle read of a goroutine is about its own name and is
    preceded, in that goroutine, by a policy evaluation that answered yes and is its most recent one —
    leader or waiter, whatever the others did meanwhile *)
Theorem S_concurrent_issue_and_load_gated :
  forall (is_space : N -> bool) (nm : SF.name -> H.name), (forall n, H.qualifies is_space (nm n) = true) ->
  forall c0 s0 f0 ls s' lg',
  run_log nm (SF.init c0 s0 f0) (fun _ => []) ls = Some (s', lg') ->
  forall t th, SF.thr s' t = Some th ->
  forall i x, nth_error (lg' t) i = Some x -> H.needs_gate x = true ->
  let n := nm (SF.t_name th) in
  (x = H.EIssue n \/ x = H.ELoad n) /\ CM.Props.C02.covered_by_yes n (lg' t) i.
Proof. exact concurrent_issue_and_load_gated. Qed.
Print Assumptions S_concurrent_issue_and_load_gated.

(** the instrumented run is the LTS's run *)
Theorem S_run_log_is_run : forall nm s lg ls, option_map fst (run_log nm s lg ls) = SF.run s ls.
Proof. exact run_log_run. Qed.

(** RE-ENTRY OF A WAITER (getCertDuringHandshake(ctx, hello, false)): with the same cache seen by both
    models, no external managers and NO defaulted certificate, SingleFlight's [PStart false] and Handshake's
    [get_cert .. false] answer alike: the cached certificate, or an error whatever the policy says *)
Theorem S_reentry_agrees_without_default :
  forall (is_space : N -> bool) (nm : SF.name -> H.name) s t th w h fuel own kids res w',
  SF.thr s t = Some th -> SF.t_pc th = SF.PStart false ->
  same_lookup nm s (SF.t_name th) w h -> H.h_default h = None ->
  H.get_cert is_space fuel w h false = (own, kids, res, w') ->
  match SF.lookup (SF.cache s (SF.t_name th)) with
  | Some c =>
      (forall b, SF.step s (SF.LThread t (SF.AStep b)) =
                 Some (SF.set_thr s t (SF.set_pc th (SF.PRet (SF.RCert c))))) /\
      res_abs (SF.RCert c) res
  | None =>
      (forall b, SF.step s (SF.LThread t (SF.AStep b)) =
                 Some (SF.set_thr s t (SF.set_pc th (SF.PLoadReg false)))) /\
      (forall s1 th1 allow, SF.thr s1 t = Some th1 -> SF.t_pc th1 = SF.PGate1 false ->
         SF.step s1 (SF.LThread t (SF.AGate allow)) =
         Some (SF.set_thr s1 t (SF.set_pc th1 (SF.PRet SF.RErr)))) /\
      res_abs SF.RErr res
  end.
Proof. exact reentry_agrees_without_default. Qed.

(** FINDING (modelling gap of C13, not a code defect): with a certificate cached for DefaultServerName /
    FallbackServerName a re-entering waiter is served that certificate (handshake.go L398; Handshake.Model
    [fallback]); SingleFlight has no such certificate and answers an error in every state *)
Theorem S_reentry_default_certificate_refuted :
  exists (w : H.world) (h : H.hello) (d : N),
    hit_of w h = None /\ H.h_default h = Some d /\
    (let '(_, _, r, _) := H.get_cert (H.tbl_space []) H.fuel0 w h false in r) = H.RCert d /\
    forall s t th allow, SF.t_pc th = SF.PGate1 false ->
      SF.thread_step s t th (SF.AGate allow) = Some (SF.set_thr s t (SF.set_pc th (SF.PRet SF.RErr))).
Proof. exact reentry_default_certificate_refuted. Qed.
Print Assumptions S_reentry_default_certificate_refuted.

(** FINDING (known abstraction of C13, now a theorem): the bundle loaded right after an obtain is handed back
    as it is by SingleFlight; Handshake.Model — and handshake.go L586, loadCertFromStorage inside
    obtainOnDemandCertificate, fix a768045 — maintains it: an expired bundle another instance stored
    meanwhile is served by (F), an error in (H) *)
Theorem S_obtain_load_unmaintained_refuted :
  option_map (fun s => option_map SF.t_pc (SF.thr s 0)) (SF.run (SF.init (fun _ => []) (fun _ => None) 1) x_run)
    = Some (Some (SF.PDone (SF.RCert x_expired_sf))) /\
  (let '(e, _, r, _) := H.obtain_on_demand (H.load_and_maintain (H.tbl_space []) H.fuel0) x_world x_hello x_name in (e, r))
    = ([H.EExists x_name; H.ELoad x_name; H.EExists x_name], H.MErr).
Proof. exact obtain_load_unmaintained_refuted. Qed.

(** hypotheses satisfiable: names that qualify; a two-goroutine run (worker obtains, waiter re-enters) with
    its logs; the re-entry hypotheses at the waiter's wake-up *)
Example S_names_qualify : forall n, H.qualifies x_sp (x_nm n) = true.
Proof. exact x_nm_qual. Qed.
Example S_concurrent_monitor_satisfiable :
  option_map (fun p => (snd p 0, snd p 1, option_map SF.t_pc (SF.thr (fst p) 0), option_map SF.t_pc (SF.thr (fst p) 1)))
    (run_log x_nm (SF.init (fun _ => []) (fun _ => None) 1) (fun _ => []) x_run2)
  = Some ([H.EDecision (x_nm 0) true; H.ELoad (x_nm 0); H.EIssue (x_nm 0); H.ELoad (x_nm 0)], [],
          Some (SF.PDone (SF.RCert (SF.Cert 1 SF.Valid false))),
          Some (SF.PDone (SF.RCert (SF.Cert 1 SF.Valid false)))).
Proof. exact concurrent_monitor_satisfiable. Qed.

Example S_reentry_satisfiable :
  let s := match SF.run (SF.init (fun _ => []) (fun _ => None) 1) (firstn 14 x_run2) with Some s => s | None => SF.init (fun _ => []) (fun _ => None) 1 end in
  let w := H.World (Some (H.PDecision (fun _ _ => true))) 0 [H.Cert 1%N [x_nm 0] true false false false false None] [] 1 2%N in
  let h := H.Hello (Some (x_nm 0)) (Some 1%N) None H.MgrNone true false in
  option_map SF.t_pc (SF.thr s 1) = Some (SF.PStart false) /\
  SF.lookup (SF.cache s 0) = Some (SF.Cert 1 SF.Valid false) /\
  same_lookup x_nm s 0 w h /\ H.h_default h = None /\
  (let '(_, _, r, _) := H.get_cert x_sp H.fuel0 w h false in r) = H.RCert 1%N.
Proof. exact reentry_satisfiable. Qed.

(** ONE HANDSHAKE RUN ALONE: CONSISTENCY ON THE OVERLAP (SingleFlight.Model <-> Handshake.Model).  [sf_lone]: goroutine 0
    arrives in the LTS state with per-name cache [oc] (at most one certificate), storage [os], nobody else, and
    is driven by the actual [SF.thread_step] with the policy answers and the issuer outcome to [PDone]
    ([S_lone_is_a_run]: that is a run of the LTS).  [h_res]: [Handshake.Model.handshake] on the abstracted world, where
    a certificate's identity is its ROLE (cached 1; stored 2, or 1 if it is the cached certificate's own bundle;
    freshly issued 3).  For every generation number, class (valid / due / expired), revocation flag, policy
    answers and issuer outcome the two models answer with the same certificate (by role), or both with an error. *)
Theorem S_lone_run_agrees : forall (oc os : option SF.cert) (same : bool) (fr : nat) (a b : bool) (rest : list bool)
    (o : SF.outcome),
  r_agree oc os same fr (sf_lone oc os fr (a :: b :: rest) o) (h_res oc os same (a :: b :: rest) o).
Proof. exact lone_run_agrees. Qed.
Print Assumptions S_lone_run_agrees.
Theorem S_lone_is_a_run : forall fuel s t b gs o r, lone fuel s t b gs o = Some r ->
  exists ls s' th, SF.run s ls = Some s' /\ SF.thr s' t = Some th /\ SF.t_pc th = SF.PDone r /\
    Forall (fun l => exists a, l = SF.LThread t a) ls.
Proof. exact lone_is_a_run. Qed.

(** complement (an exhaustive computation with concrete generations, also with two certificates cached at once —
    [lookup] is DefaultCertificateSelector's choice —: 1680 combinations) *)
Example S_lone_runs_agree_on_the_abstract_space :
  forallb (fun l => forallb (fun st => forallb (fun gs => forallb (fun o => lone_case l st gs o)
    all_outcomes) all_gates) all_stores) all_caches = true.
Proof. exact lone_runs_agree_on_the_abstract_space. Qed.
(** all theorems and examples of this module *)
Definition B_all := (S_concurrent_handshakes_pass_C02_monitor, S_concurrent_issue_and_load_gated, S_run_log_is_run, S_reentry_agrees_without_default, S_reentry_default_certificate_refuted, S_obtain_load_unmaintained_refuted, S_names_qualify, S_concurrent_monitor_satisfiable, S_reentry_satisfiable, S_lone_run_agrees, S_lone_is_a_run, S_lone_runs_agree_on_the_abstract_space).
Print Assumptions B_all.
End B.

(** ---------- (C) Renewal (C04) underneath Handshake (C02) ---------- *)
Module C.
Import CM.Renewal.Model CM.System.HandshakeComposeRenew.
Import ListNotations.
Notation due_b := CM.System.RenewMaintain.due_b.
Notation due_reason := CM.System.RenewMaintain.due_reason.
Notation nothing_due := CM.System.RenewMaintain.nothing_due.
Notation fresh_inputs := CM.System.RenewMaintain.fresh_inputs.
Local Open Scope Z_scope.

(** Handshake.Model's bits [c_due] (certNeedsRenewal, handshake.go L612) and [c_expired] (timeLeft <= 0,
    L729) instantiated by C04: [timed scale c i rnd now].  The model ASSUMES "expired implies due" (it
    uses [c_due || c_expired] where the code asks certNeedsRenewal only); C04 proves it
    (renew_when_expired), so the model's [due] IS C04's decision (Renewal.Model <-> Handshake.Model) *)
Theorem S_handshake_due_is_C04_decision : forall scale c i rnd now,
  timed scale c i rnd now -> 0 < interval i -> H.due c = due_b scale i rnd now.
Proof. exact due_is_C04_decision. Qed.
Print Assumptions S_handshake_due_is_C04_decision.

(** the model's freshly issued certificate (not due, not expired: what cuts the cycle load -> maintenance
    -> obtain -> load) carries C04's verdict for inputs that are fresh at the instant *)
Theorem S_handshake_fresh_cert_is_C04_fresh : forall scale, CM.Renewal.Proofs.scale_spec scale ->
  forall w n i rnd now, fresh_inputs i now -> admissible i rnd -> timed scale (H.fresh_cert w n) i rnd now.
Proof. exact fresh_cert_is_C04_fresh. Qed.

(** C04 says wait (C04_wait_when_nothing_due) => the matched certificate is served, and the handshake
    goroutine touches neither policy, storage nor issuer *)
Theorem S_not_due_certificate_served_untouched : forall scale, CM.Renewal.Proofs.scale_spec scale ->
  forall is_space w h id c i rnd now own kids res w',
  H.h_hit h = Some id -> H.cache_find id w = Some c ->
  timed scale c i rnd now -> nothing_due i rnd now -> H.c_revoked c = false ->
  H.handshake is_space w h = (own, kids, res, w') ->
  res = H.RCert (H.c_id c) /\ own = [].
Proof. exact not_due_certificate_served_untouched. Qed.

(** C04 says renew (any of the four clauses of C04_renew_when_due), not expired: served at once; the renewal
    is one background goroutine that begins with the policy evaluation about the handshake's name *)
Theorem S_due_certificate_served_and_renewed_in_background : forall scale, CM.Renewal.Proofs.scale_spec scale ->
  forall is_space w h id c n i rnd now own kids res w',
  H.h_hit h = Some id -> H.cache_find id w = Some c -> H.h_name h = Some n ->
  H.c_managed c = true -> H.od_on w = true -> H.c_revoked c = false -> H.c_ari c = None ->
  H.store_has (H.name0 c) w = true ->
  timed scale c i rnd now -> due_reason i rnd now -> now < spec_expiry (not_after i) ->
  H.handshake is_space w h = (own, kids, res, w') ->
  res = H.RCert (H.c_id c) /\ own = [H.EExists (H.name0 c)] /\
  exists g, kids = [g] /\
    (g = [H.EEvict (H.c_id c)] /\ H.qualifies is_space n = false \/
     exists r rest, g = H.EDecision n r :: rest \/ g = H.EAllow n r :: rest).
Proof. exact due_certificate_served_and_renewed_in_background. Qed.

(** expired => due (C04), so the handshake renews in the foreground: nothing spawned, storage check, then the
    policy; if the policy refuses, eviction and an error: the expired certificate is not served *)
Theorem S_expired_certificate_renewed_in_foreground : forall scale (is_space : N -> bool)
  w h id c n i rnd now own kids res w',
  H.h_hit h = Some id -> H.cache_find id w = Some c -> H.h_name h = Some n ->
  H.c_managed c = true -> H.od_on w = true -> H.c_revoked c = false ->
  H.store_has (H.name0 c) w = true ->
  timed scale c i rnd now -> 0 < interval i -> spec_expiry (not_after i) <= now ->
  H.handshake is_space w h = (own, kids, res, w') ->
  decide scale i rnd now = Renew /\ kids = [] /\
  exists rest, own = H.EExists (H.name0 c) :: fst (fst (H.gate is_space w n true)) ++ rest /\
    (snd (fst (H.gate is_space w n true)) = false -> rest = [H.EEvict (H.c_id c)] /\ res = H.RErr 4).
Proof. exact expired_certificate_renewed_in_foreground. Qed.

(** hypotheses satisfiable: S34's 90-day certificates on day 61, float64 arithmetic *)
Example S_renew_handshake_satisfiable :
  timed CM.Renewal.F64.scale_f64 z_ca (CM.System.RenewMaintain.x_env 0) 0 CM.System.RenewMaintain.t61 /\
  due_reason (CM.System.RenewMaintain.x_env 0) 0 CM.System.RenewMaintain.t61 /\
  timed CM.Renewal.F64.scale_f64 z_cb (CM.System.RenewMaintain.x_env 1) 0 CM.System.RenewMaintain.t61 /\
  nothing_due (CM.System.RenewMaintain.x_env 1) 0 CM.System.RenewMaintain.t61 /\
  (let '(own, kids, r, _) := H.handshake z_sp z_w (z_hello z_a 1) in (own, kids, r))
    = ([H.EExists z_a], [[H.EDecision z_a true; H.ELoad z_a; H.EIssue z_a; H.ELoad z_a]], H.RCert 1) /\
  (let '(own, kids, r, _) := H.handshake z_sp z_w (z_hello z_b 2) in (own, kids, r)) = ([], [], H.RCert 2) /\
  (let '(own, kids, r, _) := H.handshake z_sp z_w (z_hello z_c 3) in (own, kids, r))
    = ([H.EExists z_c; H.EDecision z_c true; H.ELoad z_c; H.EIssue z_c; H.ELoad z_c], [], H.RCert 10).
Proof.
  pose proof renew_handshake_satisfiable as (A & B & _ & C & D & _ & _ & _ & _ & E & F & G & _).
  exact (conj A (conj B (conj C (conj D (conj E (conj F G)))))).
Qed.
(** all theorems and examples of this module *)
Definition C_all := (S_handshake_due_is_C04_decision, S_handshake_fresh_cert_is_C04_fresh, S_not_due_certificate_served_untouched, S_due_certificate_served_and_renewed_in_background, S_expired_certificate_renewed_in_foreground, S_renew_handshake_satisfiable).
Print Assumptions C_all.
End C.
End S7.

(* ================================================================================================ *)
(* scopes opened by the previous part do not reach this one *)
Close Scope N_scope. Close Scope Z_scope. Close Scope positive_scope. Close Scope string_scope. Close Scope char_scope.

(** ===== S8: background work and housekeeping ==> the models that assume them =====
    Files: System/JobsMaintain.v (A), System/CleanCompose.v (B), System/AccountCompose.v (C).
    The fragment is wrapped in a module (and one sub-module per task) because the models share names
    ([job], [Job], [state], [step], [run], [pc], [Unlock], ...). *)
From Coq Require Import List Arith Bool Lia NArith ZArith Permutation.
From CM Require Import Lib.Str.
From CM Require Retry.Model Retry.Proofs Maintain.Model Issuance.Model Issuance.Base Issuance.Invariants.
From CM Require Clean.Model Clean.Proofs Clean.Prog Clean.Interfere Account.Model Account.Proofs.
From CM Require System.JobsMaintain System.CleanCompose System.AccountCompose.

Module S8.

(** ---------- (A) the job manager of async.go (C19) ==> the job list of Maintain (C05) ---------- *)
Module Jobs.
Import ListNotations.
Import CM.System.JobsMaintain.
Local Open Scope nat_scope.

(** Retry.Model (jobManager) ==> Maintain.Model (submit_renew).  [rn n] is the string "renew_"+n a renewal
    job is submitted under (any injective, never-empty naming); [absR rn s js] says that the names the
    job manager holds (queued ++ running ++ returned-but-name-not-yet-released) are, as a multiset,
    the names of Maintain's job list [js].  Then the names set of the job manager answers
    "is a job of that name queued or running" exactly like Maintain's [existsb (is_renew_for n)]:
    this is where C19's invariant names = names of queue ++ running ++ finishing is used. *)
Theorem S_jm_dedup_is_maintain_dedup : forall rn : nat -> str,
  (forall a b, rn a = rn b -> a = b) -> (forall a, rn a <> []) ->
  forall s js n, RP.jinv s -> absR rn s js ->
  R.has_name (rn n) (R.names s) = existsb (M.is_renew_for n) js.
Proof. exact dedup_agrees. Qed.

(** Retry.Model ==> Maintain.Model, one step: a step of the job manager (any number of workers) is zero
    or one operation of Maintain on its job list: Submit("renew_"+n) = [submit_renew] (a no-op exactly
    when Maintain's test is true), Submit("") = append an unnamed obtain job (never de-duplicated), a
    worker taking a job / exiting and a job function returning - normally, with an error or by a
    recovered panic - change nothing, the release of the name removes one job of that name. *)
Theorem S_jm_step_refines : forall rn : nat -> str,
  (forall a b, rn a = rn b -> a = b) -> (forall a, rn a <> []) ->
  forall maxw s js l s', RP.jinv s -> absR rn s js -> label_ok rn l ->
  R.jstep maxw s l = Some s' ->
  exists js', absR rn s' js' /\
    match l with
    | R.Submit j => (R.j_name j = [] /\ exists n, js' = js ++ [M.Job n M.JObtain None M.Queued]) \/
                    (exists n old, R.j_name j = rn n /\ js' = M.submit_renew js n old)
    | R.Take | R.Return _ _ => js' = js
    | R.Release id => exists pre x post, js = pre ++ x :: post /\ js' = pre ++ post
    end.
Proof. exact jstep_refines. Qed.

(** ... and for every choice of the certificate captured by the renewal closure *)
Theorem S_jm_submit_renew_refines : forall rn : nat -> str,
  (forall a b, rn a = rn b -> a = b) -> (forall a, rn a <> []) ->
  forall maxw s js id n old s', RP.jinv s -> absR rn s js ->
  R.jstep maxw s (R.Submit (R.Job id (rn n))) = Some s' -> absR rn s' (M.submit_renew js n old).
Proof. exact submit_renew_refines. Qed.

(** Retry.Model ==> Maintain.Model, every run: along every history of the job manager there is a
    Maintain job list with exactly the held names, obtained by operations of the kind Maintain
    performs ([jobs_ops]); C19's invariant is carried along. *)
Theorem S_jm_refines_joblist : forall rn : nat -> str,
  (forall a b, rn a = rn b -> a = b) -> (forall a, rn a <> []) ->
  forall maxw ls s js s', 1 <= maxw -> RP.jinv s -> absR rn s js ->
  Forall (label_ok rn) ls -> R.jrun maxw s ls = Some s' ->
  exists js', absR rn s' js' /\ jobs_ops js js' /\ RP.jinv s'.
Proof. exact jm_refines_joblist. Qed.
Print Assumptions S_jm_refines_joblist.

(** Maintain.Model: [jobs_ops] is what the ACTUAL model does: every event (pass scan / act, external
    renewal, issuer switch, job step, manage) changes the job list only by submit_renew, appending an
    obtain job, advancing a job's pc, or removing a job *)
Theorem S_maintain_step_is_jobs_ops : forall od idue s e,
  jobs_ops (M.jobs s) (M.jobs (M.step od idue s e)).
Proof. exact maintain_step_is_jobs_ops. Qed.

(** (iii) no job is lost: every job Maintain considers live is held by the job manager, and while
    something is queued a worker is alive and a worker step is enabled (C19_every_job_runs) *)
Theorem S_no_job_lost : forall (rn : nat -> str) maxw s js x, 1 <= maxw -> RP.reachable maxw s ->
  absR rn s js -> In x js ->
  (exists j, In j (R.held s) /\ R.j_name j = mname rn x) /\
  (R.queue s <> [] -> 1 <= R.live s /\ exists l s', R.is_worker_step l = true /\ R.jstep maxw s l = Some s').
Proof. exact queued_job_has_worker. Qed.
Print Assumptions S_no_job_lost.

(** ... and Maintain's [JobStep n k] (ANY live job advances) is schedulable: while at most [maxw]
    (1000 for the package-level jm) jobs are live every queued job has an idle worker; |queue| Take
    steps put all of them into execution without ending any.  (Beyond [maxw] Maintain's scheduler is
    more liberal than the job manager: Example S_ex_worker_limit.) *)
Theorem S_all_live_jobs_schedulable : forall maxw s, 1 <= maxw -> RP.reachable maxw s ->
  length (R.held s) <= maxw ->
  exists s', R.jrun maxw s (repeat R.Take (length (R.queue s))) = Some s' /\
    R.queue s' = [] /\ R.running s' = R.running s ++ R.queue s /\ R.finishing s' = R.finishing s /\
    R.names s' = R.names s /\ Permutation (map R.j_name (R.held s')) (map R.j_name (R.held s)).
Proof. exact all_live_jobs_schedulable. Qed.

(** the code as it is (panic recovered around the job): whatever way the job ends (ok / error / panic)
    Maintain's list loses exactly that job and the name is free for the next submit_renew *)
Theorem S_job_end_any_outcome_refines : forall rn, (forall a b, rn a = rn b -> a = b) -> (forall a, rn a <> []) ->
  forall maxw s js id j r k, 1 <= maxw -> RP.reachable maxw s -> absR rn s js ->
  R.take_job id (R.running s) = Some (j, r) ->
  exists s1 s2 pre x post,
    R.jstep maxw s (R.Return id k) = Some s1 /\ absR rn s1 js /\
    R.jstep maxw s1 (R.Release id) = Some s2 /\ js = pre ++ x :: post /\ mname rn x = R.j_name j /\
    absR rn s2 (pre ++ post) /\ R.has_name (R.j_name j) (R.names s2) = false /\
    (forall n, R.j_name j = rn n -> existsb (M.is_renew_for n) (pre ++ post) = false).
Proof. exact job_end_any_outcome_refines. Qed.

(** R: before 393ac3e (a panicking job kills its worker, the name is never deleted) Maintain's
    assumption "the name is forgotten when the job ends" is false: no job is held, yet every later
    Submit("renew_"+n) is dropped while Maintain's submit_renew queues a job *)
Theorem S_panic_orig_breaks_maintain_dedup_refuted :
  exists s, R.jrun_gen false 1 R.jinit [R.Submit (R.Job 1 (rn0 7)); R.Take; R.Return 1 R.KPanic] = Some s /\
    R.held s = [] /\ (forall js, absR rn0 s js -> js = []) /\
    (forall id, R.jstep_orig 1 s (R.Submit (R.Job (S (S id)) (rn0 7))) = Some s) /\
    forall old, ~ absR rn0 s (M.submit_renew [] 7 old).
Proof. exact panic_orig_breaks_maintain_dedup_refuted. Qed.
Print Assumptions S_panic_orig_breaks_maintain_dedup_refuted.

(** R (atomicity gap, side condition): between the job function's return and delete(jm.names, name)
    the name still blocks: with "live = queued ++ running" the Submit refinement is false; Maintain's
    last job step stands for the RELEASE, not for the return *)
Theorem S_view_without_finishing_refuted :
  exists s js n, RP.reachable 1 s /\ RP.jinv s /\
    Permutation (map R.j_name (R.queue s ++ R.running s)) (mview rn0 js) /\
    R.jstep 1 s (R.Submit (R.Job 2 (rn0 n))) = Some s /\
    forall old, ~ Permutation (map R.j_name (R.queue s ++ R.running s)) (mview rn0 (M.submit_renew js n old)).
Proof. exact view_without_finishing_refuted. Qed.

(** doWithRetry (C19) = [retries] / [stop_result]: one iteration of C19's loop, no cancellation *)
Theorem S_retry_loop_decision : forall iv maxd pick0 c rest t idx k, (t < maxd)%Z ->
  R.retry_loop iv maxd None pick0 (c :: rest) t idx k =
    (let fire := (t + R.wait_of iv idx + R.c_late c)%Z in
     let t' := (fire + R.c_dur c)%Z in
     let a := R.Att k fire t' (R.c_out c) in
     if retries (R.c_out c) then
       if (t' <? maxd)%Z then
         let '(l, r, te) := R.retry_loop iv maxd None pick0 rest t' (R.next_idx iv idx) (k + 1)%Z in (a :: l, r, te)
       else ([a], R.RGiveUp, t')
     else ([a], stop_result (R.c_out c), t')).
Proof. exact retry_loop_decision. Qed.

(** Retry.Model (doWithRetry) vs Issuance.Model ([after_attempt]): the same three-way case split: an
    async obtain / renew thread goes to PWait exactly when doWithRetry retries, otherwise it leaves
    through the deferred Unlock with doWithRetry's result (ErrNoRetry, which Issuance does not have,
    has ECanc's continuation) *)
Theorem S_retry_decision_agrees_issuance : forall th o, I.is_async (I.cfg th) = true ->
  I.tpc (I.after_attempt th (aerr_of o)) =
    if retries o then I.PWait else I.PUnlock (res_of_result (stop_result o)).
Proof. exact retry_decision_agrees_issuance. Qed.
Print Assumptions S_retry_decision_agrees_issuance.

(** the pause is left by the next attempt or - only with a cancelled context - by an error return *)
Theorem S_wait_exit_agrees : forall th b p, I.tpc th = I.PWait -> I.norm_pc th b = Some p ->
  (b = true /\ p = I.body_start th) \/ (b = false /\ I.canc th = true /\ p = I.PUnlock I.RErr).
Proof. exact wait_exit_agrees. Qed.

(** partial: the 30-day horizon of doWithRetry ("final attempt; giving up": since 9155753 it returns the
    last error - C19's [returns_nil] -, before it returned nil) is NOT in Issuance: the missing exit
    is an error return ([PUnlock RErr]) *)
Theorem S_horizon_only_in_retry_partial :
  (forall th, I.is_async (I.cfg th) = true -> I.tpc (I.after_attempt th I.EPlain) = I.PWait) /\
  (exists iv maxd calls atts te, iv <> [] /\ R.all_positive iv = true /\
     R.do_with_retry iv maxd None false calls = (atts, R.RGiveUp, te) /\
     res_of_result R.RGiveUp = I.RErr /\ Forall RP.plain atts /\ atts <> []).
Proof. exact horizon_only_in_retry_partial. Qed.

(** Retry.Model (doWithRetry) vs Maintain.Model: one model step = one attempt under the lock; the job
    stays Locked (keeps issue_cert_<n> through its retries) exactly when doWithRetry retries *)
Theorem S_maintain_attempt_matches_retry : forall idue s n k pre j post st,
  M.split_job n k (M.jobs s) = Some (pre, j, post) -> M.jkd j = M.JRenew -> M.jpc_ j = M.Locked ->
  M.stored (M.store s) n = Some st -> M.cdue st = true ->
  let s' := M.job_step idue s n k in
  if retries (m_outcome (M.is_failing s n))
  then M.jobs s' = M.jobs s /\ M.lock_held (M.jobs s') n = true /\
       M.failed s' = n :: M.failed s /\ M.issued s' = M.issued s /\ M.store s' = M.store s
  else M.jobs s' = pre ++ M.set_pc j M.Reload :: post /\ M.issued s' = n :: M.issued s /\ M.failed s' = M.failed s.
Proof. exact maintain_attempt_matches_retry. Qed.

(** satisfiability *)
Example S_ex_naming : (forall a b, rn0 a = rn0 b -> a = b) /\ (forall a, rn0 a <> []).
Proof. split; [exact rn0_inj|exact rn0_ne]. Qed.
Example S_ex_refinement_run :
  let ls := [R.Submit (R.Job 1 (rn0 3)); R.Submit (R.Job 2 (rn0 3)); R.Submit (R.Job 3 []); R.Take;
             R.Submit (R.Job 4 []); R.Return 1 R.KPanic; R.Submit (R.Job 5 (rn0 3)); R.Release 1;
             R.Submit (R.Job 6 (rn0 3))] in
  Forall (label_ok rn0) ls /\
  exists s, R.jrun 2 R.jinit ls = Some s /\ view s = [[]; []; rn0 3] /\
    exists js, absR rn0 s js /\ jobs_ops js js /\ length js = 3.
Proof. exact ex_refinement_run. Qed.
Example S_ex_worker_limit :
  exists s, R.jrun 1 R.jinit [R.Submit (R.Job 1 (rn0 1)); R.Take; R.Submit (R.Job 2 (rn0 2))] = Some s /\
    R.queue s = [R.Job 2 (rn0 2)] /\ R.running s = [R.Job 1 (rn0 1)] /\ length (R.held s) = 2 /\
    forall l s', R.is_worker_step l = true -> R.jstep 1 s l = Some s' -> exists k, l = R.Return 1 k.
Proof. exact worker_limit_blocks_queued_job. Qed.
Example S_ex_schedulable :
  exists s, R.jrun 3 R.jinit [R.Submit (R.Job 1 (rn0 1)); R.Submit (R.Job 2 (rn0 2)); R.Take; R.Submit (R.Job 3 [])] = Some s /\
    length (R.held s) <= 3 /\ R.queue s = [R.Job 2 (rn0 2); R.Job 3 []] /\ 2 <= R.idle s.
Proof. exact ex_schedulable. Qed.
Example S_ex_maintain_attempt :
  let c := {| M.cid := 5; M.chead := 1; M.crest := []; M.cdue := true; M.cman := true |} in
  let s := {| M.store := [(1, c)]; M.cache := [c]; M.jobs := [M.Job 1 M.JRenew (Some c) M.Locked]; M.passes := [];
              M.failing := [1]; M.issued := []; M.failed := []; M.next := 6; M.lasterr := false |} in
  M.split_job 1 0 (M.jobs s) = Some ([], M.Job 1 M.JRenew (Some c) M.Locked, []) /\
  M.stored (M.store s) 1 = Some c /\ M.is_failing s 1 = true /\
  M.failed (M.job_step false s 1 0) = [1].
Proof. exact ex_maintain_attempt. Qed.
(** all theorems and examples of this module *)
Definition Jobs_all := (S_jm_dedup_is_maintain_dedup, S_jm_step_refines, S_jm_submit_renew_refines, S_jm_refines_joblist, S_maintain_step_is_jobs_ops, S_no_job_lost, S_all_live_jobs_schedulable, S_job_end_any_outcome_refines, S_panic_orig_breaks_maintain_dedup_refuted, S_view_without_finishing_refuted, S_retry_loop_decision, S_retry_decision_agrees_issuance, S_wait_exit_agrees, S_horizon_only_in_retry_partial, S_maintain_attempt_matches_retry, S_ex_naming, S_ex_refinement_run, S_ex_worker_limit, S_ex_schedulable, S_ex_maintain_attempt).
Print Assumptions Jobs_all.
End Jobs.

(** ---------- (B) CleanStorage (C18) under the storage_clean lock of Issuance (C01/C09) ---------- *)
Module Cleaning.
Import ListNotations.
Import CM.Clean.Model CM.Clean.Proofs CM.Clean.Prog CM.Clean.Interfere CM.System.CleanCompose.
Local Open Scope Z_scope.

(** Clean.Model: the call log of EVERY cleaning (any storage, options, fault plan, cancellation, clock)
    is  Lock fail | Lock . Load last_clean.json . Unlock (skip / abort, Interval > 0 only)
      | Lock . [Load last_clean.json iff Interval > 0] . work* . Store last_clean.json . Unlock
    where a work call [wk] is no Lock / Unlock / Store and a Load only below ocsp / certificates:
    the body performs no Lock/Unlock and neither reads nor writes last_clean.json *)
Theorem S_clean_log_shape : forall e o clk s0,
  log_shape (0 <? interval o) (fst (clean e o clk s0)) (rev (lg (snd (clean e o clk s0)))).
Proof. exact clean_log_shape. Qed.

(** ... and its Deletes lie below ocsp/ or certificates/: never last_clean.json, never a lock file *)
Theorem S_clean_work_spares_record_and_locks : forall e o clk s0 ev,
  In ev (lg (snd (clean e o clk s0))) -> ev_kind ev = KDelete ->
  in_clean_namespace (ev_key ev) /\ ev_key ev <> Gen.Consts.clean_storage_key /\
  (has_prefix ocsp_pfx (ev_key ev) = true \/ has_prefix certs_pfx (ev_key ev) = true).
Proof. exact work_calls_spare_record_and_locks. Qed.

(** Clean.Model ==> Issuance.Model: the log of every cleaning, projected call by call ([pev]: Lock =
    Lock call + acquisition, the Load / Store of last_clean.json, Unlock, every work call = OOther), is
    the operation sequence of a run of a [PClean (Interval > 0)] thread of the Issuance LTS, ending
    with the same result class.  Hence everything proved for PClean threads (C09_locks_released,
    C01's lock invariant) is about the real cleaning program. *)
Theorem S_clean_is_pclean_run : forall e o clk s0 lk,
  let iv := (0 <? interval o) in
  exists st0 ls s' evs th,
    I.run (I.init_state [ccfg iv lk] st0) ls = Some (s', evs) /\
    map I.e_op evs = plog lk (rev (lg (snd (clean e o clk s0)))) /\
    I.thr s' = [th] /\ I.tpc th = I.PDone (res_of (fst (clean e o clk s0))).
Proof. exact clean_is_pclean_run. Qed.
Print Assumptions S_clean_is_pclean_run.

(** Issuance.Model: two instances never clean at the same time: in every reachable state (any thread
    set, schedule, fault plan) two threads with the same lock key are not both between LockAcquired
    and Unlock of a CleanStorage *)
Theorem S_cleaners_exclusive : forall cs st s t1 t2 th1 th2,
  IB.reachable cs st s -> II.thread_at s t1 th1 -> II.thread_at s t2 th2 ->
  cleaning th1 = true -> cleaning th2 = true -> I.c_lk (I.cfg th1) = I.c_lk (I.cfg th2) -> t1 = t2.
Proof. exact cleaners_exclusive. Qed.
Print Assumptions S_cleaners_exclusive.

(** Issuance.Model: every [OOther] event of the LTS (= a storage call of a cleaning body, by
    S_clean_is_pclean_run) is an event of a thread that owns its lock at that moment: C18's "every storage
    call of a cleaning lies between taking and releasing storage_clean", on the LTS *)
Theorem S_body_call_owns_lock : forall cs st s l s' e,
  IB.reachable cs st s -> I.step s l = Some (s', e) -> I.e_op e = I.OOther ->
  exists th, II.thread_at s (I.l_tid l) th /\ I.lks (I.sh s) (I.c_lk (I.cfg th)) = Some (I.l_tid l).
Proof. exact body_call_owns_lock. Qed.

(** Clean.Interfere generalised (C18_interference_live_assets_untouched assumes that nobody writes
    X.crt - an obtain / renewal of X does): if X.crt exists from the start, every value it ever
    holds is a certificate not expired for the grace period at any reading of the clock, and no
    other actor deletes it or touches a key above it ([okf]; Stores of X.key, X.json and anything
    elsewhere are free), the cleaner issues no Delete covering X.crt, X.key or X.json, and X.crt is
    a live certificate at the end *)
Theorem S_clean_spares_saved_bundle : forall e clk fs o s0 base,
  site_assetb (base ++ spec_ext_crt) = true ->
  (exists v c, lookup s0 (base ++ spec_ext_crt) = Some (File v c) /\ Live clk o c) ->
  (forall p, under p (base ++ spec_ext_crt) = true -> forall v c, lookup s0 p <> Some (File v c)) ->
  (forall i f, In (i, f) fs -> okf clk o base f) ->
  (forall ev, In ev (lg (snd (cleani e fs o clk s0))) -> ev_kind ev = KDelete -> spares base (ev_key ev)) /\
  (exists v c, lookup (sto (snd (cleani e fs o clk s0))) (base ++ spec_ext_crt) = Some (File v c) /\ Live clk o c).
Proof. exact clean_spares_saved_bundle. Qed.
Print Assumptions S_clean_spares_saved_bundle.

(** Issuance's save as Clean's foreign writer ([kname site n j] = the file of kind j of name class n;
    [run_fops] = the Stores / Deletes of bundle files along an Issuance run).  What C18 proves as it
    stands: a save (with or without rollback) of OTHER names leaves the files of a live name alone *)
Theorem S_save_spares_other_names : forall site : nat -> key,
  (forall n, site_assetb (site n ++ spec_ext_crt) = true) -> (forall n m, site n = site m -> n = m) ->
  forall e clk fs o s0 m suf v c,
  In suf asset_exts -> lookup s0 (site m ++ spec_ext_crt) = Some (File v c) ->
  (forall i, spec_expired (clk i) (grace o) c = false) ->
  (forall i f, In (i, f) fs -> exists n j, n <> m /\ fkey f = kname site n j) ->
  lookup (sto (snd (cleani e fs o clk s0))) (site m ++ suf) = lookup s0 (site m ++ suf).
Proof. exact save_spares_other_names. Qed.

(** ... and the name being saved itself: CleanStorage concurrent with storeTx (key, crt, meta; no
    rollback of the crt) of a name that has a live certificate and is stored live certificates - a
    renewal in time - never deletes a file of the bundle being saved *)
Theorem S_renewal_of_live_name_safe : forall site : nat -> key,
  (forall n, site_assetb (site n ++ spec_ext_crt) = true) -> (forall n m, site n = site m -> n = m) ->
  forall e clk fs o s0 m,
  (exists v c, lookup s0 (kname site m I.KCrt) = Some (File v c) /\ Live clk o c) ->
  (forall p, under p (kname site m I.KCrt) = true -> forall v c, lookup s0 p <> Some (File v c)) ->
  (forall i f, In (i, f) fs -> save_op site clk o m f) ->
  (forall ev j, In ev (lg (snd (cleani e fs o clk s0))) -> ev_kind ev = KDelete ->
     covers (ev_key ev) (kname site m j) = false) /\
  (exists v c, lookup (sto (snd (cleani e fs o clk s0))) (kname site m I.KCrt) = Some (File v c) /\ Live clk o c).
Proof. exact renewal_of_live_name_safe. Qed.

(** R, FINDING (extends known C18-foreign-writer-toctou; different locks issue_cert_<name> /
    storage_clean): the name need not be expired.  A first ObtainCert into an EMPTY site folder
    (left by storeTx's rollback or by the cleaner on FileStorage): the cleaner lists it empty and
    Stats it, the obtain stores key, crt, meta and returns nil, the cleaner's recursive Delete of the
    folder removes the bundle.  [ob_fops] are the storage effects of a fault-free Issuance PObtain run. *)
Theorem S_save_under_clean_refuted :
  let fs := map (fun f => (6%nat, f)) ob_fops in
  (forall i, spec_expired (clk0 i) (grace opts0) (crt (Tn + 60 * day)) = false) /\ 0 <= grace opts0 /\
  (forall j, lookup s_empty (kn 1 j) = None) /\
  fst (cleani env0 fs opts0 clk0 s_empty) = RNil /\
  (forall j, lookup (sto (snd (cleani env0 fs opts0 clk0 s_empty))) (kn 1 j) = None) /\
  (forall j, lookup (sto (snd (cleani env0 (map (fun f => (4%nat, f)) ob_fops) opts0 clk0 s_empty))) (kn 1 j) <> None).
Proof. exact save_under_clean_refuted. Qed.
Print Assumptions S_save_under_clean_refuted.

(** R: the torn variant: Store key before the folder Delete, crt and meta after: storeTx reports
    success, the private key is gone *)
Theorem S_save_torn_by_folder_delete_refuted :
  let fs := match ob_fops with [k; c; m] => [(6%nat, k); (7%nat, c); (7%nat, m)] | _ => [] end in
  let fin := sto (snd (cleani env0 fs opts0 clk0 s_empty)) in
  lookup fin (kn 1 I.KKey) = None /\ lookup fin (kn 1 I.KCrt) <> None /\ lookup fin (kn 1 I.KMeta) <> None.
Proof. exact save_torn_by_folder_delete_refuted. Qed.

(** R (known finding, in Issuance's vocabulary): an expired certificate being renewed while the cleaner
    removes it: the renewal's storeTx falls between the cleaner's Load of the old X.crt and its Deletes *)
Theorem S_renew_expired_under_clean_refuted :
  let fs := map (fun f => (5%nat, f)) rn_fops in
  rn_fops = [FPut (kn 1 I.KKey) (File 100 plain); FPut (kn 1 I.KCrt) (File 0 (crt (Tn + 60 * day)));
             FPut (kn 1 I.KMeta) (File 200 plain)] /\
  (exists s evs th, I.run (I.init_state [rn_cfg] rn_sto) (nolabels 13) = Some (s, evs) /\
     I.thr s = [th] /\ I.tpc th = I.PDone I.ROk) /\
  fst (cleani env0 fs opts0 clk0 s_dead) = RNil /\
  (forall j, lookup (sto (snd (cleani env0 fs opts0 clk0 s_dead))) (kn 1 j) = None).
Proof. exact renew_expired_under_clean_refuted. Qed.

(** satisfiability *)
Example S_ex_site : (forall n, site_assetb (site0 n ++ spec_ext_crt) = true) /\ (forall n m, site0 n = site0 m -> n = m).
Proof. split; [exact site0_ok|exact site0_inj]. Qed.
Example S_ex_save_is_three_puts :
  ob_fops = [FPut (kn 1 I.KKey) (File 100 plain); FPut (kn 1 I.KCrt) (File 0 (crt (Tn + 60 * day)));
             FPut (kn 1 I.KMeta) (File 200 plain)] /\
  (exists s evs th, I.run (I.init_state [ob_cfg] (fun _ => None)) (nolabels 12) = Some (s, evs) /\
     I.thr s = [th] /\ I.tpc th = I.PDone I.ROk).
Proof. exact save_is_three_puts. Qed.
Example S_ex_renewal_of_live_name :
  let fs := combine [4%nat; 6%nat; 12%nat] fr_fops in
  fr_fops = [FPut (kn 2 I.KKey) (File 100 plain); FPut (kn 2 I.KCrt) (File 0 (crt (Tn + 60 * day)));
             FPut (kn 2 I.KMeta) (File 200 plain)] /\
  (forall i f, In (i, f) fs -> save_op site0 clk0 opts0 2 f) /\
  (exists v c, lookup s_mixed (kn 2 I.KCrt) = Some (File v c) /\ Live clk0 opts0 c) /\
  (forall p, under p (kn 2 I.KCrt) = true -> forall v c, lookup s_mixed p <> Some (File v c)) /\
  lookup (sto (snd (cleani env0 fs opts0 clk0 s_mixed))) (kn 2 I.KCrt) = Some (File 0 (crt (Tn + 60 * day))) /\
  lookup (sto (snd (cleani env0 fs opts0 clk0 s_mixed))) (kn 2 I.KKey) = Some (File 100 plain) /\
  lookup (sto (snd (cleani env0 fs opts0 clk0 s_mixed))) (kn 1 I.KCrt) = None.
Proof. exact ex_renewal_of_live_name. Qed.
(** all theorems and examples of this module *)
Definition Cleaning_all := (S_clean_log_shape, S_clean_work_spares_record_and_locks, S_clean_is_pclean_run, S_cleaners_exclusive, S_body_call_owns_lock, S_clean_spares_saved_bundle, S_save_spares_other_names, S_renewal_of_live_name_safe, S_save_under_clean_refuted, S_save_torn_by_folder_delete_refuted, S_renew_expired_under_clean_refuted, S_ex_site, S_ex_save_is_three_puts, S_ex_renewal_of_live_name).
Print Assumptions Cleaning_all.
End Cleaning.

(** ---------- (C) account registration: Issuance's PAcct (C09) and Account.Model (C20) ---------- *)
Module Acct.
Import ListNotations.
Import CM.Issuance.Model CM.Issuance.Base CM.Issuance.Invariants CM.System.AccountCompose.
Local Open Scope nat_scope.

(** Issuance.Model: the fault-free transition table [TR] of a [PAcct cb] thread (Load registration, Load
    key, Lock, reload, [NewAccountFunc], newNonce, newAccount, Store registration, Store key, Unlock) *)
Theorem S_acct_transition_table : forall t th sh b th' sh' e cb,
  c_prog (cfg th) = PAcct cb -> cur th = OpAcct -> canc th = false -> apc (tpc th) = true ->
  tstep t th sh FNone b = Some (th', sh', e) ->
  apc (tpc th') = true /\ canc th' = false /\ cur th' = OpAcct /\ cfg th' = cfg th /\
  TR (cfg th) cb (tpc th) sh (tpc th') sh' e.
Proof. exact acct_tstep. Qed.

(** Issuance.Model: in every reachable state at most one thread per lock key is inside the registration
    (reload under the lock, callback, CA requests [PQCa], save [PQSv], rollback) *)
Theorem S_acct_exclusive : forall cs st s t1 t2 th1 th2,
  reachable cs st s -> thread_at s t1 th1 -> thread_at s t2 th2 ->
  registering th1 = true -> registering th2 = true -> c_lk (cfg th1) = c_lk (cfg th2) -> t1 = t2.
Proof. exact acct_exclusive. Qed.

(** Issuance.Model discharges what C20's "registered once" takes from Account.Model's own atomic lock:
    any number of PAcct threads of one lock key and one account slot, from storage without the
    account, any schedule, no fault injected: at most one newAccount request is answered 2xx, and as
    soon as one call has returned exactly one has been, the call returned nil and registration and
    key are stored *)
Theorem S_one_new_account : forall lk vk cs st es s,
  (forall c, In c cs -> acct_cfg lk vk c) ->
  st (SK vk KMeta) = None -> st (SK vk KKey) = None ->
  runs nofault (init_state cs st) es s ->
  count_new es <= 1 /\
  forall t th r, thread_at s t th -> tpc th = PDone r ->
    count_new es = 1 /\ r = ROk /\
    sto (sh s) (SK vk KMeta) <> None /\ sto (sh s) (SK vk KKey) <> None.
Proof. exact one_new_account. Qed.
Print Assumptions S_one_new_account.

(** R: "unless a fault is injected" cannot be dropped (C20: created <= 1 + fsaves + crashes + deletes) *)
Theorem S_one_new_account_needs_no_fault_refuted :
  exists ls s es, run (init_state two_acct (fun _ => None)) ls = Some (s, es) /\
    (forall c, In c two_acct -> acct_cfg 7 3 c) /\
    length (filter (fun l => negb (fault_eqb (l_fault l) FNone)) ls) = 1 /\
    count_new es = 2.
Proof. exact one_new_account_needs_no_fault_refuted. Qed.

(** Account.Model ==> Issuance.Model on the overlap, thread level: every operation of an Account thread
    outside the order / recreate / compare-and-delete path ([overlap_pc] = [classify], a catch-all), with or
    without an injected fault (since the re-base also a failing Unlock: logged and ignored by both), is the Issuance thread
    taking the labels [op_labels]; it performs exactly the operations [op_ops] (same keys, same order)
    and reaches the related pc, file contents and lock state *)
Theorem S_account_op_simulated : forall lk sA t f sA' th sh0,
  A.op_step sA t f = Some sA' -> overlap_pc (A.t_pc (A.thr sA t)) = true ->
  Rth lk (A.thr sA t) th -> Rsh lk sA sh0 ->
  (forall res, A.t_pc (A.thr sA t) = A.Unlock res -> A.lock sA = Some t) ->
  exists th' sh' evs,
    tsteps t th sh0 (op_labels (A.t_pc (A.thr sA t)) f) = Some (th', sh', evs) /\
    map e_op evs = op_ops lk (A.t_ca (A.thr sA t)) (A.t_pc (A.thr sA t)) f /\
    Rth lk (A.thr sA' t) th' /\ Rsh lk sA' sh' /\
    (forall t2, t2 <> t -> A.thr sA' t2 = A.thr sA t2).
Proof. exact account_op_simulated. Qed.

(** ... and state level: every step of Account.Model in the overlap (Start, Op of any thread, any
    interleaving) is a run of the Issuance LTS with the translated operations, related states again.
    [AP.I_lock] is C20's own lock invariant (holds in every reachable state of Account.Model). *)
Theorem S_account_step_simulated : forall lk sA sI l sA',
  RelG lk sA sI -> AP.I_lock sA -> overlap_label sA sI l -> A.step sA l = Some sA' ->
  exists ls sI' evs, run sI ls = Some (sI', evs) /\ map e_op evs = label_ops lk sA l /\ RelG lk sA' sI' /\
    cas_of sI' = cas_of sI.
Proof. exact account_step_simulated. Qed.

(** ... and history level: every history of Account.Model that stays in the overlap ([ovrun]: starts of
    calls for the CAs [cas] of the thread set, operations outside the order / recreate loop; any
    interleaving, any faults) is a run of the Issuance LTS performing the translated operations *)
Theorem S_account_run_simulated : forall lk cas ls sA sI sA',
  RelG lk sA sI -> cas_of sI = cas -> AP.I_lock sA -> ovrun cas sA ls -> A.run sA ls = Some sA' ->
  exists lsI sI' evs, run sI lsI = Some (sI', evs) /\ map e_op evs = run_ops lk sA ls /\
    RelG lk sA' sI' /\ cas_of sI' = cas /\ AP.I_lock sA'.
Proof. exact account_run_simulated. Qed.
Print Assumptions S_account_run_simulated.

(** satisfiability *)
Example S_ex_two_instances_register_once :
  exists ls s es, run (init_state two_acct (fun _ => None)) ls = Some (s, es) /\
    Forall (fun l => l_fault l = FNone) ls /\ count_new es = 1 /\
    map tpc (thr s) = [PDone ROk; PDone ROk].
Proof. exact ex_two_instances_register_once. Qed.
Example S_ex_account_related_initially : forall lk cs st,
  (forall c, In c cs -> exists ca, c = acfg lk ca) -> (forall k, st k = None) ->
  RelG lk A.init (init_state cs st).
Proof. exact RelG_init. Qed.
Example S_ex_account_simulated :
  let sI0 := init_state [acfg 7 3; acfg 7 3] (fun _ => None) in
  RelG 7 A.init sI0 /\ AP.I_lock A.init /\ overlap_label A.init sI0 (A.Start 0 3) /\
  exists sA1 ls sI1 evs, A.step A.init (A.Start 0 3) = Some sA1 /\ run sI0 ls = Some (sI1, evs) /\
    RelG 7 sA1 sI1 /\ A.t_pc (A.thr sA1 0) = A.LoadReg false.
Proof. exact ex_account_simulated. Qed.
Example S_ex_account_history :
  let ls := [A.Start 0 3; A.Op 0 false; A.Start 1 3; A.Op 0 false; A.Op 1 false; A.Op 0 false; A.Op 0 false;
             A.Op 0 true; A.Op 0 false; A.Op 1 false; A.Op 1 false; A.Op 1 false] in
  let sI0 := init_state [acfg 7 3; acfg 7 3] (fun _ => None) in
  ovrun [3; 3] A.init ls /\ cas_of sI0 = [3; 3] /\
  run_ops 7 A.init ls =
    [OLoad (SK 3 KMeta); OLock 7; OAcq 7; OLoad (SK 3 KMeta); OLoad (SK 3 KMeta); OCa 1; OCa 2;
     OStore (SK 3 KMeta); OUnlock 7; OLock 7; OAcq 7; OLoad (SK 3 KMeta); OCa 1; OCa 2] /\
  exists sA' lsI sI' evs, A.run A.init ls = Some sA' /\ run sI0 lsI = Some (sI', evs) /\
    map e_op evs = run_ops 7 A.init ls /\ RelG 7 sA' sI' /\ A.created sA' 3 = 2.
Proof. exact ex_account_history. Qed.
(** all theorems and examples of this module *)
Definition Acct_all := (S_acct_transition_table, S_acct_exclusive, S_one_new_account, S_one_new_account_needs_no_fault_refuted, S_account_op_simulated, S_account_step_simulated, S_account_run_simulated, S_ex_two_instances_register_once, S_ex_account_related_initially, S_ex_account_simulated, S_ex_account_history).
Print Assumptions Acct_all.
End Acct.

End S8.

(* ================================================================================================ *)
(* scopes opened by the previous part do not reach this one *)
Close Scope N_scope. Close Scope Z_scope. Close Scope positive_scope. Close Scope string_scope. Close Scope char_scope.

(** ===== S9: Maintain (C05) <=> Issuance (C01): the same Go code (renewCert / obtainCert / manageOne,
    config.go; the renewal job of maintain.go) at two granularities =====
    Files: System/MaintainIssuance.v (lock owner from the trace, mutual exclusion of guarded
    operations), MaintainIssuance2.v (window theorem), MaintainIssuance3.v (one renewal job: both
    sides), MaintainIssuance4.v (agreement theorem), MaintainIssuance5.v (witnesses).
    Wrapped in a module: Maintain.Model and Issuance.Model share names; they are used qualified
    ([M.], [I.], aliases defined in MaintainIssuance3.v). *)
From Coq Require Import List Bool Arith.
From CM Require Issuance.Model Maintain.Model Issuance.Base.
From CM Require System.MaintainIssuance System.MaintainIssuance2 System.MaintainIssuance3
                System.MaintainIssuance4 System.MaintainIssuance5.

Module S9.
Import ListNotations.
Import CM.System.MaintainIssuance CM.System.MaintainIssuance2 CM.System.MaintainIssuance3
       CM.System.MaintainIssuance4 CM.System.MaintainIssuance5.

(** ATOMICITY JUSTIFIED (Issuance.Model; what Maintain.Model's "one attempt under the storage lock =
    one step" takes from C01).  In ANY run of any number of requests from any storage, any schedule,
    any fault plan: while the trace says that thread [t] owns lock [l] ([owner_tr]: its successful
    LockAcquired is not yet followed by its successful Unlock), the next event, if it belongs to
    another thread whose lock key is also [l], is no Store / Delete on any bundle file [SK _ _] and no
    Issuer.Issue entry / exit ([guarded_op]). *)
Theorem S_maintain_attempt_is_exclusive : forall cs st es1 e es2 s' t l,
  Issuance.Base.runs Issuance.Base.any_label (I.init_state cs st) (es1 ++ e :: es2) s' ->
  owner_tr l es1 None = Some t ->
  I.e_tid e <> t ->
  (forall c, nth_error cs (I.e_tid e) = Some c -> I.c_lk c = l) ->
  guarded_op (I.e_op e) = false.
Proof. exact locked_region_atomic. Qed.
Print Assumptions S_maintain_attempt_is_exclusive.

(** THE WINDOW THEOREM (Issuance.Model, for Maintain.Model).  Thread [t] owns lock [l] in a reachable
    state; the OTHER threads run (any steps, schedule, faults).  Then [t] still owns [l], its thread
    record is unchanged, and every bundle file [SK n j] all of whose possible writers ([may_write]:
    obtain / renew / manage with [c_vk = n]; updateARI only for the metadata file) use lock [l] is
    unchanged: between two consecutive operations of an attempt the files are as the attempt left
    them, so the attempt's Loads, decision and Stores act as if performed in one step. *)
Theorem S_maintain_attempt_window_frame : forall cs st s0 es s1 t l,
  Issuance.Base.reachable cs st s0 ->
  I.lks (I.sh s0) l = Some t ->
  Issuance.Base.runs Issuance.Base.any_label s0 es s1 ->
  (forall e, In e es -> I.e_tid e <> t) ->
  I.lks (I.sh s1) l = Some t /\
  (forall th, nth_error (I.thr s0) t = Some th -> nth_error (I.thr s1) t = Some th) /\
  (forall n j, (forall c, In c cs -> may_write c n j = true -> I.c_lk c = l) ->
               I.sto (I.sh s1) (I.SK n j) = I.sto (I.sh s0) (I.SK n j)).
Proof. exact locked_window_frame. Qed.

(** ... and no request that uses lock [l] enters or leaves the issuer during the window. *)
Theorem S_maintain_attempt_window_no_issue : forall cs st s0 es s1 t l,
  Issuance.Base.reachable cs st s0 ->
  I.lks (I.sh s0) l = Some t ->
  Issuance.Base.runs Issuance.Base.any_label s0 es s1 ->
  (forall e, In e es -> I.e_tid e <> t) ->
  forall e i, In e es -> (I.e_op e = I.OIssS i \/ I.e_op e = I.OIssE i) ->
    exists c, nth_error cs (I.e_tid e) = Some c /\ I.c_idn c = i /\ I.c_lk c <> l.
Proof. exact locked_window_no_issue. Qed.

(** the lock table of the Issuance LTS is a function of the trace (used to phrase the above) *)
Theorem S_issuance_lock_owner_from_trace : forall ok s es s' l,
  Issuance.Base.runs ok s es s' -> I.lks (I.sh s') l = owner_tr l es (I.lks (I.sh s) l).
Proof. exact runs_owner. Qed.

(** AGREEMENT ON ONE BACKGROUND RENEWAL JOB (Maintain.Model [job_step] on a [JRenew] job  <=>
    Issuance.Model thread [PRenew true], not forced).  For EVERY Maintain state (other jobs, passes,
    cache arbitrary) in which the k-th job for [n] is a queued renewal job, the lock of [n] is free
    and a bundle is stored, and EVERY Issuance state (any other threads) in which thread [t] is such
    a request at its entry, its lock free and the three files stored; stored certificate due or not,
    any key / identity / metadata, ReusePrivateKeys, DisableStorageCheck, issuer handing out due
    certificates or not, ANY number [m] of failed attempts:
    running the job alone ([mh_renew]: lock; issuer fails; m attempts; issuer recovers; attempt  //
    [lbl_renew]: checkStorage, Lock, m x (Load x3, cert_obtaining, Issue fails, cert_failed, retry),
    Load x3, cert_obtaining, Issue, Store x3, cert_obtained, Unlock) the two models agree on
    1. the issuer: called iff the STORED certificate is due, once per attempt ([issued]/[failed] logs
       = IssueStart events by outcome: 1 and m, or 0 and 0);
    2. storage: new certificate (fresh identity, due-ness from the issuer) stored iff Issue
       succeeded; [bundle_rel] holds again; every other name / key untouched (but the scratch key);
    3. the lock: free afterwards on both sides, all other locks untouched;
    4. control: the job is at [Reload], the request has returned nil, nothing cached by either;
    5. the identity counters stay synchronised.
    The Issuance side is a run of the LTS ([I.run]) with exactly the events [ev_renew]. *)
Theorem S_maintain_issuance_renew_job_agree :
  forall od idue (s0 : M.state) n k old pre post mc (si : I.state) t th lk pk idn reuse chk kk ic vm m,
  M.split_job n k (M.jobs s0) = Some (pre, M.Job n M.JRenew old M.Queued, post) ->
  M.lock_held (M.jobs s0) n = false ->
  M.stored (M.store s0) n = Some mc ->
  nth_error (I.thr si) t = Some th ->
  I.cfg th = rcfg lk pk n idn reuse chk idue ->
  I.tpc th = I.after_pre (I.cfg th) -> I.cur th = I.OpRenew -> I.canc th = false ->
  I.lks (I.sh si) lk = None ->
  I.sto (I.sh si) (I.SK n I.KKey) = Some (I.VKey kk) ->
  I.sto (I.sh si) (I.SK n I.KCrt) = Some (I.VCrt ic) ->
  I.sto (I.sh si) (I.SK n I.KMeta) = Some vm ->
  cert_rel mc ic -> M.next s0 = I.ncid (I.sh si) ->
  let due := M.cdue mc in
  let sm := M.run od idue s0 (mh_renew n k due m) in
  let es := ev_renew t lk n idn chk due m in
  exists si',
    I.run si (labels_of t (lbl_renew chk due m)) = Some (si', es) /\
    (M.issued sm = repeat n (count_iss idn 0 es) ++ M.issued s0 /\
     M.failed sm = repeat n (count_iss idn 2 es) ++ M.failed s0 /\
     count_iss idn 0 es = (if due then 1 else 0) /\ count_iss idn 2 es = (if due then m else 0)) /\
    (bundle_rel (M.store sm) (I.sto (I.sh si')) n /\
     (if due
      then M.stored (M.store sm) n = Some (M.Cert (M.next s0) n [] idue true) /\
           exists key, I.sto (I.sh si') (I.SK n I.KCrt) = Some (I.VCrt (I.Cert (I.ncid (I.sh si)) key idue))
      else M.store sm = M.store s0 /\ forall j, I.sto (I.sh si') (I.SK n j) = I.sto (I.sh si) (I.SK n j)) /\
     (forall n', n' <> n -> M.stored (M.store sm) n' = M.stored (M.store s0) n') /\
     (forall key, key <> I.RW t -> (forall j, key <> I.SK n j) -> I.sto (I.sh si') key = I.sto (I.sh si) key)) /\
    (M.lock_held (M.jobs sm) n = false /\ I.lks (I.sh si') lk = None /\
     forall l, l <> lk -> I.lks (I.sh si') l = I.lks (I.sh si) l) /\
    (M.jobs sm = pre ++ M.Job n M.JRenew old M.Reload :: post /\ M.cache sm = M.cache s0 /\ M.lasterr sm = false /\
     exists th', nth_error (I.thr si') t = Some th' /\ I.tpc th' = I.PDone I.ROk /\ I.seen th' = I.seen th) /\
    M.next sm = I.ncid (I.sh si').
Proof. exact renew_job_agree. Qed.
Print Assumptions S_maintain_issuance_renew_job_agree.

(** the lock in between.  Maintain: held after the first step and after each failed attempt;
    Issuance: the trace [ev_renew] is  a ++ LockAcquired :: b ++ [Unlock]  with no lock event in a, b
    and no issuer call in a -- the lock is held from [Locked] until the attempt that succeeds or
    finds "renewed already". *)
Theorem S_maintain_issuance_renew_job_lock_span :
  (forall od idue (s0 : M.state) n k old pre post mc m i,
     M.split_job n k (M.jobs s0) = Some (pre, M.Job n M.JRenew old M.Queued, post) ->
     M.lock_held (M.jobs s0) n = false ->
     M.stored (M.store s0) n = Some mc -> M.cdue mc = true -> i <= m ->
     M.lock_held (M.jobs (M.run od idue s0 (M.JobStep n k :: M.SetIssuer n true :: repeat (M.JobStep n k) i))) n = true) /\
  (forall t lk vk idn chk due m,
     exists a b, ev_renew t lk vk idn chk due m = a ++ I.Ev t (I.OAcq lk) 0 :: b ++ [I.Ev t (I.OUnlock lk) 0] /\
       (forall e, In e (a ++ b) -> forall l, I.e_op e <> I.OAcq l /\ I.e_op e <> I.OUnlock l) /\
       (forall e, In e a -> is_iss idn 0 e = false /\ is_iss idn 2 e = false)).
Proof. split; [exact renew_job_lock_held_meanwhile|exact ev_renew_lock_span]. Qed.

(** NOT ATOMIC (1): a writer under a DIFFERENT lock.  updateARI ([PAri], lock "ari_...") Stores the
    metadata file between the renewer's Store crt and Store meta while the renewer owns the issuance
    lock: the exclusion theorem is false without "same lock key" (and the window theorem for the
    metadata file).  Key and certificate files are never written by an updater. *)
Theorem S_maintain_attempt_ari_store_inside_save_refuted :
  exists s' es,
    I.run (I.init_state w_cs w_sto) w_labels1 = Some (s', es) /\
    let es1 := firstn 15 es in let e := nth 15 es (I.Ev 0 I.OOther 0) in let es2 := skipn 16 es in
    es = es1 ++ e :: es2 /\
    owner_tr 7 es1 None = Some 0 /\ I.e_tid e = 1 /\
    I.e_op e = I.OStore (I.SK 3 I.KMeta) /\ I.e_out e = 0 /\ guarded_op (I.e_op e) = true /\
    In (I.Ev 0 (I.OStore (I.SK 3 I.KCrt)) 0) es1 /\ In (I.Ev 0 (I.OStore (I.SK 3 I.KMeta)) 0) es2 /\
    may_write (I.TCfg (I.PAri true) 20 3 3 3 false false false false) 3 I.KMeta = true.
Proof. exact ari_store_inside_save_refuted. Qed.

(** NOT ATOMIC (2): updater loads the old metadata, renewer stores the new, updater stores: the
    Issuance model ends with the NEW identity marked as carrying renewal information ([VMetaA 0]);
    the Go code stores what it loaded earlier (maintain.go:585-605): the OLD certificate's ACME
    data overwrite the new .json.  Neither model contains that lost update. *)
Theorem S_maintain_attempt_ari_marks_new_metadata_refuted :
  exists s' es,
    I.run (I.init_state w_cs w_sto) w_labels2 = Some (s', es) /\
    I.sto (I.sh s') (I.SK 3 I.KCrt) = Some (I.VCrt (I.Cert 0 0 false)) /\
    I.sto (I.sh s') (I.SK 3 I.KMeta) = Some (I.VMetaA 0) /\
    map I.tpc (I.thr s') = [I.PDone I.ROk; I.PDone I.ROk].
Proof. exact ari_marks_new_metadata_refuted. Qed.
Print Assumptions S_maintain_attempt_ari_marks_new_metadata_refuted.

(** NOT ATOMIC (3): readers.  ManageSync's unlocked Loads fall between the renewer's Store key and
    Store crt (same lock key!): new key + old certificate, "private key does not match". *)
Theorem S_maintain_attempt_unlocked_reader_refuted :
  exists s' es, I.run (I.init_state r_cs w_sto) (repeat (L 0) 9 ++ repeat (L 1) 3) = Some (s', es) /\
    owner_tr 7 (firstn 9 es) None = Some 0 /\
    map I.e_op (skipn 9 es) = [I.OLoad (I.SK 3 I.KKey); I.OLoad (I.SK 3 I.KCrt); I.OLoad (I.SK 3 I.KMeta)] /\
    map I.tpc (I.thr s') = [I.PSave I.KCrt; I.PDone I.RErr].
Proof. exact unlocked_reader_inside_save_refuted. Qed.

(** DISAGREEMENT (documented abstraction of Maintain): a synchronous manage that must wait for the
    lock "does not take place" in Maintain (state unchanged, cache empty); in Issuance -- and in
    manageOne, which caches before it calls renewCert -- the caller has cached the stored certificate
    ([seen]) and is blocked at the lock. *)
Theorem S_maintain_manage_blocked_state_refuted :
  exists s' es,
    I.run (I.init_state b_i w_sto) (repeat (L 0) 3 ++ repeat (L 1) 6) = Some (s', es) /\
    I.lks (I.sh s') 7 = Some 0 /\
    map I.tpc (I.thr s') = [I.PLd I.KCrt; I.PLockWait] /\
    map I.seen (I.thr s') = [None; Some (I.Cert 5 1 true)] /\
    (forall f b, f <> I.FCancel -> I.step s' (I.Label 1 f b) = None) /\
    M.lock_held (M.jobs b_m) 3 = true /\
    M.manage (fun _ => false) false b_m 3 false = b_m /\ M.cache b_m = [].
Proof. exact manage_blocked_state_refuted. Qed.
Print Assumptions S_maintain_manage_blocked_state_refuted.

(** Satisfiability of the hypotheses: a run with two renewers and an unlocked reader inside a
    window (MaintainIssuance2.ex_window_nontrivial); a job with two failed attempts inside states
    that hold another locked job / another thread (MaintainIssuance4.renew_job_agree_nontrivial). *)
Example S_maintain_issuance_window_nontrivial :
  exists s es, I.run (I.init_state [ex_cfg (I.PRenew true); ex_cfg (I.PRenew false); ex_cfg I.PManage] ex_sto) ex_labels = Some (s, es) /\
    map I.e_tid es = [0; 0; 0; 1; 2; 0] /\
    owner_tr 7 (firstn 3 es) None = Some 0 /\
    map (fun e => guarded_op (I.e_op e)) es = [false; false; false; false; false; false] /\
    (forall c, In c [ex_cfg (I.PRenew true); ex_cfg (I.PRenew false); ex_cfg I.PManage] ->
       forall j, may_write c 3 j = true -> I.c_lk c = 7).
Proof. exact ex_window_nontrivial. Qed.
Example S_maintain_issuance_renew_job_nontrivial :
  exists si' es,
    I.run ex_i (labels_of 1 (lbl_renew true true 2)) = Some (si', es) /\
    length es = 28 /\ count_iss 4 0 es = 1 /\ count_iss 4 2 es = 2 /\
    I.sto (I.sh si') (I.SK 4 I.KCrt) = Some (I.VCrt (I.Cert 10 7 false)) /\
    M.stored (M.store (M.run (fun _ => false) false ex_m (mh_renew 4 0 true 2))) 4 = Some (M.Cert 10 4 [] false true) /\
    M.failed (M.run (fun _ => false) false ex_m (mh_renew 4 0 true 2)) = [4; 4] /\
    M.split_job 4 0 (M.jobs ex_m) = Some ([M.Job 6 M.JRenew None M.Locked], M.Job 4 M.JRenew (Some (M.Cert 9 4 [] true true)) M.Queued, []) /\
    M.lock_held (M.jobs ex_m) 4 = false.
Proof. exact renew_job_agree_nontrivial. Qed.
(** all theorems and examples of this module *)
Definition S9_all := (S_maintain_attempt_is_exclusive, S_maintain_attempt_window_frame, S_maintain_attempt_window_no_issue, S_issuance_lock_owner_from_trace, S_maintain_issuance_renew_job_agree, S_maintain_issuance_renew_job_lock_span, S_maintain_attempt_ari_store_inside_save_refuted, S_maintain_attempt_ari_marks_new_metadata_refuted, S_maintain_attempt_unlocked_reader_refuted, S_maintain_manage_blocked_state_refuted, S_maintain_issuance_window_nontrivial, S_maintain_issuance_renew_job_nontrivial).
Print Assumptions S9_all.
End S9.

(* ================================================================================================ *)
(* scopes opened by the previous part do not reach this one *)
Close Scope N_scope. Close Scope Z_scope. Close Scope positive_scope. Close Scope string_scope. Close Scope char_scope.

(** ===== S10: models that share Storage keys =====
    A: OCSP staples between stapling (C14, Ocsp.Model) and storage cleaning (C18, Clean.Model), with
       C06's "a staple outliving the certificate is ignored".      File: System/OcspClean.v
    B: ACME challenge material across nodes: the answering side (C15, Challenge.Model) on the
       storage the solvers (C16, Solvers.Model) produce.             File: System/ChallengeSolvers.v
    Wrapped in modules: Ocsp.Model and Clean.Model both define [store], [env], [result], [run]. *)
From Coq Require Import List ZArith NArith Bool.
From CM Require Import Lib.Str Gen.Consts Safe.Model Safe.KeysProofs.
From CM Require Ocsp.Model Clean.Model Clean.Proofs System.OcspClean.
From CM Require Challenge.Assoc Challenge.Model Solvers.Model Solvers.Proofs System.StorageRefine System.ChallengeSolvers.
Import ListNotations.

Module S10.

(** ---------- A: OCSP staples, C14 <-> C18 (<-> C06) ---------- *)
Module A.
Import CM.System.OcspClean.
Local Open Scope Z_scope.

(** Vocabulary.  [O] = Ocsp.Model, [C] = Clean.Model, [CP] = Clean.Proofs.  A persisted staple is a
    [O.blob] for C14 and a file value [C.cls] for C18; [reads b cl] says both are readings of the same
    bytes by ocsp.ParseResponse(bytes, nil): [C.as_staple cl = option_map O.r_next (O.b_parse b)].
    [O.reusable c t (Some b)] = stapleOCSP at time t reuses the persisted staple b for certificate c
    (verifies against the issuer, freshOCSP, checkOCSPResponse). *)

(** C14 + C18, safety of cleaning w.r.t. stapling.  A staple file (a terminal key directly below
    ocsp/) that stapleOCSP would still reuse at some instant [t] is left untouched by every cleaning
    all of whose clock readings are at or before [t] -- every storage content, fault plan,
    cancellation point, option set and clock.  (freshOCSP, "before the middle of the validity", is
    strictly stronger than C18's "not past NextUpdate".) *)
Theorem S_ocsp_reusable_survives_clean : forall e o clk s0 k v cl c b t,
  CP.child C.spec_ocsp k -> C.file s0 k = Some (v, cl) -> reads b cl ->
  O.reusable c t (Some b) = true -> (forall i, clk i <= t) ->
  C.file (C.sto (snd (C.clean e o clk s0))) k = C.file s0 k.
Proof. exact reusable_survives_clean. Qed.
Print Assumptions S_ocsp_reusable_survives_clean.

(** The converse fails, harmlessly (C14 is the stricter model, and the Go code agrees with both):
    (a) a Good, current, correctly signed response past the middle of its validity is no longer
    reused but is not deletable; (b) at the instant now = NextUpdate checkOCSPResponse calls the
    response expired ([!now.Before(NextUpdate)], ocsp.go) while deleteOldOCSPStaples keeps it
    ([now.After(NextUpdate)], maintain.go): the two comparisons differ by one instant. *)
Theorem S_ocsp_not_stale_not_reusable_refuted :
  (exists c b cl now, reads b cl /\ C.stale_staple now cl = false /\ O.reusable c now (Some b) = false /\
                      O.attach_ok c now true b = true) /\
  (exists b cl now r, reads b cl /\ O.b_parse b = Some r /\ now = O.r_next r /\
                      C.stale_staple now cl = false /\ O.current now r = false).
Proof. exact not_stale_not_reusable_refuted. Qed.

(** C18 + C14, cleaning never changes what gets stapled.  If a cleaning removed a staple file, then
    a stapleOCSP call at any instant [now] at or after the cleaning's clock readings would not have
    reused it (unparseable, past NextUpdate, or without NextUpdate), and the call with the file gone
    ([None]) has the same outcome as with the file in place ([Some b]): same Certificate.OCSPStaple
    and Certificate.ocsp, same error, same contact with the responder ([same_outcome]).  All staple
    contents, certificates, call environments, cleanings. *)
Theorem S_ocsp_cleaned_staple_not_missed : forall e o clk s0 k v cl b now disabled c cs en,
  CP.child C.spec_ocsp k -> C.file s0 k = Some (v, cl) -> reads b cl ->
  C.file (C.sto (snd (C.clean e o clk s0))) k = None -> (forall i, clk i <= now) ->
  O.reusable c now (Some b) = false /\
  same_outcome (O.staple disabled c cs (Some b) en now) (O.staple disabled c cs None en now).
Proof. exact cleaned_staple_not_missed. Qed.
Print Assumptions S_ocsp_cleaned_staple_not_missed.

(** C11 + C14 + C18, one namespace.  The key stapleOCSP Loads / Stores (StorageKeys.OCSPStaple,
    [Safe.Model.ocsp_staple], built on [prefix_ocsp]) is the string prefixOCSP/<file> with a
    slash-free file name, i.e. a terminal key directly below the prefix deleteOldOCSPStaples Lists
    ([prefix_ocsp] again), so the List of the cleaning returns it (both List flavours of C18; "ocsp"
    itself not being a file).  Hence the two theorems above apply to the key C14 uses
    ([c14_key_reusable_survives], [c14_key_cleaned_not_missed] in the file). *)
Theorem S_ocsp_staple_key_listed : forall lower is_space, (forall c, is_upper_ascii (lower c) = false) ->
  forall l s0 first hash n, noslash hash -> has_nondot hash = true ->
  CP.child C.spec_ocsp (ocsp_staple lower is_space first hash) /\
  (C.lookup s0 (ocsp_staple lower is_space first hash) = Some n ->
   (forall v cl, C.lookup s0 prefix_ocsp <> Some (C.File v cl)) ->
   exists ks, C.list_pure l s0 prefix_ocsp = Some ks /\ In (ocsp_staple lower is_space first hash) ks).
Proof.
  intros lower is_space H2 l s0 first hash n Hh Hd. split.
  - exact (proj1 (ocsp_key_is_child lower is_space H2 first hash Hh Hd)).
  - exact (staple_key_listed lower is_space H2 l s0 first hash n Hh Hd).
Qed.

(** C14 for C06 ([Bundle.Model.load_managed]: "if is_expired c then None"): when the certificate
    has expired, a persisted staple that passes every reuse test is still not attached (its
    NextUpdate lies after the certificate's expiry), the call reports an error and does not ask
    the responder. *)
Theorem S_ocsp_expired_cert_staple_ignored : forall c cs b e now,
  O.c_expiry c < now -> O.reusable c now (Some b) = true -> O.e_load_err e = false ->
  let r := O.staple false c cs (Some b) e now in
  O.res_cs r = cs /\ O.res_attached r = false /\ O.res_err r = true /\ O.res_contact r = false.
Proof. exact expired_cert_staple_ignored. Qed.

(** C14 + C18: what C14 itself persists (only responses satisfying [attach_ok], C14's S6) is
    deletable by C18 from the moment the certificate has expired: staple files do not outlive
    their certificate past the next cleaning. *)
Theorem S_ocsp_persisted_staple_stale_after_expiry : forall c t0 sg b cl now,
  O.attach_ok c t0 sg b = true -> reads b cl -> O.c_expiry c < now -> C.stale_staple now cl = true.
Proof. exact persisted_staple_stale_after_expiry. Qed.

(** the hypotheses are satisfiable: a fresh staple under the key "ocsp/a-1f" survives a run, an
    old one is removed by it and is not reusable; an expired certificate with a fresh staple *)
Example S_ocsp_examples :
  (O.reusable ex_cert2 T0 (Some ex_fresh_blob) = true /\
   C.file (C.sto (snd (C.clean ex_env ex_opts (fun _ => T0) (ex_store ex_fresh_blob)))) ex_key =
     Some (1, cls_of ex_fresh_blob)) /\
  (C.file (ex_store ex_old_blob) ex_key = Some (1, cls_of ex_old_blob) /\
   C.file (C.sto (snd (C.clean ex_env ex_opts (fun _ => T0) (ex_store ex_old_blob)))) ex_key = None) /\
  (O.reusable (O.Cert 1 1 7 (T0 - 1) 10000 true true) T0 (Some ex_fresh_blob) = true) /\
  O.attach_ok ex_cert2 T0 true ex_fresh_blob = true.
Proof. vm_compute. repeat split; reflexivity. Qed.
(** all theorems and examples of this module *)
Definition A_all := (S_ocsp_reusable_survives_clean, S_ocsp_not_stale_not_reusable_refuted, S_ocsp_cleaned_staple_not_missed, S_ocsp_staple_key_listed, S_ocsp_expired_cert_staple_ignored, S_ocsp_persisted_staple_stale_after_expiry, S_ocsp_examples).
Print Assumptions A_all.
End A.

(** ---------- B: challenge material across nodes, C15 <-> C16 ---------- *)
Module B.
Import CM.Challenge.Assoc CM.Challenge.Model CM.Solvers.Model CM.Solvers.Proofs CM.System.ChallengeSolvers.

(** Vocabulary.  A cluster = nat-indexed processes, each with its own solvers table,
    activeChallenges memory and DNS presenter memory, sharing the token store and the DNS zone.
    A history [hist : list (nat * sop)] = which process makes which Present / CleanUp call (with the
    faults of that call); [crun sf honour hist] applies C16's [sstep] to the calling process's state
    at every call.  [view cl b] = (memory of process b, shared store) = C16's [cstate_of]: the state
    C15's [http_handle] / [alpn_get] run on when process [b] answers.  [cpending hist] = presented by
    some process and not yet cleaned up by it; [c_ord e] its order, [c_flt e] the Present's faults.
    [no_bad_delete hist]: no CleanUp's Storage.Delete is made to fail. *)

(** C11 + C15 + C16, one key function.  distributedSolver.Present / CleanUp (C16: [tk sf o]) and
    getChallengeInfo (C15: [tkey sf ik ident]) use the same abstract key, and its Storage key string
    is solvers.go challengeTokensKey = [Safe.Model.challenge_tokens_key] in both; different abstract
    keys are different strings (issuer keys that sanitize to one real path component). *)
Theorem S_chal_one_key_function : forall lower is_space, (forall c, is_upper_ascii (lower c) = false) ->
  let sf := safe lower is_space in
  (forall o, tk sf o = tkey sf (o_ik o) (challenge_key (o_chal o))) /\
  (forall ik d, challenge_tokens_key lower is_space ik d = kstr_of (tkey sf ik d)) /\
  (forall ik1 d1 ik2 d2, kc (sf ik1) = [sf ik1] -> kc (sf ik2) = [sf ik2] ->
     kstr_of (tkey sf ik1 d1) = kstr_of (tkey sf ik2 d2) -> tkey sf ik1 d1 = tkey sf ik2 d2).
Proof.
  intros lower is_space H2 sf. split; [reflexivity|]. split; [reflexivity|].
  exact (kstr_of_inj lower is_space H2).
Qed.

(** C15 on C16's storage, "goes only to the matching request" end to end.  In every cluster
    history (any number of processes and orders, any interleaving, every fault except a failing
    Storage.Delete): if ANY process answers an HTTP request with a body, then some process's solver
    Presented -- and has not yet CleanedUp -- a challenge with exactly that token in the request
    path, an identifier the Host folds to, and that key authorization; and a challenge certificate
    is handed only to [acme-tls/1] with a server name that is / folds to the key of such a challenge. *)
Theorem S_chal_cluster_only_matching : forall sf honour feq issuers hist b, no_bad_delete hist ->
  (forall disabled load_fault r body,
     http_handle sf feq issuers disabled load_fault (view (crun sf honour hist) b) r = Some body ->
     exists e, In e (cpending hist) /\ h_method r = m_get /\ h_path r = resource_path (o_chal (c_ord e)) /\
       equal_fold feq (challenge_host (h_host r)) (c_ident (o_chal (c_ord e))) = true /\
       body = c_keyauth (o_chal (c_ord e))) /\
  (forall load_fault sni protos c,
     alpn_get sf feq issuers load_fault (view (crun sf honour hist) b) sni protos = AChal c ->
     protos = [acme_tls1_protocol] /\ sni <> [] /\
     exists e, In e (cpending hist) /\ o_chal (c_ord e) = c /\
               (sni = challenge_key c \/ equal_fold feq (challenge_key c) sni = true)).
Proof.
  intros sf honour feq issuers hist b Hf. split.
  - intros. eapply cluster_http_only_matching; eassumption.
  - intros. eapply cluster_alpn_only_matching; eassumption.
Qed.
Print Assumptions S_chal_cluster_only_matching.

(** C16's Present makes C15's distributed look-up succeed on another node.  Discipline
    [cluster_disc]: CleanUp only by the presenting process after its Present (acmez), no failing
    Delete, a listener challenge is presented only while no pending listener challenge in the cluster
    has the same sanitized key (orders are serialised per identifier cluster-wide, C01 / C09).  Then
    a process [b] that holds nothing for the key in its own memory answers the CA's request (GET
    <base>/<token>, Host = the identifier) with the key authorization of the challenge process
    [fst e] presented ([store_ok]: that Present's Store went through; the issuer is configured on b),
    for as long as it is pending; likewise the TLS-ALPN hello gets the challenge. *)
Theorem S_chal_cluster_remote_answers : forall sf honour feq issuers, (forall x, feq x x = true) ->
  forall hist e b, cluster_disc sf hist = true ->
  In e (cpending hist) -> lst e = true -> store_ok honour (c_flt e) = true -> In (o_ik (c_ord e)) issuers ->
  let c := o_chal (c_ord e) in
  aget str_eqb (challenge_key c) (l_mem (cl_local (crun sf honour hist) b)) = None ->
  (forall r, h_method r = m_get -> h_path r = resource_path c ->
     challenge_host (h_host r) = c_ident c -> challenge_key c = c_ident c ->
     http_handle sf feq issuers false false (view (crun sf honour hist) b) r = Some (c_keyauth c)) /\
  (challenge_key c <> [] ->
     alpn_get sf feq issuers false (view (crun sf honour hist) b) (challenge_key c) [acme_tls1_protocol] = AChal c).
Proof.
  intros sf honour feq issuers Hr hist e b Hd Hin Le Oe Hik c Hm. split.
  - intros r. exact (cluster_remote_answers sf honour feq issuers Hr hist e b r Hd Hin Le Oe Hik Hm).
  - exact (cluster_remote_presents_cert sf honour feq issuers Hr hist e b Hd Hin Le Oe Hik Hm).
Qed.

(** "leaves nothing behind" implies "no stale answers".  When nothing is pending anywhere the
    token store and every process's challenge memory are empty and no process answers any HTTP
    request or hands out a challenge certificate. *)
Theorem S_chal_cluster_quiescent_no_answers : forall sf honour feq issuers hist,
  no_bad_delete hist -> cpending hist = [] ->
  cl_store (crun sf honour hist) = [] /\
  forall b, l_mem (cl_local (crun sf honour hist) b) = [] /\
    (forall disabled load_fault r, http_handle sf feq issuers disabled load_fault (view (crun sf honour hist) b) r = None) /\
    (forall load_fault sni protos c, alpn_get sf feq issuers load_fault (view (crun sf honour hist) b) sni protos <> AChal c).
Proof. exact cluster_quiescent_no_answers. Qed.
Print Assumptions S_chal_cluster_quiescent_no_answers.

(** the same with C16's own statement of "every order is over": the shared store of the cluster is
    C16's [srun] on the merged history; if that is an interleaving of complete [Present; CleanUp]
    programs (C16: all exit paths = all fault combinations; [C16_interleavings_leave_nothing]) a
    process with nothing in its own memory sees C15's initial state and answers nothing *)
Theorem S_chal_orders_complete_no_remote_answers : forall sf honour feq issuers hist ts b,
  cl_store (crun sf honour hist) = s_store (srun sf honour (map snd hist)) /\
  (merge (map prog ts) (map snd hist) -> no_bad_delete hist -> l_mem (cl_local (crun sf honour hist) b) = [] ->
   view (crun sf honour hist) b = cinit /\
   (forall disabled load_fault r, http_handle sf feq issuers disabled load_fault (view (crun sf honour hist) b) r = None) /\
   (forall load_fault sni protos c, alpn_get sf feq issuers load_fault (view (crun sf honour hist) b) sni protos <> AChal c)).
Proof.
  intros. split; [apply cluster_store_is_merged_run | apply orders_complete_no_remote_answers].
Qed.

(** the side condition [no_bad_delete] is needed (FINDING, low severity): a CleanUp whose
    Storage.Delete fails leaves the token file; nothing else ever deletes it (CleanStorage does not
    look below acme/); every process keeps answering the finished challenge's validation request *)
Theorem S_chal_failed_delete_leaves_stale_answer_refuted :
  exists hist b r body, cpending hist = [] /\
    http_handle Ex.x_sf Ex.x_feq [Ex.x_ik] false false (view (crun Ex.x_sf true hist) b) r = Some body.
Proof. exact Ex.failed_delete_leaves_stale_answer_refuted. Qed.
Print Assumptions S_chal_failed_delete_leaves_stale_answer_refuted.

(** C10 / S2 + C11: the atomic-map view of the token store both models take is what FileStorage
    provides: challenge-token keys, certificate asset keys and staple keys together are prefix-free
    and non-root ([StorageRefine]'s criterion; issuer keys / names that sanitize to one real
    component), so [S_fs_refines_amap] covers these Stores / Loads / Deletes *)
Theorem S_chal_keys_prefix_free : forall lower is_space, (forall c, is_upper_ascii (lower c) = false) ->
  CM.System.StorageRefine.prefix_free (PrefixFree.K_all lower is_space) /\
  CM.System.StorageRefine.nonroot (PrefixFree.K_all lower is_space).
Proof. exact PrefixFree.all_keys_prefix_free. Qed.

(** the hypotheses are satisfiable: process 0 presents an HTTP-01 and a TLS-ALPN-01 challenge,
    process 7 (which presents nothing) answers both; after the clean-ups (one with a cancelled
    context) nobody answers; the key string *)
Example S_chal_examples :
  (cluster_disc Ex.x_sf Ex.x_hist = true /\ In (0%nat, (Ex.x_o, Ex.x_ok)) (cpending Ex.x_hist) /\
   http_handle Ex.x_sf Ex.x_feq [Ex.x_ik] false false (view (crun Ex.x_sf true Ex.x_hist) 7%nat) Ex.x_req
     = Some (c_keyauth Ex.x_c) /\
   alpn_get Ex.x_sf Ex.x_feq [Ex.x_ik] false (view (crun Ex.x_sf true Ex.x_hist) 7%nat) (challenge_key Ex.x_c2)
     [acme_tls1_protocol] = AChal Ex.x_c2) /\
  (no_bad_delete Ex.x_done /\ cpending Ex.x_done = [] /\
   merge (map prog [(Ex.x_o, Ex.x_ok, Ex.x_cancel); (Ex.x_o2, Ex.x_ok, Ex.x_ok)]) (map snd Ex.x_done) /\
   http_handle Ex.x_sf Ex.x_feq [Ex.x_ik] false false (view (crun Ex.x_sf true Ex.x_done) 7%nat) Ex.x_req = None).
Proof.
  split.
  - destruct Ex.x_remote_hyps as (A & B & _ & _ & _ & _ & C & D). repeat split; assumption.
  - destruct Ex.x_quiescent_hyps as (_ & A & B & C & _). repeat split; try assumption. exact Ex.x_merge.
Qed.
(** all theorems and examples of this module *)
Definition B_all := (S_chal_one_key_function, S_chal_cluster_only_matching, S_chal_cluster_remote_answers, S_chal_cluster_quiescent_no_answers, S_chal_orders_complete_no_remote_answers, S_chal_failed_delete_leaves_stale_answer_refuted, S_chal_keys_prefix_free, S_chal_examples).
Print Assumptions B_all.
End B.

End S10.

(* ================================================================================================ *)
(* scopes opened by the previous part do not reach this one *)
Close Scope N_scope. Close Scope Z_scope. Close Scope positive_scope. Close Scope string_scope. Close Scope char_scope.

(** ===== S11: the OCSP model (C14, Ocsp.Model) as the source of the revocation statuses that the
    other models ASSUME =====
    C05's revocation extension (Maintain.XModel: events [Revoke i] / [OcspPass ord]), the handshake
    model's [c_revoked] flag (C02, Handshake.Model) and the bundle model's [m_rev] / [k_ocsp]
    (C06/C07, Bundle.Model).   Files: System/OcspMaintain.v, OcspMaintain2.v, OcspMaintain3.v
    Wrapped in a module: Ocsp.Model and Maintain.Model both define [cert], [cache], [step], [store],
    [force_renew]. *)
From Coq Require Import List ZArith Bool.
From CM Require Ocsp.Model Ocsp.Proofs Maintain.Model Maintain.XModel Maintain.XProofs Maintain.Proofs
  Handshake.Model Bundle.Model System.OcspMaintain System.OcspMaintain2 System.OcspMaintain3.
Import ListNotations.

Module S11.
Import CM.Ocsp.Model CM.Ocsp.Proofs CM.System.OcspMaintain CM.System.OcspMaintain2 CM.System.OcspMaintain3.
Local Open Scope Z_scope.

(** Vocabulary.  C14 side (Ocsp.Model): [sys] = cache (list of [entry] = certificate, managed flag,
    OCSPStaple/ocsp state) + persisted staples; [OMaintain tick dis now envs rns] = one run of
    Cache.updateOCSPStaples at time [now] ([envs id] = what the responder / storage do for
    certificate [id]; [rns id] = outcome of forceRenew for it, an oracle).
    [judged dis c now e stv] = the one response stapleOCSP looks at for certificate [c] (the persisted
    one if verifiable, fresh and valid, else the responder's, always signature-checked);
    [RevokedFor c now r] = status Revoked /\ r_sig /\ same serial /\ thisUpdate <= now /\ (no nextUpdate
    \/ now < nextUpdate) /\ responder certificate ok /\ nextUpdate <= the certificate's expiry.
    [recorded en] = the cached status of [en] is Revoked;  [still_fresh now en] = the tick's "no need
    to update" test;  [tick_revokes dis now e en stv] = THE DECISION of C14's [tick_one] "this
    certificate goes through forceRenew in this pass" ([decided dis now envs s en] = the same for entry
    [en] of [s]); [tick_one_decision] / [tick_pass_membership] (System/OcspMaintain.v) prove that the
    model's pass takes a certificate out of the cache exactly when the decision says so.
    C05 side (MM = Maintain.Model, XM = Maintain.XModel, XP = Maintain.XProofs): [XM.xstate] = core
    state + [rev].  Abstraction [Abs s x]: the two caches correspond entry by entry ([match_cert en c]:
    cid c = Z.to_nat (c_id), cman c = en_managed, chead c = Z.to_nat (c_name)), identities are
    non-negative, and [XM.rev x] = the identities with [recorded en].
    [tick_history dis now envs s ord] = [Revoke i | i <- identities with decided = true] ++ [OcspPass ord]:
    the extended history of XModel that one C14 tick stands for. *)

(** C14 alone, the decision in plain terms: the tick puts a cached certificate through forceRenew
    iff it is unexpired and managed and either its recorded status is Revoked, or its status is due
    for a refresh and the response stapleOCSP judges revokes THIS certificate NOW. *)
Theorem S_ocsp_tick_decision_iff : forall dis now e en stv,
  tick_revokes dis now e en stv = true <->
  now <= c_expiry (en_cert en) /\ en_managed en = true /\
  (recorded en = true \/
   (still_fresh now en = false /\
    exists r, judged dis (en_cert en) now e stv = Some r /\ RevokedFor (en_cert en) now r)).
Proof. exact tick_revokes_iff. Qed.

(** C14 -> C05/XModel, "[Revoke i] = what updateOCSPStaples finds when a responder says so",
    discharged: after the [Revoke] events generated from C14's decisions the core state is untouched
    and XModel's force-renew condition (managed and flagged = certShouldBeForceRenewed) holds of a
    cached certificate exactly when C14's tick decides to force-renew it.  Side condition: the entry
    is not (expired, managed, already recorded Revoked): XModel has no expiry. *)
Theorem S_ocsp_revoke_events_are_c14_decisions : forall od idue s x dis now envs en c,
  Abs s x -> NoDup (ids (cache s)) -> In en (cache s) -> In c (MM.cache (XM.core x)) -> match_cert en c ->
  (c_expiry (en_cert en) < now -> en_managed en = true -> recorded en = false) ->
  let x1 := revokes od idue x (marks dis now envs s) in
  MM.cache (XM.core x1) = MM.cache (XM.core x) /\
  MM.cman c && XM.flagged (XM.rev x1) c = decided dis now envs s en.
Proof. exact revoke_events_are_c14_decisions. Qed.
Print Assumptions S_ocsp_revoke_events_are_c14_decisions.

(** C14 + C05, end to end (= C14's decision + C05_revoked_replaced_or_removed +
    C05_ocsp_pass_keeps_unrevoked).  One tick of C14 over the cache and the extended history it
    stands for in XModel: decision "no" => the certificate is cached afterwards in BOTH models;
    decision "yes" and its name's issuance lock free => it is cached in NEITHER, its status is gone;
    C14: a replacement the forced renewal yields is cached; XModel: issuer failing / nothing stored
    => removed, nothing issued, storage untouched; else a newly issued certificate for the name is
    stored, cached and answers for the name. *)
Theorem S_ocsp_pass_end_to_end : forall od idue s x dis now envs rns ord en c,
  idue = false -> XP.XWF od x -> Abs s x -> NoDup (ids (cache s)) -> new_fresh (cache s) rns ->
  In en (cache s) -> In c (MM.cache (XM.core x)) -> match_cert en c ->
  (c_expiry (en_cert en) < now -> en_managed en = true -> recorded en = false) ->
  let d := decided dis now envs s en in
  let post14 := cache (fst (step s (OMaintain tick dis now envs rns))) in
  let x' := XM.xrun od idue x (tick_history dis now envs s ord) in
  let t := XM.core x in let t' := XM.core x' in let n := MM.chead c in
  (d = false -> has_cert (eid en) post14 = true /\ In c (MM.cache t')) /\
  (d = true -> MM.lock_held (MM.jobs t) n = false ->
     has_cert (eid en) post14 = false /\ ~ In c (MM.cache t') /\ XM.flagged (XM.rev x') c = false /\
     (forall newc e', rns (eid en) = ROk newc e' -> has_cert (c_id newc) post14 = true) /\
     (MM.is_failing t n = true \/ MM.stored (MM.store t) n = None ->
        MM.stored (MM.store t') n = MM.stored (MM.store t) n /\
        MP.cnt (MM.issued t') n = MP.cnt (MM.issued t) n) /\
     (MM.is_failing t n = false -> MM.stored (MM.store t) n <> None ->
        exists N, MM.stored (MM.store t') n = Some N /\ In N (MM.cache t') /\ (MM.next t <= MM.cid N)%nat /\
                  MM.cnames N = [n] /\ (MP.cnt (MM.issued t) n < MP.cnt (MM.issued t') n)%nat /\
                  In N (MM.resolve n (MM.cache t')))).
Proof. exact ocsp_pass_end_to_end. Qed.

(** ... literally: a managed, unexpired certificate whose status is due for a refresh and whose
    responder answers with a response that revokes it now (signed by its issuer or a valid delegate,
    for its serial, in date, status Revoked) is, after the OCSP maintenance pass, not cached any more
    in either model; in XModel it is replaced by a newly issued certificate (stored, cached,
    answering for the name) or, issuer failing / nothing stored, just removed. *)
Theorem S_ocsp_revoked_answer_end_to_end : forall od idue s x now envs rns ord en c b r,
  idue = false -> XP.XWF od x -> Abs s x -> NoDup (ids (cache s)) -> new_fresh (cache s) rns ->
  In en (cache s) -> In c (MM.cache (XM.core x)) -> match_cert en c ->
  now <= c_expiry (en_cert en) -> en_managed en = true -> still_fresh now en = false ->
  reusable (en_cert en) now (sget (eid en) (stor s)) = false -> c_url (en_cert en) = true ->
  e_ans (envs (eid en)) = ABytes b -> b_parse b = Some r -> RevokedFor (en_cert en) now r ->
  MM.lock_held (MM.jobs (XM.core x)) (MM.chead c) = false ->
  let post14 := cache (fst (step s (OMaintain tick false now envs rns))) in
  let x' := XM.xrun od idue x (tick_history false now envs s ord) in
  let t := XM.core x in let t' := XM.core x' in let n := MM.chead c in
  has_cert (eid en) post14 = false /\ ~ In c (MM.cache t') /\
  (forall newc e', rns (eid en) = ROk newc e' -> has_cert (c_id newc) post14 = true) /\
  ((MM.is_failing t n = true \/ MM.stored (MM.store t) n = None) /\
     MM.stored (MM.store t') n = MM.stored (MM.store t) n /\ MP.cnt (MM.issued t') n = MP.cnt (MM.issued t) n
   \/
   exists N, MM.stored (MM.store t') n = Some N /\ In N (MM.cache t') /\ (MM.next t <= MM.cid N)%nat /\
             MM.cnames N = [n] /\ In N (MM.resolve n (MM.cache t'))).
Proof. exact revoked_answer_end_to_end. Qed.
Print Assumptions S_ocsp_revoked_answer_end_to_end.

(** C14 + C05, the negative direction: a certificate whose status is not already recorded as Revoked
    and for which neither the responder's answer nor the persisted staple is a response that revokes
    THIS certificate NOW is still cached after the pass, in both models - whatever was sent: another
    serial, a bad signature, an expired / future response, Unknown, Good, garbage, nothing.  No
    certificate is force-renewed or removed because of a response C14 rejects. *)
Theorem S_ocsp_rejected_response_never_renews : forall od idue s x dis now envs rns ord en c,
  XP.XWF od x -> idue = false -> Abs s x -> NoDup (ids (cache s)) -> new_fresh (cache s) rns ->
  In en (cache s) -> In c (MM.cache (XM.core x)) -> match_cert en c ->
  recorded en = false ->
  (forall r, judged dis (en_cert en) now (envs (eid en)) (sget (eid en) (stor s)) = Some r ->
             ~ RevokedFor (en_cert en) now r) ->
  has_cert (eid en) (cache (fst (step s (OMaintain tick dis now envs rns)))) = true /\
  In c (MM.cache (XM.core (XM.xrun od idue x (tick_history dis now envs s ord)))).
Proof. exact rejected_response_never_renews. Qed.
Print Assumptions S_ocsp_rejected_response_never_renews.

(** C14 vs C05, what the cache holds after a pass: if no certificate's issuance lock is busy
    (XModel's "would wait" case, which C14 does not have) and no expired managed certificate is
    recorded Revoked, C14's pass (staple, write back, forceRenew per certificate) and XModel's pass
    keep exactly the same old certificates, for Good / Revoked / unreachable-responder alike. *)
Theorem S_ocsp_pass_same_survivors : forall od idue s x dis now envs rns ord,
  idue = false -> XP.XWF od x -> Abs s x -> NoDup (ids (cache s)) -> new_fresh (cache s) rns ->
  (forall en, In en (cache s) -> c_expiry (en_cert en) < now -> en_managed en = true -> recorded en = false) ->
  (forall c, In c (MM.cache (XM.core x)) -> MM.lock_held (MM.jobs (XM.core x)) (MM.chead c) = false) ->
  forall en c, In en (cache s) -> In c (MM.cache (XM.core x)) -> match_cert en c ->
    (has_cert (eid en) (cache (fst (step s (OMaintain tick dis now envs rns)))) = true <->
     In c (MM.cache (XM.core (XM.xrun od idue x (tick_history dis now envs s ord))))).
Proof. exact pass_same_survivors. Qed.

(** C14, the order inside the pass: what sits in the cache under an old certificate's identity after
    a tick is that certificate (decision "no"), and its recorded status is Revoked only if the entry
    is literally unchanged.  The tick writes back Good statuses only; a Revoked verdict is never
    RECORDED in the cache, it goes to forceRenew within the same pass (maintain.go: [updated] is
    filled only under [Status == ocsp.Good], the revoked copy goes into [renewQueue]).  So XModel's
    [Revoke i] is not a cache write of the tick: it stands for the pass-local renew queue (or for a
    status recorded at load time / by a handshake's write-back). *)
Theorem S_ocsp_tick_never_records_revoked : forall s dis now envs rns en en',
  NoDup (ids (cache s)) -> new_fresh (cache s) rns -> In en (cache s) ->
  In en' (cache (fst (step s (OMaintain tick dis now envs rns)))) -> eid en' = eid en ->
  decided dis now envs s en = false /\ en_cert en' = en_cert en /\ en_managed en' = en_managed en /\
  (recorded en' = true -> en' = en).
Proof. exact tick_never_records_revoked. Qed.

(** R - the side condition is needed: XModel's [OcspPass] force-renews every managed flagged entry,
    the tick (maintain.go "if cert.Leaf == nil || cert.Expired() { continue }", C14's [tick_one])
    skips an expired certificate even if its recorded status is Revoked.  Witness: C14 keeps it,
    XModel replaces it.  (XModel's notes list expired revoked certificates as not modelled.) *)
Theorem S_ocsp_expired_revoked_pass_refuted :
  exists s x od dis now envs rns ord en c,
    Abs s x /\ XP.XWF od x /\ NoDup (ids (cache s)) /\ new_fresh (cache s) rns /\
    In en (cache s) /\ In c (MM.cache (XM.core x)) /\ match_cert en c /\
    c_expiry (en_cert en) < now /\ en_managed en = true /\ recorded en = true /\
    MM.lock_held (MM.jobs (XM.core x)) (MM.chead c) = false /\
    has_cert (eid en) (cache (fst (step s (OMaintain tick dis now envs rns)))) = true /\
    ~ In c (MM.cache (XM.core (XM.xrun od false x (tick_history dis now envs s ord)))).
Proof. exact expired_revoked_pass_refuted. Qed.
Print Assumptions S_ocsp_expired_revoked_pass_refuted.

(** C14 <-> C02 (Handshake.Model), the handshake path.  [hs_revokes] = the decision of C14's [hs_one]
    ([hs_one_decision]: unexpired /\ managed /\ the status in the handshake's copy AFTER its own
    refresh is Revoked).  If C02's certificate record sees the entry that way ([hs_abs]: c_managed,
    a name, c_revoked = that status), C02's handshakeMaintenance takes the revocation branch
    (renewDynamicCertificate -> forceRenew) in exactly the same cases. *)
Theorem S_ocsp_handshake_decisions_agree : forall dis now e en st c is_space LAM w h held,
  hs_abs dis now e en st c -> (c_expiry (en_cert en) <? now) = false -> H.c_ari c = None ->
  c02_revokes c = hs_revokes dis now e en st /\
  H.maintenance is_space LAM w h c held =
    if hs_revokes dis now e en st then H.renew_dynamic is_space w h c held
    else H.renew_if_necessary is_space LAM w h c held.
Proof. exact handshake_decisions_agree. Qed.

(** R - ... and not if [c_revoked] is read as the CACHED status (as its comment in Handshake/Model.v
    says): a handshake that meets a stale Good status, asks, and is told Revoked force-renews
    (handshake.go evaluates certShouldBeForceRenewed on the refreshed copy) although the cached
    status is not Revoked.  C02 does not model the refresh; it is its environment event [OCacheSet]. *)
Theorem S_ocsp_handshake_cached_flag_refuted :
  exists dis now e en st,
    (c_expiry (en_cert en) <? now) = false /\ en_managed en = true /\
    recorded en = false /\ hs_revokes dis now e en st = true.
Proof. exact handshake_cached_flag_refuted. Qed.

(** C14 <-> C06/C07 (Bundle.Model), manageOne on a just-loaded certificate.  If the bundle model's
    loaded certificate [mc] sees C14's entry as [bundle_abs] says (is_expired = expiry < now,
    managed, [m_rev <> None] = recorded Revoked), the two models force-renew in the same cases.
    The revocation REASON ([m_rev = Some true]: keyCompromise => moveCompromisedPrivateKey + obtain;
    [Some false]: forced renewal) is NOT in C14's model ([Ocsp.Model.resp] has no reason field): both
    cases are C14's status Revoked, and C14's forceRenew outcome is an oracle covering either. *)
Theorem S_ocsp_manage_decisions_agree : forall dis now rn en st mc pl cfg sp orc w w1,
  bundle_abs now en mc ->
  B.catch (B.load_managed pl cfg (B.s_load sp)) w = (B.Ok (inl mc), w1) ->
  bundle_revokes mc = (negb (c_expiry (en_cert en) <? now) && en_managed en && recorded en) /\
  (bundle_revokes mc = true ->
     manage_one dis now rn en st = do_renew dis now rn st /\
     B.manage pl cfg sp orc w = B.force_renew pl cfg sp orc mc w1) /\
  (bundle_revokes mc = false ->
     manage_one dis now rn en st = ([en], st, []) /\
     B.manage pl cfg sp orc w =
       if B.is_due (B.m_c mc)
       then B.bind (B.renew pl cfg sp orc false) (fun _ => B.load_managed pl cfg (B.s_save sp)) w1
       else B.ret mc w1).
Proof. exact manage_decisions_agree. Qed.

(** Non-vacuity.  A cache of three managed certificates seen by both models ([Ex.s0], [Ex.x0]); the
    responder says Revoked (verified, in date, right serial) for 1, Good for 2, is unreachable for 3. *)
Example S_ocsp_ex_hypotheses :
  XP.XWF Ex.od Ex.x0 /\ Abs Ex.s0 Ex.x0 /\ NoDup (ids (cache Ex.s0)) /\ new_fresh (cache Ex.s0) Ex.rns.
Proof. split; [exact Ex.x0_wf|]. split; [exact Ex.abs0|]. exact Ex.wf0. Qed.

(** the decisions, the events they stand for, and both caches after the pass: 1 is replaced by the
    newly issued 5 in both models, 2 and 3 stay; no lock is busy *)
Example S_ocsp_ex_pass :
  map (decided false 1600 Ex.envs Ex.s0) (cache Ex.s0) = [true; false; false] /\
  tick_history false 1600 Ex.envs Ex.s0 [] = [XM.Revoke 1; XM.OcspPass []] /\
  ids (cache (fst (step Ex.s0 (OMaintain tick false 1600 Ex.envs Ex.rns)))) = [5; 2; 3] /\
  map MM.cid (MM.cache (XM.core (XM.xrun Ex.od false Ex.x0 (tick_history false 1600 Ex.envs Ex.s0 [])))) = [2; 3; 5]%nat /\
  XM.rev (XM.xrun Ex.od false Ex.x0 (tick_history false 1600 Ex.envs Ex.s0 [])) = [] /\
  (forall c, In c (MM.cache (XM.core Ex.x0)) -> MM.lock_held (MM.jobs (XM.core Ex.x0)) (MM.chead c) = false).
Proof. exact Ex.decisions. Qed.

(** the hypotheses of [S_ocsp_revoked_answer_end_to_end] hold of certificate 1 *)
Example S_ocsp_ex_revoked_answer :
  let en := Entry Ex.k1 true (CS None None) 0 in
  In en (cache Ex.s0) /\ In (Ex.m 1) (MM.cache (XM.core Ex.x0)) /\ match_cert en (Ex.m 1) /\
  1600 <= c_expiry Ex.k1 /\ still_fresh 1600 en = false /\
  reusable Ex.k1 1600 (sget (eid en) (stor Ex.s0)) = false /\ c_url Ex.k1 = true /\
  e_ans (Ex.envs (eid en)) = ABytes (Blob 21 (Some (Ex.rsp Revoked 11))) /\
  RevokedFor Ex.k1 1600 (Ex.rsp Revoked 11).
Proof. exact Ex.revoked_answer_hypotheses. Qed.

(** the hypothesis of [S_ocsp_rejected_response_never_renews] holds of certificate 2 (answer Good),
    of 3 (unreachable), and of 1 if the Revoked response carries another serial / a bad signature /
    is expired / says Unknown *)
Example S_ocsp_ex_rejected :
  (forall r, judged false Ex.k2 1600 (Ex.envs 2) None = Some r -> ~ RevokedFor Ex.k2 1600 r) /\
  (forall r, judged false Ex.k3 1600 (Ex.envs 3) None = Some r -> ~ RevokedFor Ex.k3 1600 r) /\
  (forall r, judged false Ex.k1 1600 (Ex.env_of (Blob 31 (Some (Ex.rsp Revoked 12)))) None = Some r -> ~ RevokedFor Ex.k1 1600 r) /\
  (forall r, judged false Ex.k1 1600 (Ex.env_of (Blob 32 (Some (Resp Revoked 11 1500 3000 None false)))) None = Some r -> ~ RevokedFor Ex.k1 1600 r) /\
  (forall r, judged false Ex.k1 1600 (Ex.env_of (Blob 33 (Some (Resp Revoked 11 1000 1550 None true)))) None = Some r -> ~ RevokedFor Ex.k1 1600 r) /\
  (forall r, judged false Ex.k1 1600 (Ex.env_of (Blob 34 (Some (Ex.rsp Unknown 11)))) None = Some r -> ~ RevokedFor Ex.k1 1600 r).
Proof. exact Ex.rejected. Qed.

(** the abstractions of the handshake and manageOne theorems are inhabited: a C02 certificate record
    for an entry whose stale Good status is refreshed to Revoked; a bundle-model world in which the CA
    has revoked the stored certificate (not for key compromise) and [manage] loads it as such *)
Example S_ocsp_ex_handshake :
  hs_abs false 2500 (Ex.envs 1) Ex3.hen [] Ex3.hc /\ ((c_expiry (en_cert Ex3.hen) <? 2500) = false) /\
  H.c_ari Ex3.hc = None /\ hs_revokes false 2500 (Ex.envs 1) Ex3.hen [] = true.
Proof. exact Ex3.hs_abs_met. Qed.
Example S_ocsp_ex_manage :
  exists mc w1,
    B.catch (B.load_managed B.no_faults Ex3.cfg (B.s_load Ex3.sp)) Ex3.wc = (B.Ok (inl mc), w1) /\
    B.m_rev mc = Some false /\ bundle_abs 1600 Ex3.men mc /\ bundle_revokes mc = true.
Proof. exact Ex3.bundle_abs_met. Qed.

(** all theorems and examples of this module *)
Definition S11_all := (S_ocsp_tick_decision_iff, S_ocsp_revoke_events_are_c14_decisions, S_ocsp_pass_end_to_end, S_ocsp_revoked_answer_end_to_end, S_ocsp_rejected_response_never_renews, S_ocsp_pass_same_survivors, S_ocsp_tick_never_records_revoked, S_ocsp_expired_revoked_pass_refuted, S_ocsp_handshake_decisions_agree, S_ocsp_handshake_cached_flag_refuted, S_ocsp_manage_decisions_agree, S_ocsp_ex_hypotheses, S_ocsp_ex_pass, S_ocsp_ex_revoked_answer, S_ocsp_ex_rejected, S_ocsp_ex_handshake, S_ocsp_ex_manage).
Print Assumptions S11_all.
End S11.

(* ================================================================================================ *)
(* scopes opened by the previous part do not reach this one *)
Close Scope N_scope. Close Scope Z_scope. Close Scope positive_scope. Close Scope string_scope. Close Scope char_scope.

(** ===== S12: Maintain (C05) <=> Issuance (C01), continued (what S9 left open): the background OBTAIN job,
    the SYNCHRONOUS manage, and the ASYNCHRONOUS manage =====
    Files: System/MaintainIssuance6.v (one obtain job: both sides), MaintainIssuance7.v (agreement theorem,
    re-check under the lock, incomplete bundles), MaintainIssuance8.v (synchronous manage: both sides),
    MaintainIssuance9.v (agreement theorem), MaintainIssuance10.v ([seen] is cached; key mismatch; async manage),
    MaintainIssuance11.v (incomplete bundles are absent).
    S9's translation, thread driver ([trun], [trun_run]), segments and lemmas are reused, not duplicated.
    Maintain.Model and Issuance.Model share names: used qualified ([M.], [I.]). *)
From Coq Require Import List Bool Arith.
From CM Require Issuance.Model Maintain.Model Issuance.Base Maintain.Base Maintain.Proofs.
From CM Require System.MaintainIssuance3 System.MaintainIssuance4 System.MaintainIssuance6 System.MaintainIssuance7
                System.MaintainIssuance8 System.MaintainIssuance9 System.MaintainIssuance10 System.MaintainIssuance11.

Module S12.
Import ListNotations.
Import CM.System.MaintainIssuance3 CM.System.MaintainIssuance4 CM.System.MaintainIssuance6 CM.System.MaintainIssuance7
       CM.System.MaintainIssuance8 CM.System.MaintainIssuance9 CM.System.MaintainIssuance10 CM.System.MaintainIssuance11.
Notation WF := CM.Maintain.Base.WF.
Notation no_job_for := CM.Maintain.Proofs.no_job_for.

(** AGREEMENT ON ONE BACKGROUND OBTAIN JOB (Maintain.Model [job_step] on a [JObtain] job  <=>  Issuance.Model thread
    [PObtain true] = ObtainCertAsync, config.go:508).  For EVERY Maintain state (other jobs, passes, cache arbitrary) in
    which the k-th job for [n] is a queued obtain job and the lock of [n] is free, and EVERY Issuance state (any other
    threads) in which thread [t] is such a request at its entry (pre-check name = save name = n), its lock free; storage
    holding a COMPLETE bundle for [n] (same certificate on both sides) or NONE of its three files ([bundle_rel]);
    ReusePrivateKeys, DisableStorageCheck, issuer handing out due certificates or not, ANY number [m] of failed attempts:
    running the job alone ([mh_obtain]: pre-check [-> loaded, done | lock; issuer fails; m attempts; recovers; attempt] //
    [lbl_obtain]: Exists crt,key,meta [-> nil | checkStorage, Lock, m x (Exists crt, cert_obtaining, [Load key], Issue
    fails, cert_failed, retry), Exists crt, cert_obtaining, [Load key], Issue, Store x3, cert_obtained, Unlock]) the
    two models agree on
    1. the issuer: called iff NOTHING is stored, once per attempt (1 + m, or 0 + 0);
    2. storage: new certificate (fresh identity, due-ness from the issuer) stored iff nothing was; [bundle_rel] holds
       again; bundle present: the Issuance shared state is untouched; every other name / key untouched (scratch key);
    3. the lock: free afterwards on both sides, all other locks untouched;
    4. control: the request returns nil.  Bundle present: Maintain loads it into the cache at once and the job ends;
       else the job is at [Reload], nothing cached yet, and its LAST step (CacheManagedCertificate, which is in
       manageOne's closure and not in obtainCert, hence has no [PObtain] counterpart) caches the NEW certificate;
    5. the identity counters stay synchronised. *)

Theorem S_maintain_issuance_obtain_job_agree : forall od idue (s0 : M.state) n k old pre post (si : I.state) t th lk idn reuse chk m,
  (* Maintain: the k-th job for n is an obtain job that has not started; nobody holds the lock *)
  M.split_job n k (M.jobs s0) = Some (pre, M.Job n M.JObtain old M.Queued, post) ->
  M.lock_held (M.jobs s0) n = false ->
  (* Issuance: thread t is an ObtainCertAsync request at its entry; the lock is free *)
  nth_error (I.thr si) t = Some th ->
  I.cfg th = ocfg lk n idn reuse chk idue ->
  I.tpc th = I.PPre I.KCrt -> I.cur th = I.OpObtain -> I.canc th = false ->
  I.lks (I.sh si) lk = None ->
  (* translation: a complete bundle with the same certificate on both sides, or none of its files *)
  bundle_rel (M.store s0) (I.sto (I.sh si)) n -> M.next s0 = I.ncid (I.sh si) ->
  let present := is_some (M.stored (M.store s0) n) in
  let sm := M.run od idue s0 (mh_obtain n k present m) in
  let es := ev_obtain t lk n idn reuse chk present m in
  exists si',
    I.run si (labels_of t (lbl_obtain reuse chk present m)) = Some (si', es) /\
    (* 1. the issuer: called iff NOTHING is stored; once per attempt *)
    (M.issued sm = repeat n (count_iss idn 0 es) ++ M.issued s0 /\
     M.failed sm = repeat n (count_iss idn 2 es) ++ M.failed s0 /\
     count_iss idn 0 es = (if present then 0 else 1) /\ count_iss idn 2 es = (if present then 0 else m)) /\
    (* 2. storage: a new certificate is stored iff nothing was; nothing else changes *)
    (bundle_rel (M.store sm) (I.sto (I.sh si')) n /\
     (if present
      then M.store sm = M.store s0 /\ I.sh si' = I.sh si
      else M.stored (M.store sm) n = Some (M.Cert (M.next s0) n [] idue true) /\
           exists key, I.sto (I.sh si') (I.SK n I.KCrt) = Some (I.VCrt (I.Cert (I.ncid (I.sh si)) key idue))) /\
     (forall n', n' <> n -> M.stored (M.store sm) n' = M.stored (M.store s0) n') /\
     (forall key, key <> I.RW t -> (forall j, key <> I.SK n j) -> I.sto (I.sh si') key = I.sto (I.sh si) key)) /\
    (* 3. the lock: free afterwards on both sides (Issuance: every other lock untouched) *)
    (M.lock_held (M.jobs sm) n = false /\ I.lks (I.sh si') lk = None /\
     forall l, l <> lk -> I.lks (I.sh si') l = I.lks (I.sh si) l) /\
    (* 4. control: the request has returned nil.  Maintain: bundle present => loaded into the
          cache at once, job gone; else the job is at [Reload], nothing cached yet, and its last
          step (CacheManagedCertificate, outside obtainCert) caches the NEW certificate *)
    (M.lasterr sm = false /\
     match M.stored (M.store s0) n with
     | Some mc => M.jobs sm = pre ++ post /\ M.cache sm = M.cache_add mc (M.cache s0)
     | None => M.jobs sm = pre ++ M.Job n M.JObtain old M.Reload :: post /\ M.cache sm = M.cache s0 /\
               let sm' := M.step od idue sm (M.JobStep n k) in
               M.jobs sm' = pre ++ post /\ M.cache sm' = M.cache_add (M.Cert (M.next s0) n [] idue true) (M.cache s0) /\
               M.store sm' = M.store sm /\ M.issued sm' = M.issued sm /\ M.failed sm' = M.failed sm
     end /\
     exists th', nth_error (I.thr si') t = Some th' /\ I.tpc th' = I.PDone I.ROk /\ I.seen th' = I.seen th) /\
    (* 5. the identity counters stay synchronised *)
    M.next sm = I.ncid (I.sh si').
Proof. exact obtain_job_agree. Qed.
Print Assumptions S_maintain_issuance_obtain_job_agree.


(** the lock in between.  Maintain: held after the first step and after each failed attempt; Issuance: the trace
    [ev_obtain .. false m] is  a ++ LockAcquired :: b ++ [Unlock]  with no lock event in a, b and no issuer call in a. *)
Theorem S_maintain_issuance_obtain_job_lock_span :
  (forall od idue (s0 : M.state) n k old pre post i,
     M.split_job n k (M.jobs s0) = Some (pre, M.Job n M.JObtain old M.Queued, post) ->
     M.lock_held (M.jobs s0) n = false ->
     M.stored (M.store s0) n = None ->
     M.lock_held (M.jobs (M.run od idue s0 (M.JobStep n k :: M.SetIssuer n true :: repeat (M.JobStep n k) i))) n = true) /\
  (forall t lk n idn reuse chk m,
     exists a b, ev_obtain t lk n idn reuse chk false m = a ++ I.Ev t (I.OAcq lk) 0 :: b ++ [I.Ev t (I.OUnlock lk) 0] /\
       (forall e, In e (a ++ b) -> forall l, I.e_op e <> I.OAcq l /\ I.e_op e <> I.OUnlock l) /\
       (forall e, In e a -> is_iss idn 0 e = false /\ is_iss idn 2 e = false)).
Proof. split; [exact obtain_job_lock_held_meanwhile|exact ev_obtain_lock_span]. Qed.

(** THE RE-CHECK UNDER THE LOCK ("certificate already exists in storage", config.go:550).  Nothing stored at the
    pre-check; the job takes the lock; then somebody else stores a bundle (Maintain: event [ExtRenew n rest]; Issuance:
    ANY state in which thread [t] is as it was, still owns the lock, and the three files exist); the re-check finds it:
    both sides end the job without calling the issuer, storage as the other writer left it, lock free. *)

Theorem S_maintain_issuance_obtain_job_recheck_agree : forall od idue (s0 : M.state) n k old pre post rest (si : I.state) t th lk idn reuse chk,
  M.split_job n k (M.jobs s0) = Some (pre, M.Job n M.JObtain old M.Queued, post) ->
  M.lock_held (M.jobs s0) n = false ->
  M.stored (M.store s0) n = None ->
  nth_error (I.thr si) t = Some th ->
  I.cfg th = ocfg lk n idn reuse chk idue ->
  I.tpc th = I.PPre I.KCrt -> I.cur th = I.OpObtain -> I.canc th = false ->
  I.lks (I.sh si) lk = None ->
  I.sto (I.sh si) (I.SK n I.KCrt) = None ->
  let sm := M.run od idue s0 [M.JobStep n k; M.ExtRenew n rest; M.JobStep n k] in
  (* Maintain: no issuer call, the other instance's bundle is what is stored, lock free, [Reload] *)
  (M.issued sm = M.issued s0 /\ M.failed sm = M.failed s0 /\
   M.stored (M.store sm) n = Some (M.Cert (M.next s0) n rest false true) /\
   M.lock_held (M.jobs sm) n = false /\ M.jobs sm = pre ++ M.Job n M.JObtain old M.Reload :: post /\
   M.lock_held (M.jobs (M.run od idue s0 [M.JobStep n k; M.ExtRenew n rest])) n = true) /\
  (* Issuance, first half: pre-check, [checkStorage], lock *)
  exists si1 th1,
    I.run si (labels_of t (lbl_oA chk)) = Some (si1, ev_oA t lk n chk) /\
    nth_error (I.thr si1) t = Some th1 /\ I.lks (I.sh si1) lk = Some t /\
    (* second half, from any state in which [t] is as it was, still owns the lock, and the three
       files exist: re-check, Unlock, nil; nothing stored, no issuer call *)
    forall si2 vc vk vm,
      nth_error (I.thr si2) t = Some th1 -> I.lks (I.sh si2) lk = Some t ->
      I.sto (I.sh si2) (I.SK n I.KCrt) = Some vc -> I.sto (I.sh si2) (I.SK n I.KKey) = Some vk ->
      I.sto (I.sh si2) (I.SK n I.KMeta) = Some vm ->
      exists si3 th3,
        I.run si2 (labels_of t lbl_orecheck) = Some (si3, ev_orecheck t lk n) /\
        count_iss idn 0 (ev_oA t lk n chk ++ ev_orecheck t lk n) = 0 /\
        count_iss idn 2 (ev_oA t lk n chk ++ ev_orecheck t lk n) = 0 /\
        I.sto (I.sh si3) = I.sto (I.sh si2) /\ I.lks (I.sh si3) lk = None /\
        nth_error (I.thr si3) t = Some th3 /\ I.tpc th3 = I.PDone I.ROk /\ I.seen th3 = I.seen th.
Proof. exact obtain_job_recheck_agree. Qed.


(** INCOMPLETE BUNDLES ARE ABSENT (Issuance.Model, for Maintain.Model whose [store] cannot express them): in EVERY state,
    whenever any of the three files of name [n] is missing, obtainCert's pre-check (Exists crt && key && meta,
    config.go:1229) answers "no" within three Exists and the request continues as from empty storage; manageOne's
    CacheManagedCertificate (Load key, crt, meta; fs.ErrNotExist) fails within three Loads and enters the obtain path,
    nothing cached; storage and locks untouched.  Hence "stored n = Some _ iff all three files exist" is the right
    abstraction and the complete-or-absent hypothesis ([bundle_rel]) of the agreement theorems loses nothing. *)
Theorem S_issuance_incomplete_bundle_is_absent : forall (si : I.state) t th n,
  nth_error (I.thr si) t = Some th -> I.canc th = false ->
  I.c_pk (I.cfg th) = n -> I.c_vk (I.cfg th) = n ->
  incomplete (I.sto (I.sh si)) n ->
  (* obtainCert (sync or async) at its pre-check *)
  (forall a, I.c_prog (I.cfg th) = I.PObtain a -> I.tpc th = I.PPre I.KCrt -> I.cur th = I.OpObtain ->
     exists fbs es,
       I.run si (labels_of t fbs) = Some (I.State (I.upd (I.thr si) t (I.set_pc th (I.after_pre (I.cfg th)))) (I.sh si), es) /\
       1 <= length es <= 3 /\ (forall e, In e es -> exists j o, e = I.Ev t (I.OExists (I.SK n j)) o)) /\
  (* manageOne (sync) at its first load *)
  (I.c_prog (I.cfg th) = I.PManage -> I.tpc th = I.PMLd I.Ph0 I.KKey -> I.cur th = I.OpObtain ->
     exists fbs es th',
       I.run si (labels_of t fbs) = Some (I.State (I.upd (I.thr si) t th') (I.sh si), es) /\
       I.tpc th' = I.PPre I.KCrt /\ I.cur th' = I.OpObtain /\ I.seen th' = I.seen th /\ I.cfg th' = I.cfg th /\
       1 <= length es <= 3 /\ (forall e, In e es -> exists j o, e = I.Ev t (I.OLoad (I.SK n j)) o)).
Proof. exact incomplete_bundle_is_absent. Qed.

(** AGREEMENT ON SYNCHRONOUS MANAGE (Maintain.Model event [Manage n false]  <=>  Issuance.Model thread [PManage] run alone
    to [PDone]; both = manageOne with async = false, config.go:396).  For EVERY Maintain state in which [n] is not
    on-demand, not yet managed in the cache, its lock free, and EVERY Issuance state in which thread [t] is a ManageSync
    request at its entry, its lock free; complete-or-absent storage ([bundle_rel]) whose stored key is the stored
    certificate's key; issuer failing for [n] or not ([fail]: Maintain [is_failing], Issuance fault FErr at IssueStart):
    the whole case table of [C05_manage_load_else_obtain_renew_if_due] holds ON BOTH SIDES:
    1. the issuer is called iff nothing is stored or the stored certificate is due -- exactly once (one attempt);
    2. a new certificate is stored iff that call succeeded; nothing else changes;
    3. the lock is free afterwards, Maintain creates no job;
    4. the caller gets an error iff the needed issuance failed ([lasterr] / [PDone RErr]);
    5. THE CACHE: Maintain's [cache_add] / [reload_one]  ~  Issuance's [seen]:
         nothing stored, issuer fails  -> nothing cached on either side;
         nothing stored, issuer ok     -> the new certificate;
         stored, not due               -> the stored certificate;
         stored, due, issuer FAILS     -> the OLD certificate stays cached on BOTH sides (manageOne caches before it renews);
         stored, due, issuer ok        -> the new certificate ([cache_replace old new] / [seen] overwritten after reload);
    6. the identity counters stay synchronised. *)

Theorem S_maintain_issuance_manage_sync_agree : forall od idue (s0 : M.state) n (si : I.state) t th lk idn reuse chk force fail,
  (* Maintain: not on-demand, not yet managed, nobody holds the lock; the issuer's status *)
  od n = false -> M.managed_for n (M.cache s0) = false -> M.lock_held (M.jobs s0) n = false ->
  M.is_failing s0 n = fail ->
  (forall mc, M.stored (M.store s0) n = Some mc -> M.chead mc = n) ->          (* part of [WF] *)
  (* Issuance: thread t is a ManageSync request at its entry; the lock is free *)
  nth_error (I.thr si) t = Some th ->
  I.cfg th = mcfg lk n idn reuse chk force idue ->
  I.tpc th = I.PMLd I.Ph0 I.KKey -> I.cur th = I.OpObtain -> I.canc th = false ->
  I.lks (I.sh si) lk = None ->
  (* translation: complete bundle with the same certificate, or none of its files; the stored
     key is the stored certificate's key *)
  bundle_rel (M.store s0) (I.sto (I.sh si)) n ->
  (forall kk ic, I.sto (I.sh si) (I.SK n I.KKey) = Some (I.VKey kk) ->
                 I.sto (I.sh si) (I.SK n I.KCrt) = Some (I.VCrt ic) -> I.c_kid ic = kk) ->
  M.next s0 = I.ncid (I.sh si) ->
  let st := M.stored (M.store s0) n in
  let present := is_some st in
  let due := match st with Some mc => M.cdue mc | None => false end in
  let okI := need present due && negb fail in     (* an issuance is needed and succeeds *)
  let errI := need present due && fail in         (* ... is needed and fails *)
  let new := M.Cert (M.next s0) n [] idue true in
  let sm := M.step od idue s0 (M.Manage n false) in
  let es := ev_manage t lk n idn reuse chk present due fail in
  exists si' th',
    I.run si (labels_of t (lbl_manage reuse chk present due fail)) = Some (si', es) /\
    nth_error (I.thr si') t = Some th' /\
    (* 1. the issuer: called iff nothing is stored or the stored certificate is due; once *)
    (M.issued sm = repeat n (count_iss idn 0 es) ++ M.issued s0 /\
     M.failed sm = repeat n (count_iss idn 2 es) ++ M.failed s0 /\
     count_iss idn 0 es = (if okI then 1 else 0) /\ count_iss idn 2 es = (if errI then 1 else 0)) /\
    (* 2. storage: a new certificate is stored iff Issue succeeded; nothing else changes *)
    (bundle_rel (M.store sm) (I.sto (I.sh si')) n /\
     (if okI
      then M.stored (M.store sm) n = Some new /\
           exists key, I.sto (I.sh si') (I.SK n I.KCrt) = Some (I.VCrt (I.Cert (I.ncid (I.sh si)) key idue))
      else M.store sm = M.store s0 /\ forall j, I.sto (I.sh si') (I.SK n j) = I.sto (I.sh si) (I.SK n j)) /\
     (forall n', n' <> n -> M.stored (M.store sm) n' = M.stored (M.store s0) n') /\
     (forall key, key <> I.RW t -> (forall j, key <> I.SK n j) -> I.sto (I.sh si') key = I.sto (I.sh si) key)) /\
    (* 3. the lock: free afterwards (Maintain: no job created); other locks untouched *)
    (M.jobs sm = M.jobs s0 /\ I.lks (I.sh si') lk = None /\
     forall l, l <> lk -> I.lks (I.sh si') l = I.lks (I.sh si) l) /\
    (* 4. the caller: an error iff the needed issuance failed *)
    (M.lasterr sm = errI /\ I.tpc th' = I.PDone (if errI then I.RErr else I.ROk)) /\
    (* 5. the cache: Maintain's [cache_add] / [reload_one]  ~  Issuance's [seen] *)
    match st with
    | None =>
        if fail then M.cache sm = M.cache s0 /\ I.seen th' = I.seen th
        else M.cache sm = M.cache_add new (M.cache s0) /\
             exists key, I.seen th' = Some (I.Cert (I.ncid (I.sh si)) key idue)
    | Some mc =>
        if M.cdue mc && negb fail
        then M.cache sm = M.cache_replace mc new (M.cache_add mc (M.cache s0)) /\
             exists key, I.seen th' = Some (I.Cert (I.ncid (I.sh si)) key idue)
        else (* not due, or due and the renewal FAILED: the old certificate stays cached *)
             M.cache sm = M.cache_add mc (M.cache s0) /\
             exists ic, I.sto (I.sh si) (I.SK n I.KCrt) = Some (I.VCrt ic) /\ I.seen th' = Some ic /\ cert_rel mc ic
    end /\
    (* 6. the identity counters stay synchronised *)
    M.next sm = I.ncid (I.sh si').
Proof. exact manage_sync_agree. Qed.
Print Assumptions S_maintain_issuance_manage_sync_agree.


(** ... and with Maintain's invariant [WF] (C05_wf_invariant): the certificate Issuance's [seen] designates IS in
    Maintain's cache and is the certificate storage now holds; [seen = None] only when nothing was stored and the
    obtain failed; a successful renewal removed the old certificate from Maintain's cache. *)

Theorem S_maintain_issuance_manage_sync_seen_is_cached : forall od idue (s0 : M.state) n (si : I.state) t th lk idn reuse chk force fail,
  WF od s0 ->
  od n = false -> M.managed_for n (M.cache s0) = false -> M.lock_held (M.jobs s0) n = false ->
  M.is_failing s0 n = fail ->
  nth_error (I.thr si) t = Some th ->
  I.cfg th = mcfg lk n idn reuse chk force idue ->
  I.tpc th = I.PMLd I.Ph0 I.KKey -> I.cur th = I.OpObtain -> I.canc th = false -> I.seen th = None ->
  I.lks (I.sh si) lk = None ->
  bundle_rel (M.store s0) (I.sto (I.sh si)) n ->
  (forall kk ic, I.sto (I.sh si) (I.SK n I.KKey) = Some (I.VKey kk) ->
                 I.sto (I.sh si) (I.SK n I.KCrt) = Some (I.VCrt ic) -> I.c_kid ic = kk) ->
  M.next s0 = I.ncid (I.sh si) ->
  let st := M.stored (M.store s0) n in
  let present := is_some st in
  let due := match st with Some mc => M.cdue mc | None => false end in
  let sm := M.step od idue s0 (M.Manage n false) in
  exists si' th',
    I.run si (labels_of t (lbl_manage reuse chk present due fail)) =
      Some (si', ev_manage t lk n idn reuse chk present due fail) /\
    nth_error (I.thr si') t = Some th' /\
    match I.seen th' with
    | Some ic' =>
        (* what the request cached is in Maintain's cache, and it is what storage now holds *)
        exists mc', In mc' (M.cache sm) /\ M.stored (M.store sm) n = Some mc' /\ cert_rel mc' ic'
    | None =>
        (* nothing cached: nothing was stored and the obtain failed *)
        M.cache sm = M.cache s0 /\ M.lasterr sm = true /\ I.tpc th' = I.PDone I.RErr /\ st = None
    end /\
    (* a successful renewal replaced the old certificate *)
    (forall mc, st = Some mc -> M.cdue mc = true -> fail = false -> ~ In mc (M.cache sm)).
Proof. exact manage_sync_seen_is_cached. Qed.


(** OUTSIDE THE OVERLAP (finding about the hypothesis "stored key = stored certificate's key"): with a key file that is
    not the certificate's key the Issuance request -- as CacheManagedCertificate / tls.X509KeyPair in the Go code --
    returns an error without caching and without obtaining; Maintain, which has no keys, caches the certificate and
    returns nil from the [bundle_rel]-related store. *)

Theorem S_maintain_manage_key_mismatch_refuted :
  exists si' es,
    I.run (I.init_state [mcfg 8 4 4 false false false false] mis_sto) (repeat (I.Label 0 I.FNone false) 3) = Some (si', es) /\
    map I.tpc (I.thr si') = [I.PDone I.RErr] /\ map I.seen (I.thr si') = [None] /\ count_iss 4 0 es = 0 /\
    bundle_rel (M.store mis_m) mis_sto 4 /\
    let sm := M.step (fun _ => false) false mis_m (M.Manage 4 false) in
    M.lasterr sm = false /\ M.cache sm = [M.Cert 9 4 [] false true].
Proof. exact manage_key_mismatch_refuted. Qed.
Print Assumptions S_maintain_manage_key_mismatch_refuted.


(** ASYNCHRONOUS MANAGE.  Issuance.Model has no asynchronous [PManage] (ManageAsync's job queue is not in the model).
    manageOne(async) = load-and-cache + jm.Submit(job); the job = ObtainCertAsync + CacheManagedCertificate, resp.
    RenewCertAsync + reloadManagedCertificate.  Maintain: event [Manage n true] + [JobStep]s; Issuance: the job's
    obtainCert / renewCert = threads [PObtain true] / [PRenew true].  The two compositions: after Maintain's enqueueing
    step the hypotheses of the job theorems hold (k = 0), so the job started by an asynchronous manage agrees with the
    Issuance thread for ANY number [m] of failed attempts; Maintain then ends where the synchronous manage ends.
    (1) nothing stored -> obtain job: *)

Theorem S_maintain_issuance_manage_async_obtain_agree : forall od idue (s0 : M.state) n (si : I.state) t th lk idn reuse chk m,
  od n = false -> M.managed_for n (M.cache s0) = false -> no_job_for n (M.jobs s0) = true ->
  M.stored (M.store s0) n = None ->
  nth_error (I.thr si) t = Some th ->
  I.cfg th = ocfg lk n idn reuse chk idue ->
  I.tpc th = I.PPre I.KCrt -> I.cur th = I.OpObtain -> I.canc th = false ->
  I.lks (I.sh si) lk = None ->
  bundle_rel (M.store s0) (I.sto (I.sh si)) n -> M.next s0 = I.ncid (I.sh si) ->
  let new := M.Cert (M.next s0) n [] idue true in
  let s1 := M.step od idue s0 (M.Manage n true) in
  let sm := M.run od idue s0 (M.Manage n true :: mh_obtain n 0 false m) in
  let es := ev_obtain t lk n idn reuse chk false m in
  (* the asynchronous call itself: only enqueues *)
  (M.jobs s1 = M.jobs s0 ++ [M.Job n M.JObtain None M.Queued] /\ M.store s1 = M.store s0 /\ M.cache s1 = M.cache s0 /\
   M.issued s1 = M.issued s0 /\ M.failed s1 = M.failed s0 /\ M.lasterr s1 = false) /\
  (* its job and the Issuance thread *)
  exists si',
    I.run si (labels_of t (lbl_obtain reuse chk false m)) = Some (si', es) /\
    (M.issued sm = repeat n (count_iss idn 0 es) ++ M.issued s0 /\
     M.failed sm = repeat n (count_iss idn 2 es) ++ M.failed s0 /\
     count_iss idn 0 es = 1 /\ count_iss idn 2 es = m) /\
    (bundle_rel (M.store sm) (I.sto (I.sh si')) n /\ M.stored (M.store sm) n = Some new /\
     exists key, I.sto (I.sh si') (I.SK n I.KCrt) = Some (I.VCrt (I.Cert (I.ncid (I.sh si)) key idue))) /\
    (M.lock_held (M.jobs sm) n = false /\ I.lks (I.sh si') lk = None) /\
    (exists th', nth_error (I.thr si') t = Some th' /\ I.tpc th' = I.PDone I.ROk) /\
    (* ... and after the job's last step Maintain is where the SYNCHRONOUS manage ends *)
    let sm' := M.step od idue sm (M.JobStep n 0) in
    M.jobs sm' = M.jobs s0 /\ M.cache sm' = M.cache_add new (M.cache s0) /\ M.store sm' = M.store sm /\
    M.next sm = I.ncid (I.sh si').
Proof. exact manage_async_obtain_agree. Qed.


(** (2) a due certificate stored -> cached at once (as the synchronous manage), renewal job (S9's job theorem): *)

Theorem S_maintain_issuance_manage_async_renew_agree : forall od idue (s0 : M.state) n mc (si : I.state) t th lk pk idn reuse chk kk ic vm m,
  od n = false -> M.managed_for n (M.cache s0) = false -> no_job_for n (M.jobs s0) = true ->
  M.stored (M.store s0) n = Some mc -> M.cdue mc = true ->
  nth_error (I.thr si) t = Some th ->
  I.cfg th = rcfg lk pk n idn reuse chk idue ->
  I.tpc th = I.after_pre (I.cfg th) -> I.cur th = I.OpRenew -> I.canc th = false ->
  I.lks (I.sh si) lk = None ->
  I.sto (I.sh si) (I.SK n I.KKey) = Some (I.VKey kk) ->
  I.sto (I.sh si) (I.SK n I.KCrt) = Some (I.VCrt ic) ->
  I.sto (I.sh si) (I.SK n I.KMeta) = Some vm ->
  cert_rel mc ic -> M.next s0 = I.ncid (I.sh si) ->
  let new := M.Cert (M.next s0) n [] idue true in
  let s1 := M.step od idue s0 (M.Manage n true) in
  let sm := M.run od idue s0 (M.Manage n true :: mh_renew n 0 true m) in
  let es := ev_renew t lk n idn chk true m in
  (* the asynchronous call itself: caches the stored certificate (as the synchronous one), enqueues *)
  (M.jobs s1 = M.jobs s0 ++ [M.Job n M.JRenew (Some mc) M.Queued] /\ M.store s1 = M.store s0 /\
   M.cache s1 = M.cache_add mc (M.cache s0) /\ M.issued s1 = M.issued s0 /\ M.failed s1 = M.failed s0 /\ M.lasterr s1 = false) /\
  exists si',
    I.run si (labels_of t (lbl_renew chk true m)) = Some (si', es) /\
    (M.issued sm = repeat n (count_iss idn 0 es) ++ M.issued s0 /\
     M.failed sm = repeat n (count_iss idn 2 es) ++ M.failed s0 /\
     count_iss idn 0 es = 1 /\ count_iss idn 2 es = m) /\
    (bundle_rel (M.store sm) (I.sto (I.sh si')) n /\ M.stored (M.store sm) n = Some new /\
     exists key, I.sto (I.sh si') (I.SK n I.KCrt) = Some (I.VCrt (I.Cert (I.ncid (I.sh si)) key idue))) /\
    (M.lock_held (M.jobs sm) n = false /\ I.lks (I.sh si') lk = None) /\
    (exists th', nth_error (I.thr si') t = Some th' /\ I.tpc th' = I.PDone I.ROk) /\
    (* the job is at [Reload] with the cached OLD certificate as [oldCert]: its last step is
       reloadManagedCertificate -- what the synchronous manage does at once *)
    M.jobs sm = M.jobs s0 ++ [M.Job n M.JRenew (Some mc) M.Reload] /\ M.cache sm = M.cache_add mc (M.cache s0) /\
    M.next sm = I.ncid (I.sh si').
Proof. exact manage_async_renew_agree. Qed.


(** Satisfiability of the hypotheses / non-trivial instances: an obtain job with two failed attempts next to another
    locked job and another thread; the re-check with a foreign writer; an INCOMPLETE bundle (crt, meta without key) is
    ABSENT for obtainCert (one issuer call, complete bundle afterwards -- as Maintain from [stored n = None]); an orphan key
    is reused under ReusePrivateKeys; synchronous manage of a due certificate, issuer ok / failing; [WF] of those states;
    asynchronous manage + job + reload = synchronous manage (one failed attempt in between). *)

Example S_maintain_issuance_obtain_job_nontrivial :
  exists si' es,
    I.run exo_i (labels_of 1 (lbl_obtain true true false 2)) = Some (si', es) /\
    length es = 26 /\ count_iss 4 0 es = 1 /\ count_iss 4 2 es = 2 /\
    I.sto (I.sh si') (I.SK 4 I.KCrt) = Some (I.VCrt (I.Cert 10 7 false)) /\
    bundle_rel (M.store exo_m) (I.sto (I.sh exo_i)) 4 /\
    M.stored (M.store (M.run (fun _ => false) false exo_m (mh_obtain 4 0 false 2))) 4 = Some (M.Cert 10 4 [] false true) /\
    M.failed (M.run (fun _ => false) false exo_m (mh_obtain 4 0 false 2)) = [4; 4] /\
    M.split_job 4 0 (M.jobs exo_m) = Some ([M.Job 6 M.JRenew None M.Locked], M.Job 4 M.JObtain None M.Queued, []) /\
    M.lock_held (M.jobs exo_m) 4 = false.
Proof. exact obtain_job_agree_nontrivial. Qed.

Example S_maintain_issuance_obtain_recheck_nontrivial :
  exists s1 es1 s3 es3,
    I.run exo_i (labels_of 1 (lbl_oA true)) = Some (s1, es1) /\ I.lks (I.sh s1) 8 = Some 1 /\
    I.run (exo_i2 s1) (labels_of 1 lbl_orecheck) = Some (s3, es3) /\
    map I.tpc (I.thr s3) = [I.PMLd I.Ph0 I.KKey; I.PDone I.ROk] /\ I.lks (I.sh s3) 8 = None /\
    count_iss 4 0 (es1 ++ es3) = 0 /\
    M.stored (M.store (M.run (fun _ => false) false exo_m [M.JobStep 4 0; M.ExtRenew 4 [5]; M.JobStep 4 0])) 4 =
      Some (M.Cert 10 4 [5] false true) /\
    M.stored (M.store exo_m) 4 = None.
Proof. exact obtain_job_recheck_nontrivial. Qed.

Example S_issuance_obtain_incomplete_bundle_is_absent :
  exists si' es,
    I.run (I.init_state [ocfg 8 4 4 false false false] inc_sto) (repeat (I.Label 0 I.FNone false) 14) = Some (si', es) /\
    firstn 2 (map I.e_out es) = [0; 1] /\                     (* Exists crt: yes; Exists key: no *)
    count_iss 4 0 es = 1 /\ map I.tpc (I.thr si') = [I.PDone I.ROk] /\
    I.sto (I.sh si') (I.SK 4 I.KKey) = Some (I.VKey 0) /\
    I.sto (I.sh si') (I.SK 4 I.KCrt) = Some (I.VCrt (I.Cert 0 0 false)) /\
    I.sto (I.sh si') (I.SK 4 I.KMeta) = Some (I.VMeta 0) /\
    (* Maintain from [stored 4 = None] *)
    let sm := M.run (fun _ => false) false inc_m [M.JobStep 4 0; M.JobStep 4 0] in
    M.issued sm = [4] /\ M.stored (M.store sm) 4 = Some (M.Cert 0 4 [] false true) /\
    bundle_rel (M.store sm) (I.sto (I.sh si')) 4.
Proof. exact obtain_incomplete_bundle_is_absent. Qed.

Example S_issuance_obtain_reuses_orphan_key :
  exists si' es,
    I.run (I.init_state [ocfg 8 4 4 true false false] (I.sto_of_list [(I.SK 4 I.KKey, I.VKey 77)]))
          (repeat (I.Label 0 I.FNone false) 13) = Some (si', es) /\
    count_iss 4 0 es = 1 /\ map I.tpc (I.thr si') = [I.PDone I.ROk] /\
    I.sto (I.sh si') (I.SK 4 I.KKey) = Some (I.VKey 77) /\
    I.sto (I.sh si') (I.SK 4 I.KCrt) = Some (I.VCrt (I.Cert 0 77 false)).
Proof. exact obtain_reuses_orphan_key. Qed.

Example S_maintain_issuance_manage_sync_nontrivial :
  (exists si' es,
     I.run exm_i (labels_of 1 (lbl_manage true true true true false)) = Some (si', es) /\
     length es = 25 /\ count_iss 4 0 es = 1 /\ count_iss 4 2 es = 0 /\
     map I.seen (I.thr si') = [None; Some (I.Cert 10 2 false)] /\ map I.tpc (I.thr si') = [I.after_pre (I.TCfg (I.PRenew true) 1 6 6 6 false true false false); I.PDone I.ROk] /\
     M.cache (M.step (fun _ => false) false (exm_m []) (M.Manage 4 false)) = [M.Cert 3 6 [] false true; M.Cert 10 4 [] false true]) /\
  (exists si' es,
     I.run exm_i (labels_of 1 (lbl_manage true true true true true)) = Some (si', es) /\
     count_iss 4 0 es = 0 /\ count_iss 4 2 es = 1 /\
     map I.seen (I.thr si') = [None; Some (I.Cert 9 2 true)] /\ map I.tpc (I.thr si') = [I.after_pre (I.TCfg (I.PRenew true) 1 6 6 6 false true false false); I.PDone I.RErr] /\
     M.cache (M.step (fun _ => false) false (exm_m [4]) (M.Manage 4 false)) = [M.Cert 3 6 [] false true; M.Cert 9 4 [] true true] /\
     M.lasterr (M.step (fun _ => false) false (exm_m [4]) (M.Manage 4 false)) = true) /\
  bundle_rel (M.store (exm_m [])) (I.sto (I.sh exm_i)) 4 /\
  M.managed_for 4 (M.cache (exm_m [])) = false /\ M.lock_held (M.jobs (exm_m [])) 4 = false.
Proof. exact manage_sync_agree_nontrivial. Qed.

Example S_maintain_issuance_manage_sync_wf_nontrivial : forall fl, WF (fun _ => false) (exm_m fl).
Proof. exact manage_sync_wf_nontrivial. Qed.

Example S_maintain_issuance_manage_async_nontrivial :
  no_job_for 4 (M.jobs (exm_m [])) = true /\
  let sm := M.run (fun _ => false) false (exm_m []) (M.Manage 4 true :: mh_renew 4 0 true 1 ++ [M.JobStep 4 0]) in
  M.cache sm = M.cache (M.step (fun _ => false) false (exm_m []) (M.Manage 4 false)) /\
  M.store sm = M.store (M.step (fun _ => false) false (exm_m []) (M.Manage 4 false)) /\
  M.failed sm = [4] /\ M.jobs sm = M.jobs (exm_m []).
Proof. exact manage_async_nontrivial. Qed.

Example S_issuance_incomplete_bundle_nontrivial :
  incomplete (I.sto_of_list [(I.SK 4 I.KCrt, I.VCrt (I.Cert 3 2 true)); (I.SK 4 I.KMeta, I.VMeta 3)]) 4 /\
  incomplete (I.sto_of_list [(I.SK 4 I.KKey, I.VKey 77)]) 4.
Proof. exact incomplete_bundle_nontrivial. Qed.
(** all theorems and examples of this module *)
Definition S12_all := (S_maintain_issuance_obtain_job_agree, S_maintain_issuance_obtain_job_lock_span, S_maintain_issuance_obtain_job_recheck_agree, S_issuance_incomplete_bundle_is_absent, S_maintain_issuance_manage_sync_agree, S_maintain_issuance_manage_sync_seen_is_cached, S_maintain_manage_key_mismatch_refuted, S_maintain_issuance_manage_async_obtain_agree, S_maintain_issuance_manage_async_renew_agree, S_maintain_issuance_obtain_job_nontrivial, S_maintain_issuance_obtain_recheck_nontrivial, S_issuance_obtain_incomplete_bundle_is_absent, S_issuance_obtain_reuses_orphan_key, S_maintain_issuance_manage_sync_nontrivial, S_maintain_issuance_manage_sync_wf_nontrivial, S_maintain_issuance_manage_async_nontrivial, S_issuance_incomplete_bundle_nontrivial).
Print Assumptions S12_all.
End S12.
