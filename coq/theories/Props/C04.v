From CM Require Import Gen.Consts Renewal.Model.
Theorem C04_placeholder : forall v, verdict_eqb v v = true.
Proof. destruct v; reflexivity. Qed.
Print Assumptions C04_placeholder.
