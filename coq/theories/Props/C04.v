(** C04 — Renewal is decided neither too late nor spuriously, whatever validity or ARI.

    [decide scale i rnd now] is the model of [Config.certNeedsRenewal] (Renewal/Model.v):
    [i] = validity period, RenewCheckInterval, RenewalWindowRatio (exact rational; numerator 0 =
    unset), DisableARI, ARI (selected time, window start/end; [None] = zero time);
    [rnd] = the value [rand.Int63n] returns when a time is improvised ([admissible i rnd]:
    0 <= rnd < its argument); [now] = the clock; [scale L r] = [time.Duration(float64(L)*r)].
    Times are Unix ns.  [lifetime i] = expiry - NotBefore, [remaining i now] = expiry - now,
    expiry = end of the second NotAfter; [eps L] = 2 + L/2^50 ns is the float64 tolerance.

    The rational statements hold for EVERY [scale] with [scale_spec scale]:
      0 <= L -> 0 < n <= d -> 0 <= scale L (n,d) /\ |d * scale L (n,d) - n * L| <= d * eps L
    (validated for Go's float64 arithmetic on every window of every run, and met by the exact
    IEEE-754 model [F64.scale_f64] that is compared with Go on every case).
    Only statements here, each closed by [exact]; [Print Assumptions] beneath. *)
From Coq Require Import ZArith List Bool Lia.
From CM Require Import Gen.Consts Renewal.Model Renewal.F64 Renewal.Proofs Renewal.F64Proofs.
Import ListNotations.
Open Scope Z_scope.

(** the literals of the code are the ones the property names *)
Theorem C04_constants_as_specified :
  ari_emergency_ratio = (1, 20) /\ imminent_ratio = (1, 50) /\ imminent_interval_factor = 5 /\
  expiry_truncate = second /\ expiry_add = second /\
  0 < fst default_renewal_ratio <= snd default_renewal_ratio.
Proof. exact constants_as_specified. Qed.
Print Assumptions C04_constants_as_specified.

(** ** total, never panics *)
Theorem C04_no_panic : forall scale i rnd now, decide scale i rnd now <> Panic.
Proof. exact no_panic. Qed.
Print Assumptions C04_no_panic.

Theorem C04_int63n_argument_positive : forall a n, improv_n a = Some n -> 0 < n.
Proof. exact improv_n_positive. Qed.
Print Assumptions C04_int63n_argument_positive.

(** ** renew whenever due — the four clauses *)

(** (1) the current time lies in the configured final fraction n/d of the lifetime *)
Theorem C04_renew_when_due_configured_fraction : forall scale, scale_spec scale ->
  forall i rnd now, wf i ->
  let n := fst (eff_ratio (cfg_ratio i)) in let d := snd (eff_ratio (cfg_ratio i)) in
  d * remaining i now < n * lifetime i - d * eps (lifetime i) ->
  decide scale i rnd now = Renew.
Proof. exact renew_in_configured_fraction. Qed.
Print Assumptions C04_renew_when_due_configured_fraction.

(** (2) within the emergency margin before expiry: final 1/50 of the lifetime, or less than five
    maintenance intervals left *)
Theorem C04_renew_when_due_emergency_margin : forall scale, scale_spec scale ->
  forall i rnd now, wf i ->
  50 * remaining i now < lifetime i - 50 * eps (lifetime i) \/ remaining i now < 5 * interval i ->
  decide scale i rnd now = Renew.
Proof.
  intros scale Hs i rnd now Hwf [H|H].
  - exact (renew_in_final_fiftieth scale Hs i rnd now Hwf H).
  - exact (renew_within_five_intervals scale i rnd now H).
Qed.
Print Assumptions C04_renew_when_due_emergency_margin.

(** (3) after expiry *)
Theorem C04_renew_when_due_expired : forall scale i rnd now, 0 < interval i ->
  spec_expiry (not_after i) <= now -> decide scale i rnd now = Renew.
Proof. exact renew_when_expired. Qed.
Print Assumptions C04_renew_when_due_expired.

(** (4) after the ARI-selected renewal time (stored, or improvised from the window with draw
    [rnd]) less one maintenance interval *)
Theorem C04_renew_when_due_after_selected_time : forall scale i rnd now s,
  disable_ari i = false -> select (ari i) rnd = Sel s -> s - interval i < now ->
  decide scale i rnd now = Renew.
Proof. exact renew_after_selected_time. Qed.
Print Assumptions C04_renew_when_due_after_selected_time.

(** ** not reported when none of these hold (full statement) *)
Theorem C04_wait_when_nothing_due : forall scale, scale_spec scale ->
  forall i rnd now, wf i ->
  let n := fst (eff_ratio (cfg_ratio i)) in let d := snd (eff_ratio (cfg_ratio i)) in
  d * remaining i now >= n * lifetime i + d * eps (lifetime i) ->
  50 * remaining i now >= lifetime i + 50 * eps (lifetime i) ->
  remaining i now >= 5 * interval i ->
  (forall s, disable_ari i = false -> select (ari i) rnd = Sel s ->
     now <= s - interval i /\ 20 * remaining i now >= lifetime i + 20 * eps (lifetime i)) ->
  decide scale i rnd now = Wait.
Proof. exact wait_when_nothing_due. Qed.
Print Assumptions C04_wait_when_nothing_due.

(** renewal information whose window lies in the future (it starts at least one maintenance
    interval from now) never triggers an immediate renewal, whatever time is drawn from it *)
Theorem C04_future_window_never_immediate : forall scale, scale_spec scale ->
  forall i rnd now ws we, wf i -> admissible i rnd ->
  sel (ari i) = None -> wstart (ari i) = Some ws -> wend (ari i) = Some we ->
  now + interval i <= ws ->
  let n := fst (eff_ratio (cfg_ratio i)) in let d := snd (eff_ratio (cfg_ratio i)) in
  d * remaining i now >= n * lifetime i + d * eps (lifetime i) ->
  20 * remaining i now >= lifetime i + 20 * eps (lifetime i) ->
  remaining i now >= 5 * interval i ->
  decide scale i rnd now = Wait.
Proof. exact future_window_never_immediate. Qed.
Print Assumptions C04_future_window_never_immediate.

(** ** renewal information can never postpone renewal *)

(** once the final 1/20 of the lifetime has begun, any selected time is overridden *)
Theorem C04_ari_cannot_postpone_past_one_twentieth : forall scale, scale_spec scale ->
  forall i rnd now s, wf i -> disable_ari i = false -> select (ari i) rnd = Sel s ->
  20 * remaining i now < lifetime i - 20 * eps (lifetime i) ->
  decide scale i rnd now = Renew.
Proof. exact ari_cannot_postpone_past_one_twentieth. Qed.
Print Assumptions C04_ari_cannot_postpone_past_one_twentieth.

(** and whatever the validity period alone demands (ARI disabled) is demanded with any ARI *)
Theorem C04_ari_never_postpones : forall scale i a dis rnd rnd' now,
  decide scale (Inputs (not_before i) (not_after i) (interval i) (cfg_ratio i) true a) rnd' now = Renew ->
  decide scale (Inputs (not_before i) (not_after i) (interval i) (cfg_ratio i) dis (ari i)) rnd now = Renew.
Proof. exact ari_never_postpones. Qed.
Print Assumptions C04_ari_never_postpones.

(** ** the verdict never changes back from renew to wait as time advances *)

(** for every input and a fixed draw *)
Theorem C04_monotone_in_now : forall scale i rnd now now', now <= now' ->
  decide scale i rnd now = Renew -> decide scale i rnd now' = Renew.
Proof. exact monotone_in_now. Qed.
Print Assumptions C04_monotone_in_now.

(** with a selected time, or no renewal information at all, or ARI disabled: whatever the draws *)
Theorem C04_monotone_in_now_selected_or_no_ari : forall scale i rnd rnd' now now',
  improvises i = false -> now <= now' ->
  decide scale i rnd now = Renew -> decide scale i rnd' now' = Renew.
Proof. exact monotone_in_now_any_draw. Qed.
Print Assumptions C04_monotone_in_now_selected_or_no_ari.

(** ** the improvised time *)
Theorem C04_improvised_in_window : forall i rnd ws we, admissible i rnd -> disable_ari i = false ->
  sel (ari i) = None -> wstart (ari i) = Some ws -> wend (ari i) = Some we ->
  exists s, select (ari i) rnd = Sel s /\ s mod second = 0 /\ ws < s /\
    (s + second <= we \/ (we / second <= ws / second + 1 /\ s = (ws / second + 1) * second)).
Proof. exact improvised_in_window. Qed.
Print Assumptions C04_improvised_in_window.

(** [decide_all_rnd] (what the correspondence compares) is the verdict for every admissible draw *)
Theorem C04_decide_all_rnd_sound : forall scale i now v, decide_all_rnd scale i now = Some v ->
  forall rnd, admissible i rnd -> decide scale i rnd now = v.
Proof. exact decide_all_rnd_sound. Qed.
Print Assumptions C04_decide_all_rnd_sound.

(** ** the run-time monitor is the theorem: [spec_ok] (Model.v; evaluated by the check on every
    answer of the real code, called between the clock readings t0 and t1) holds of the model
    for every input, every admissible draw and every instant in [t0, t1] *)
Theorem C04_spec_ok_of_model : forall scale, scale_spec scale ->
  forall i rnd t0 now t1, admissible i rnd -> t0 <= now <= t1 ->
  spec_ok i t0 t1 (decide scale i rnd now) = true.
Proof. exact spec_sound. Qed.
Print Assumptions C04_spec_ok_of_model.

(** ** the hypothesis discharged for IEEE-754: the exact integer model of
    [time.Duration(float64(L) * float64(n/d))] (F64.v; equal to Go's result on every case of every
    run) is within the tolerance, so the statements above hold of [decide scale_f64] outright *)
Theorem C04_float64_product_within_tolerance : scale_spec scale_f64.
Proof. exact scale_f64_ok. Qed.
Print Assumptions C04_float64_product_within_tolerance.

Theorem C04_spec_ok_of_float64_model : forall i rnd t0 now t1, admissible i rnd -> t0 <= now <= t1 ->
  spec_ok i t0 t1 (decide scale_f64 i rnd now) = true.
Proof. exact (spec_sound scale_f64 scale_f64_ok). Qed.
Print Assumptions C04_spec_ok_of_float64_model.

(** the stored-certificate variant used under the lock *)
Theorem C04_managed_variant : forall scale i rnd now,
  managed_decide scale true i rnd now = decide scale i rnd now /\
  managed_decide scale false i rnd now = Renew.
Proof. exact managed_decide_eq. Qed.
Print Assumptions C04_managed_variant.

(** ** how the renewal info a certificate carries is produced (Config.updateARI, issuer branch):
    [refresh_ari old fresh] — the CA's answer replaces the old info; the old selected time is put
    back exactly when the window is unchanged.  [ari_wfb a]: the selected time is unset or lies
    inside the window it comes with. *)

(** the refreshed info carries the CA's window, and its selected time is the old one iff the window
    is the same (and there was one), else the CA's (unset => improvised inside the NEW window) *)
Theorem C04_refreshed_info_selected_time_kept_iff_same_window : forall old fresh,
  wstart (refresh_ari old fresh) = wstart fresh /\ wend (refresh_ari old fresh) = wend fresh /\
  sel (refresh_ari old fresh) = if same_window fresh old && has_sel old then sel old else sel fresh.
Proof. intros old fresh. destruct (refresh_window old fresh). repeat split; try assumption. apply refresh_sel. Qed.
Print Assumptions C04_refreshed_info_selected_time_kept_iff_same_window.

(** refreshing preserves well-formedness: no selected time ever travels to another window *)
Theorem C04_refreshed_info_well_formed : forall old fresh,
  ari_wfb old = true -> ari_wfb fresh = true -> ari_wfb (refresh_ari old fresh) = true.
Proof. exact refresh_wf. Qed.
Print Assumptions C04_refreshed_info_well_formed.

(** the run-time monitor for refreshed info holds of the model *)
Theorem C04_refresh_ok_of_model : forall old fresh, refresh_ok old fresh (refresh_ari old fresh) = true.
Proof. exact refresh_ok_of_model. Qed.
Print Assumptions C04_refresh_ok_of_model.

(** well-formed info whose window starts at least one interval from now never triggers an immediate
    renewal (selected time stored or improvised), unless a validity-based rule fires *)
Theorem C04_well_formed_future_window_never_immediate : forall scale, scale_spec scale ->
  forall i rnd now ws we, wf i -> admissible i rnd ->
  ari_wfb (ari i) = true -> wstart (ari i) = Some ws -> wend (ari i) = Some we ->
  now + interval i <= ws ->
  let n := fst (eff_ratio (cfg_ratio i)) in let d := snd (eff_ratio (cfg_ratio i)) in
  d * remaining i now >= n * lifetime i + d * eps (lifetime i) ->
  20 * remaining i now >= lifetime i + 20 * eps (lifetime i) ->
  remaining i now >= 5 * interval i ->
  decide scale i rnd now = Wait.
Proof. exact wf_future_window_never_immediate. Qed.
Print Assumptions C04_well_formed_future_window_never_immediate.

(** ... in particular the info updateARI leaves behind when the CA moves the window into the future,
    whatever the old selected time was *)
Theorem C04_refreshed_future_window_never_immediate : forall scale, scale_spec scale ->
  forall i old fresh rnd now ws we, wf i ->
  ari_wfb old = true -> ari_wfb fresh = true -> wstart fresh = Some ws -> wend fresh = Some we ->
  admissible (with_ari i (refresh_ari old fresh)) rnd ->
  now + interval i <= ws ->
  let n := fst (eff_ratio (cfg_ratio i)) in let d := snd (eff_ratio (cfg_ratio i)) in
  d * remaining i now >= n * lifetime i + d * eps (lifetime i) ->
  20 * remaining i now >= lifetime i + 20 * eps (lifetime i) ->
  remaining i now >= 5 * interval i ->
  decide scale (with_ari i (refresh_ari old fresh)) rnd now = Wait.
Proof. exact refreshed_future_window_never_immediate. Qed.
Print Assumptions C04_refreshed_future_window_never_immediate.

(** ** non-vacuity *)

(** the hypothesis on [scale] is satisfiable *)
Example C04_scale_spec_satisfiable : scale_spec scale_floor.
Proof. exact scale_floor_ok. Qed.

(** a 90-day certificate (NotBefore = 0), interval 10 min, default ratio; day d = d * 86400 s *)
Definition day : Z := 86400 * second.
Definition ex (dis : bool) (r : ratio) (a : ari_info) : inputs :=
  Inputs 0 (90 * day - second) (600 * second) r dis a.
Definition ex_sel (d : Z) : ari_info := Ari (Some (d * day)) None None.
Definition ex_win (a b : Z) : ari_info := Ari None (Some (a * day)) (Some (b * day)).

Ltac ex_solve := vm_compute; repeat split; try congruence; try reflexivity.

(* (1) day 61 of 90 is in the final third *)
Example C04_ex_configured_fraction :
  wf (ex false (0, 1) no_ari) /\
  3 * remaining (ex false (0, 1) no_ari) (61 * day) < 1 * lifetime (ex false (0, 1) no_ari) - 3 * eps (lifetime (ex false (0, 1) no_ari)) /\
  decide scale_floor (ex false (0, 1) no_ari) 0 (61 * day) = Renew /\
  decide scale_floor (ex false (0, 1) no_ari) 0 (59 * day) = Wait.
Proof. ex_solve. Qed.
(* (2) ratio 1/100: day 88.5 is in the final 1/50; 40 minutes before expiry is within 5 intervals *)
Example C04_ex_emergency_margin :
  wf (ex false (1, 100) no_ari) /\
  50 * remaining (ex false (1, 100) no_ari) (88 * day + day / 2) < lifetime (ex false (1, 100) no_ari) - 50 * eps (lifetime (ex false (1, 100) no_ari)) /\
  decide scale_floor (ex false (1, 100) no_ari) 0 (88 * day + day / 2) = Renew /\
  decide scale_floor (ex false (1, 100) no_ari) 0 (88 * day) = Wait /\
  remaining (Inputs 0 (3600 * second) (600 * second) (1, 100) false no_ari) (1200 * second) < 5 * 600 * second /\
  decide scale_floor (Inputs 0 (3600 * second) (600 * second) (1, 100) false no_ari) 0 (1200 * second) = Renew.
Proof. ex_solve. Qed.
(* (4) selected day 20: renew from 10 minutes before it *)
Example C04_ex_selected_time :
  select (ari (ex false (0, 1) (ex_sel 20))) 0 = Sel (20 * day) /\
  decide scale_floor (ex false (0, 1) (ex_sel 20)) 0 (20 * day - 599 * second) = Renew /\
  decide scale_floor (ex false (0, 1) (ex_sel 20)) 0 (20 * day - 600 * second) = Wait /\
  decide scale_floor (ex true (0, 1) (ex_sel 20)) 0 (21 * day) = Wait.
Proof. ex_solve. Qed.
(* wait: fresh certificate, selected time far ahead *)
Example C04_ex_wait_hypotheses :
  let i := ex false (0, 1) (ex_sel 50) in let now := 10 * day in
  wf i /\ 3 * remaining i now >= 1 * lifetime i + 3 * eps (lifetime i) /\
  50 * remaining i now >= lifetime i + 50 * eps (lifetime i) /\ remaining i now >= 5 * interval i /\
  decide scale_floor i 0 now = Wait /\
  (forall s, disable_ari i = false -> select (ari i) 0 = Sel s ->
     now <= s - interval i /\ 20 * remaining i now >= lifetime i + 20 * eps (lifetime i)).
Proof.
  cbv zeta. do 5 (split; [vm_compute; congruence|]).
  intros s _ H. vm_compute in H. inversion H. vm_compute. split; congruence.
Qed.
(* the witness of the first fixed finding: window a month ahead, no selected time *)
Example C04_ex_future_window :
  let i := ex false (0, 1) (ex_win 40 42) in let now := 10 * day in
  wf i /\ admissible i 0 /\ admissible i 172798 /\ now + interval i <= 40 * day /\
  3 * remaining i now >= 1 * lifetime i + 3 * eps (lifetime i) /\
  20 * remaining i now >= lifetime i + 20 * eps (lifetime i) /\ remaining i now >= 5 * interval i /\
  decide scale_floor i 0 now = Wait /\ decide scale_floor i 172798 now = Wait.
Proof. cbv zeta. ex_solve. Qed.
(* the witness of the second fixed finding: zero-width window *)
Example C04_ex_degenerate_window :
  let i := ex false (0, 1) (ex_win 40 40) in
  improv_n (ari i) = Some 1 /\ select (ari i) 0 = Sel (40 * day + second) /\
  decide scale_floor i 0 (10 * day) = Wait /\ decide scale_floor i 0 (41 * day) = Renew.
Proof. cbv zeta. ex_solve. Qed.
(* ARI override: ratio 1/100, selected time after expiry, day 87 is in the final 1/20 *)
Example C04_ex_one_twentieth :
  let i := ex false (1, 100) (ex_sel 95) in let now := 87 * day in
  wf i /\ select (ari i) 0 = Sel (95 * day) /\
  20 * remaining i now < lifetime i - 20 * eps (lifetime i) /\
  decide scale_floor i 0 now = Renew /\ decide scale_floor i 0 (85 * day) = Wait /\
  decide scale_floor (ex true (1, 100) (ex_sel 95)) 0 now = Wait.
Proof. cbv zeta. ex_solve. Qed.
(* ARI never postpones: day 61 is due with ARI disabled, and stays due with a selected day 80 *)
Example C04_ex_never_postpones :
  decide scale_floor (ex true (0, 1) no_ari) 0 (61 * day) = Renew /\
  decide scale_floor (ex false (0, 1) (ex_sel 80)) 0 (61 * day) = Renew.
Proof. ex_solve. Qed.
(* improvised times for the window [day 40, day 42]: first and last admissible draw *)
Example C04_ex_improvised :
  let i := ex false (0, 1) (ex_win 40 42) in
  improv_n (ari i) = Some 172799 /\
  select (ari i) 0 = Sel (40 * day + second) /\ select (ari i) 172798 = Sel (42 * day - second).
Proof. cbv zeta. ex_solve. Qed.
(* the exact float64 model: 90 d * 1/3 = 30 d exactly; a lifetime above 2^53 ns that is not a
   double rounds up, so the window may exceed the lifetime by a few ns (ratio 1) *)
Example C04_ex_float64 :
  scale_f64 (90 * day) (1, 3) = 30 * day /\ scale_f64 (90 * day) (1, 20) = 388800 * second /\
  scale_f64 359999999906 (1, 10) = 35999999990 /\ scale_f64 (2 ^ 53 + 3) (1, 1) = 2 ^ 53 + 4.
Proof. ex_solve. Qed.
(* without a selected time the verdict can go back to wait when the draw is repeated: why the
   property's last clause is restricted *)
Example C04_monotone_needs_fixed_draw :
  exists rnd rnd' now now', admissible flip_inputs rnd /\ admissible flip_inputs rnd' /\ now <= now' /\
    decide scale_floor flip_inputs rnd now = Renew /\ decide scale_floor flip_inputs rnd' now' = Wait.
Proof. exact monotone_fails_across_draws. Qed.
(* updateARI: old info {selected day 8, window day 7..9}, the CA moves the window to day 30..32; day 10 of 90.
   Hypotheses of C04_refreshed_future_window_never_immediate are met and the refreshed info waits; the
   same window with the stale selected time left in (not well-formed) is due at once: why well-formedness
   is demanded of what updateARI produces *)
Example C04_ex_refreshed_future_window :
  let old := Ari (Some (8 * day)) (Some (7 * day)) (Some (9 * day)) in
  let i := with_ari (ex false (0, 1) no_ari) (refresh_ari old (ex_win 30 32)) in let now := 10 * day in
  ari_wfb old = true /\ ari_wfb (ex_win 30 32) = true /\ refresh_ari old (ex_win 30 32) = ex_win 30 32 /\
  refresh_ari old (Ari None (Some (7 * day)) (Some (9 * day))) = old /\
  wf i /\ admissible i 0 /\ admissible i 172798 /\ now + interval i <= 30 * day /\
  3 * remaining i now >= 1 * lifetime i + 3 * eps (lifetime i) /\
  20 * remaining i now >= lifetime i + 20 * eps (lifetime i) /\ remaining i now >= 5 * interval i /\
  decide scale_floor i 0 now = Wait /\ decide scale_floor i 172798 now = Wait.
Proof. cbv zeta. ex_solve. Qed.
Example C04_stale_selected_time_renews :
  ari_wfb (ari stale_inputs) = false /\ wf stale_inputs /\ admissible stale_inputs 0 /\
  decide scale_floor stale_inputs 0 (10 * 86400 * second) = Renew /\
  decide scale_floor (with_ari stale_inputs
      (refresh_ari (Ari (Some (8 * 86400 * second)) (Some (7 * 86400 * second)) (Some (9 * 86400 * second)))
                   (Ari None (Some (30 * 86400 * second)) (Some (32 * 86400 * second))))) 0 (10 * 86400 * second) = Wait.
Proof. exact stale_selected_time_renews. Qed.
