(** C20 — placeholder while the proofs are being written. *)
From CM Require Import Account.Model.
