(** C20 — One ACME account per CA and contact: registered once, persisted, always reused.
    Only statements, each closed by [exact] (or a two-line proof), with [Print Assumptions].
    Model: [Account.Model] (threads = doIssue / newACMEClientWithAccount calls of any number of
    instances; CA index [c]; counters fsaves / crashes / deletes / resets are ghost). *)
From CM Require Import Lib.Str Lib.Wire Gen.Consts Account.Model Account.KeyPem Account.Check Account.Proofs
  Account.Recreate Account.Url Account.Examples Account.Monitor Account.KeyPemProofs Account.Tie Account.Final.
From Coq Require Import Arith.
Open Scope nat_scope.

(** Clause 1, no storage faults: for every number of instances, threads and schedules, as long
    as no save failed, no instance crashed between registering and saving and the CA was not
    re-installed, the CA has created at most one account. *)
Theorem C20_at_most_one_registration : forall s c,
  reachable s -> fsaves s c = 0 -> crashes s c = 0 -> resets s c = 0 -> created s c <= 1.
Proof. exact at_most_one_registration. Qed.
Print Assumptions C20_at_most_one_registration.

(** Clause 1 with faults: register-then-save cannot do better than one extra account per lost
    save; every registration beyond the first is accounted for by a failed Store of the save
    (or a save that never started because the response of newAccount was lost — the
    correspondence presents that as "registered, first Store failed"), a crash inside the
    register..save window, or a Delete of the recreate path. *)
Theorem C20_registrations_bounded_by_failed_saves : forall s c,
  reachable s -> created s c <= 1 + fsaves s c + crashes s c + deletes s c.
Proof. exact registrations_bounded. Qed.
Print Assumptions C20_registrations_bounded_by_failed_saves.

(** ... and the recreate path never runs unless the CA was re-installed *)
Theorem C20_no_reset_no_delete : forall s c, reachable s -> resets s c = 0 -> deletes s c = 0.
Proof. exact no_reset_no_delete. Qed.
Print Assumptions C20_no_reset_no_delete.

(** Clause 2: whatever faults and crashes hit the save, the key file is never in storage
    without the registration of the same account (both files, or after rollback neither, or
    the registration alone, which loads as absent: [Examples.reg_only_after_crash]). *)
Theorem C20_persisted_together : forall s c k,
  reachable s -> deletes s c = 0 -> s_key (slots s c) = Some k -> s_reg (slots s c) = Some k.
Proof. exact persisted_together. Qed.
Print Assumptions C20_persisted_together.

(** Clause 3: every issuance that succeeds used the one account that is completely stored *)
Theorem C20_issued_with_stored_account : forall s c t m,
  reachable s -> deletes s c = 0 -> t_ca (thr s t) = c -> t_pc (thr s t) = Done (Some m) ->
  m_key m = m_loc m /\ slots s c = Slot (Some (m_loc m)) (Some (m_loc m)).
Proof. exact issued_with_stored_account. Qed.
Print Assumptions C20_issued_with_stored_account.

(** Clause 3/4: once an account is settled, every continuation (any threads, instances,
    restarts, interleavings, storage faults, crashes, re-installation of *other* CAs) keeps it in
    storage, registers nothing, and every successful issuance uses it. [stable] needs no
    reachability assumption. *)
Theorem C20_existing_account_reused : forall s c a ls s1,
  stable s c a -> run s ls = Some s1 -> ~ In (Reset c) ls ->
  stable s1 c a /\ created s1 c = created s c /\
  forall t m, t_ca (thr s1 t) = c -> t_pc (thr s1 t) = Done (Some m) -> m = MA a a.
Proof. exact existing_account_reused. Qed.
Print Assumptions C20_existing_account_reused.

(** Clause 4, at full strength and for every schedule (any number of issuances in flight): a
    completely stored account is modified only by deleteAccountLocally, run under the
    registration lock by a thread of that very CA (the directory in use — the defect fixed by
    f80e244 is excluded) to which the CA answered accountDoesNotExist for exactly the account
    that is stored (the defects fixed by 6e1a233 and f0aaa6b are excluded), and which the CA has
    indeed forgotten. *)
Theorem C20_replaced_only_if_ca_says_gone : forall s l s1 c a,
  reachable s -> step s l = Some s1 ->
  slots s c = Slot (Some a) (Some a) -> slots s1 c <> slots s c ->
  exists t m, l = Op t false /\ t_ca (thr s t) = c /\ t_pc (thr s t) = DelReg m /\ lock s = Some t /\
              m_loc m = a /\ a <= forgotten s c /\ live s c a = false.
Proof. exact replaced_only_if_ca_says_gone. Qed.
Print Assumptions C20_replaced_only_if_ca_says_gone.

(** ... in particular an account the CA still knows is never deleted or overwritten, whatever
    the interleaving (this was refuted by a two-issuance witness before f0aaa6b) *)
Corollary C20_live_account_never_replaced : forall s l s1 c a,
  reachable s -> step s l = Some s1 ->
  slots s c = Slot (Some a) (Some a) -> live s c a = true -> slots s1 c = slots s c.
Proof.
  intros s l s1 c a Hr Hs Hsl Hlv. destruct (slot_eqb (slots s1 c) (slots s c)) eqn:E; [apply slot_eqb_eq; exact E|].
  destruct (C20_replaced_only_if_ca_says_gone s l s1 c a Hr Hs Hsl) as (t & m & _ & _ & _ & _ & _ & _ & X);
    [intros Y; apply slot_eqb_eq in Y; congruence | congruence].
Qed.
Print Assumptions C20_live_account_never_replaced.

(** Clause 1 in terms of what happens to the system rather than of what the client does: every
    registration beyond the first is paid for by a failed save, a crash between registering and
    saving, or a re-installation of the CA — concurrent recreations cost nothing extra. *)
Theorem C20_registrations_bounded_by_reinstallations : forall s c,
  reachable s -> created s c <= 1 + fsaves s c + crashes s c + resets s c.
Proof. exact registrations_bounded_by_reinstallations. Qed.
Print Assumptions C20_registrations_bounded_by_reinstallations.

(** the schedule of the former finding on the repaired model: two accounts, the second issuance
    reuses the account the first one recreated *)
Example C20_ex_concurrent_recreate_reuses : 
  match run init witness_concurrent with
  | Some s => Nat.eqb (created s 0) 2 && slot_eqb (slots s 0) (Slot (Some 2) (Some 2))
  | None => false
  end = true.
Proof. vm_compute. reflexivity. Qed.

(** no path through newACMEClientWithAccount or the compare-and-delete of the recreate path —
    success, error, storage fault — leaks the registration lock: in every run in which no Unlock
    itself failed, the lock is free whenever nothing is in flight. (A failed Unlock is logged and
    ignored by the code; the model then keeps the lock held: [Examples.unlock_fault_leaves_lock].) *)
Theorem C20_lock_free_when_quiescent : forall ls s,
  run init ls = Some s -> unlock_faults init ls = 0 ->
  (forall t, finished (t_pc (thr s t)) = true) -> lock s = None.
Proof. exact lock_free_when_quiescent. Qed.
Print Assumptions C20_lock_free_when_quiescent.

(** the account files of another CA (production vs. test) are never touched *)
Theorem C20_only_directory_in_use_touched : forall s t f s1 c,
  step s (Op t f) = Some s1 -> c <> t_ca (thr s t) -> slots s1 c = slots s c.
Proof. exact only_directory_in_use_touched. Qed.
Print Assumptions C20_only_directory_in_use_touched.

(** Clause 5, for every CA URL string, test-CA URL string and attempt, with url.Parse and
    SubjectIsInternal as arbitrary functions: a client is only built for a directory that, as
    the rule reads it, is HTTPS or internal. *)
Theorem C20_https_unless_internal : forall parse internal ca_url test_url use_test d,
  client_dir parse internal ca_url test_url use_test = Some d -> secure parse internal d = true.
Proof. exact https_unless_internal. Qed.
Print Assumptions C20_https_unless_internal.

Corollary C20_never_plain_http_to_public_host :
  forall parse internal ca_url test_url use_test d scheme host,
  client_dir parse internal ca_url test_url use_test = Some d ->
  parse (effective d) = Some (scheme, host) -> scheme <> url_https_scheme -> internal host = true.
Proof. exact never_plain_http_to_public_host. Qed.
Print Assumptions C20_never_plain_http_to_public_host.

(** ... and "internal" need not be taken on the implementation's word: if every host that
    SubjectIsInternal accepts is internal by an independent reading [ref] (the harness judges every
    host of every URL case and every contacted address by its own reading, written from the
    special-use registries), an accepted directory is HTTPS or internal by that reading. *)
Theorem C20_https_unless_really_internal : forall parse internal ref ca_url test_url use_test d,
  (forall h, internal h = true -> ref h = true) ->
  client_dir parse internal ca_url test_url use_test = Some d -> secure parse ref d = true.
Proof. exact https_unless_really_internal. Qed.
Print Assumptions C20_https_unless_really_internal.

(** The run-time monitor ([Check.spec_hist], evaluated by the check on the *implementation's*
    observations) is the theorems' statement: on every history — any threads, schedule, faults,
    crashes, re-installations — on which the observations are those the model expects, all its
    clauses hold: (a) registrations bounded (by failed saves + crashes + re-installations, and
    by failed saves + crashes + deletions), (b) persisted together, (c) reuse of the stored
    account, (d) deleteAccountLocally only ever deletes a stored account whose registration the
    CA has forgotten, (e) only the directory in use is touched. So a spec failure on an
    implementation history means that the implementation left the model or that the property
    fails. *)
Theorem C20_monitor_sound : forall evs s f,
  replay init evs = Some (s, true) -> final_agree s f = true -> spec_hist evs f = true.
Proof. exact monitor_sound. Qed.
Print Assumptions C20_monitor_sound.

Example C20_ex_monitor :
  (exists s, replay init ex_history = Some (s, true) /\ final_agree s ex_final = true) /\
  o_ok_d (orun ex_history_old) = false.
Proof.
  destruct ex_history_agrees as (H1 & _). split; [exact (model_agrees_hist _ _ _ _ H1)|exact (proj2 ex_history_old_rejected)].
Qed.

(** ---- What the replay and the monitor check on the implementation at each operation, as
    theorems about the model ([Account.Final]). *)

(** a failed Store of the save makes the call fail (rollback, release, error): the freshly
    registered account is never used unpersisted *)
Theorem C20_failed_save_is_an_error : forall s t a s1,
  step s (Op t true) = Some s1 -> (t_pc (thr s t) = StoreReg a \/ t_pc (thr s t) = StoreKey a) ->
  (t_pc (thr s1 t) = Unlock None \/ t_pc (thr s1 t) = Rollback a) /\
  forall f s2, step s1 (Op t f) = Some s2 -> t_pc (thr s1 t) = Rollback a -> t_pc (thr s2 t) = Unlock None.
Proof. exact failed_save_is_an_error. Qed.
Print Assumptions C20_failed_save_is_an_error.

(** what a call brings out of the locked region is completely in storage (registered and saved
    by itself, or saved by another and reloaded) *)
Theorem C20_locked_result_is_stored : forall s t m,
  reachable s -> t_pc (thr s t) = Unlock (Some m) ->
  lock s = Some t /\ slots s (t_ca (thr s t)) = Slot (Some (m_loc m)) (Some (m_key m)).
Proof. exact locked_result_is_stored. Qed.
Print Assumptions C20_locked_result_is_stored.

(** the key file is written with the registration, also over a key file that is already there *)
Theorem C20_save_writes_both_files : forall s t a s1,
  reachable s -> t_pc (thr s t) = StoreKey a -> step s (Op t false) = Some s1 ->
  slots s1 (t_ca (thr s t)) = Slot (Some a) (Some a) /\ t_pc (thr s1 t) = Unlock (Some (MA a a)).
Proof. exact save_writes_both_files. Qed.
Print Assumptions C20_save_writes_both_files.

(** a Load error other than "does not exist" is never read as "absent": the call is on its way
    out with an error in every continuation, and touches nothing any more *)
Theorem C20_load_error_aborts : forall s t s1,
  step s (Op t true) = Some s1 -> load_pc (t_pc (thr s t)) = true ->
  slots s1 = slots s /\ created s1 = created s /\
  forall ls s2, run s1 ls = Some s2 -> aborting (t_pc (thr s2 t)) = true.
Proof. exact load_error_aborts. Qed.
Print Assumptions C20_load_error_aborts.

Theorem C20_aborting_thread_touches_nothing : forall s l s1 t,
  step s l = Some s1 -> aborting (t_pc (thr s t)) = true -> label_tid l = Some t ->
  slots s1 = slots s /\ created s1 = created s.
Proof. exact aborting_thread_touches_nothing. Qed.
Print Assumptions C20_aborting_thread_touches_nothing.

(** the stored account is loaded, compared and deleted under the registration lock, and what was
    compared is what is deleted *)
Theorem C20_compare_and_delete_under_lock : forall s t,
  reachable s -> in_cad (t_pc (thr s t)) = true -> lock s = Some t.
Proof. exact compare_and_delete_under_lock. Qed.
Print Assumptions C20_compare_and_delete_under_lock.

Theorem C20_delete_sees_what_was_compared : forall s t m,
  reachable s -> t_pc (thr s t) = DelReg m ->
  lock s = Some t /\ s_reg (slots s (t_ca (thr s t))) = Some (m_loc m) /\
  has_key (slots s (t_ca (thr s t))) = true /\ m_loc m <= forgotten s (t_ca (thr s t)).
Proof. exact delete_sees_what_was_compared. Qed.
Print Assumptions C20_delete_sees_what_was_compared.

(** any CA answer to an order other than accountDoesNotExist (a faulted [Order] step: unauthorized
    401/403, rateLimited, malformed, serverInternal, at newOrder or finalize) fails the issuance
    and does nothing else; the recreate path is entered only on accountDoesNotExist for an account
    the CA does not know, on the first attempt *)
Theorem C20_ca_problem_never_deletes : forall s t s1 m i,
  step s (Op t true) = Some s1 -> t_pc (thr s t) = Order m i ->
  t_pc (thr s1 t) = Done None /\ slots s1 = slots s /\ created s1 = created s /\ lock s1 = lock s.
Proof. exact ca_problem_never_deletes. Qed.
Print Assumptions C20_ca_problem_never_deletes.

Theorem C20_recreate_entered_only_if_ca_says_gone : forall s l s1 t,
  step s l = Some s1 -> in_recreate (t_pc (thr s t)) = false -> in_recreate (t_pc (thr s1 t)) = true ->
  l = Op t false /\ exists m, t_pc (thr s t) = Order m 0 /\ t_pc (thr s1 t) = DWantLock m /\
                              live s (t_ca (thr s t)) (m_loc m) = false.
Proof. exact recreate_entered_only_if_ca_says_gone. Qed.
Print Assumptions C20_recreate_entered_only_if_ca_says_gone.

(** history form (monitor clause h): a Delete of deleteAccountLocally comes after the thread's own
    order was answered accountDoesNotExist by the CA *)
Theorem C20_deletes_only_after_account_does_not_exist : forall evs s,
  replay init evs = Some (s, true) -> spec_gone0 evs = true.
Proof. exact deletes_only_after_account_does_not_exist. Qed.
Print Assumptions C20_deletes_only_after_account_does_not_exist.

(** external account bindings (monitor clause g) on the requests the model predicts *)
Theorem C20_eab_spec_sound : forall conf recs,
  forallb (eab_predicted conf) recs = true -> eab_spec conf recs = true.
Proof. exact eab_spec_sound. Qed.
Print Assumptions C20_eab_spec_sound.

(** the complete specification of a doIssue history, clauses (a)-(h): [spec_ok] holds on every
    observation the model can produce *)
Theorem C20_hist_spec_ok_sound : forall evs f conf recs,
  model_agrees (CHist evs f conf recs) = true -> spec_ok (CHist evs f conf recs) = true.
Proof. exact hist_spec_ok_sound. Qed.
Print Assumptions C20_hist_spec_ok_sound.

(** ... and of an account-key history (kind 4): the same statement *)
Theorem C20_kp_spec_ok_sound : forall c, model_agrees (CKp c) = true -> spec_ok (CKp c) = true.
Proof. exact kspec_sound. Qed.
Print Assumptions C20_kp_spec_ok_sound.

Example C20_ex_final_hypotheses :
  (exists s s1, reachable s /\ load_pc (t_pc (thr s 0)) = true /\ step s (Op 0 true) = Some s1) /\
  (exists s, reachable s /\ t_pc (thr s 0) = Unlock (Some (MA 1 1))) /\
  (exists s s1, reachable s /\ t_pc (thr s 2) = StoreKey 2 /\ s_key (slots s 0) = Some 1 /\
                step s (Op 2 false) = Some s1) /\
  (exists s s1, reachable s /\ in_recreate (t_pc (thr s 0)) = false /\ step s (Op 0 false) = Some s1 /\
                in_recreate (t_pc (thr s1 0)) = true).
Proof.
  split; [|split; [|split]].
  - destruct ex_load_error as (s & s1 & H1 & H2 & H3 & _). exists s, s1. auto.
  - destruct ex_locked_result as (s & H1 & H2). exists s. split; [eexists; exact H1|exact H2].
  - destruct ex_save_over_old_key as (s & s1 & H1 & H2 & H3 & H4 & _). exists s, s1.
    split; [eexists; exact H1|]. rewrite H3. auto.
  - destruct ex_recreate_entered as (s & s1 & H1 & H2 & H3 & H4). exists s, s1.
    split; [eexists; exact H1|auto].
Qed.

(** ---- With a configured account key ([AccountKeyPEM]; model [Account.KeyPem]: any number of
    GetAccount calls with and without e-mail, no lock, look-up at the CA instead of registration,
    faults on every operation, crashes; [FMine] = the configured key / its account's registration).

    Clause 3: every call that succeeds returns the account of the configured key (storage did not
    hold a foreign registration to begin with). Nothing is registered in this mode: the model has
    no such transition, and the correspondence reports any newAccount that is not a look-up. *)
Theorem C20_keypem_success_is_configured_account : forall r0 k0 known ls s t r k,
  r0 <> FOther -> krun (kinit r0 k0 known) ls = Some s ->
  k_thr s t = KDone (Some (r, k)) -> r = FMine /\ k = FMine.
Proof. exact kp_success_is_configured_account. Qed.
Print Assumptions C20_keypem_success_is_configured_account.

(** Clause 4: a stored account is never replaced by a different one (any state, any continuation) *)
Theorem C20_keypem_stored_account_never_replaced : forall s ls s',
  k_key s = FMine -> k_reg s <> FOther -> krun s ls = Some s' ->
  k_key s' = FMine /\ k_reg s' <> FOther.
Proof. exact kp_stored_account_never_replaced. Qed.
Print Assumptions C20_keypem_stored_account_never_replaced.

(** Clause 2 is false in this mode: a save over the stored account that fails at the key file
    is rolled back by deleting the registration that was there before (storeTx) — the key is
    left without its registration. *)
Theorem C20_keypem_persisted_together_refuted :
  exists ls s, krun (kinit FMine FMine true) ls = Some s /\
               k_key s = FMine /\ k_reg s = FNone /\ k_thr s 0 = KDone None.
Proof. exact kp_persisted_together_refuted. Qed.
Print Assumptions C20_keypem_persisted_together_refuted.

(** ... but (since 55396a9; before it every later call with an e-mail failed) the account is not
    lost: from any state without a foreign registration, with other calls stopped anywhere, the
    next call that runs alone and without faults returns the configured account and leaves it
    completely stored — "every later operation reuses that account". *)
Theorem C20_keypem_next_call_recovers : forall s t e,
  k_thr s t = KIdle -> k_reg s <> FOther -> k_known s = true ->
  exists n s', krun s (KStart t e :: repeat (KOp t false) n) = Some s' /\
               k_thr s' t = KDone (Some (FMine, FMine)) /\ k_reg s' = FMine /\ k_key s' = FMine.
Proof. exact kp_next_call_recovers. Qed.
Print Assumptions C20_keypem_next_call_recovers.

(** the single-call summary of the kind-3 cases is the LTS run of one call on a quiet storage *)
Theorem C20_keypem_outcome_is_solo_run : forall r k known e t,
  let s' := ksolo (kset (kinit r k known) t (kstart_pc e)) t 7 in
  let '(ok, _, saved) := keypem_outcome (fval_eqb k FMine) (negb (fval_eqb r FNone)) known in
  (exists res, k_thr s' t = KDone res /\ ok = match res with Some _ => true | None => false end) /\
  saved = (fval_eqb (k_key s') FMine && negb (fval_eqb (k_reg s') FNone))%bool.
Proof. exact keypem_outcome_is_solo_run. Qed.
Print Assumptions C20_keypem_outcome_is_solo_run.

(** the monitor of the account-key histories ([Check.kspec], five clauses, evaluated on the
    implementation's observations) holds on every observation the model can produce *)
Theorem C20_keypem_monitor_sound : forall c, kmodel_agrees c = true -> kspec c = true.
Proof. exact kspec_sound. Qed.
Print Assumptions C20_keypem_monitor_sound.

Example C20_ex_keypem_recovery : exists s,
  (exists ls, krun (kinit FMine FMine true) ls = Some s) /\
  k_thr s 1 = KIdle /\ k_reg s = FNone /\ k_key s = FMine /\ k_known s = true.
Proof.
  eexists. split; [exists kp_run_rollback; vm_compute; reflexivity|]. repeat split.
Qed.

(** the statement order and loop facts the models hard-code are those of the source (translator
    item c20order, regenerated on every run) *)
Example C20_ex_tie :
  c20_recreate_on_attempt = 0 /\ c20_save_order = [0; 1] /\ c20_storetx_rollback = true /\
  c20_delete_order = [0; 1] /\ c20_load_order = [0; 1] /\ c20_client_order = [1; 2; 1; 3; 4] /\
  c20_cad_order = [2; 5; 6; 7; 8; 9] /\ c20_cad_lock_key = true /\ c20_delete_call_sites = 1 /\
  c20_recreate_calls = [10; 11; 12; 13].
Proof.
  destruct tie_recreate_loop as [H1 _]. destruct tie_save_order as [H2 H3].
  destruct tie_delete_load_order as [H4 H5]. pose proof tie_client_order as H6.
  destruct tie_compare_and_delete as (H7 & H8 & H9). pose proof tie_recreate_branch as H10. auto 15.
Qed.

(** non-vacuity: the hypotheses above are met by non-trivial reachable states *)
Example C20_ex_first_use : exists s, reachable s /\ created s 0 = 1 /\ fsaves s 0 = 0 /\
  crashes s 0 = 0 /\ resets s 0 = 0 /\ t_pc (thr s 2) = Done (Some (MA 1 1)).
Proof.
  destruct first_use_three_threads as (s & Hr & H1 & H2 & H3 & H4 & _ & _ & _ & H5).
  exists s. repeat split; auto. exists run_first_use. exact Hr.
Qed.
Example C20_ex_bound_attained : exists s, reachable s /\
  created s 0 = 1 + fsaves s 0 + crashes s 0 + deletes s 0 /\ created s 0 = 3.
Proof.
  destruct registrations_bound_attained as (s & Hr & H1 & H2 & H3 & H4 & _).
  exists s. split; [exists run_lost_registrations; exact Hr|]. rewrite H1, H2, H3, H4. split; reflexivity.
Qed.
Example C20_ex_stable : exists s, reachable s /\ stable s 0 1.
Proof. destruct stable_reachable as (s & Hr & Hs). exists s. split; [eexists; exact Hr|exact Hs]. Qed.
Example C20_ex_recreate : exists s, reachable s /\
  slots s 0 = Slot (Some 1) (Some 1) /\ exists s1, step s (Op 0 false) = Some s1 /\ slots s1 0 <> slots s 0.
Proof.
  destruct recreate_reachable as (s & Hs & H1 & _ & _ & _ & H2). exists s. split; [eexists; exact Hs|auto].
Qed.
Example C20_ex_reinstallation_bound_attained : exists s, reachable s /\
  created s 0 = 1 + fsaves s 0 + crashes s 0 + resets s 0 /\ created s 0 = 2.
Proof.
  destruct reinstallation_bound_attained as (s & Hr & H1 & H2 & H3 & H4 & _).
  exists s. split; [eexists; exact Hr|]. rewrite H1, H2, H3, H4. split; reflexivity.
Qed.
Example C20_ex_url : forall internal,
  client_dir (fun u => if str_eqb u [104; 116; 116; 112; 115; 58; 47; 47; 97]%N then Some ([104; 116; 116; 112; 115]%N, [97]%N) else None)
             internal [97]%N []%N false = Some [104; 116; 116; 112; 115; 58; 47; 47; 97]%N.
Proof. intros internal. vm_compute. reflexivity. Qed.
