(** C10 — File storage reads see whole values; keys and prefixes behave as documented.
    Only statements, each closed by [exact], with [Print Assumptions] beneath.

    Part 1: FileStorage's key operations on the directory tree ([FileSys.Model]).
    Part 2: Store through internal/atomicfile against Loads, Deletes and SIGKILL
            ([FileSys.Lts]): any number of threads, any interleaving of their system calls. *)
From Coq Require Import List ZArith.
From CM Require Import Lib.Str FileSys.Model FileSys.Proofs FileSys.Lts FileSys.LtsProofs FileSys.Check FileSys.Extra.
Import ListNotations.

(** ** Part 1 — sequential key semantics, for every sequence of operations *)

(** The results the model computes satisfy the documented Storage semantics evaluated on
    the history alone ([spec_trace]: Load returns the whole value of the last successful
    Store unless a component-wise prefix was deleted since; Exists/Stat/List agree with
    that abstract key tree; Delete never errs; a Store errs only when the key collides
    with the tree's shape).  [spec_trace] is also what the check evaluates on the real
    FileStorage's results. *)
Theorem C10_model_meets_documented_semantics : forall ops : list op,
  spec_trace (combine ops (snd (fs_run [] ops))) = true.
Proof. exact model_meets_spec. Qed.
Print Assumptions C10_model_meets_documented_semantics.

(** prefixes are matched by whole path components *)
Theorem C10_prefix_by_component : forall fs p q, reachable_fs fs ->
  (In q (okeys (fs_list fs p true)) <->
   lookup fs p = Some EDir /\ (exists c r, q = p ++ c :: r) /\ present_fs fs q).
Proof. exact prefix_by_component. Qed.
Print Assumptions C10_prefix_by_component.

(** non-recursive List returns only (and all) direct children *)
Theorem C10_list_nonrecursive_direct_children : forall fs p q, reachable_fs fs ->
  (In q (okeys (fs_list fs p false)) <->
   lookup fs p = Some EDir /\ (exists c, q = p ++ [c]) /\ present_fs fs q).
Proof. exact list_nonrecursive_direct_children. Qed.
Print Assumptions C10_list_nonrecursive_direct_children.

(** deleting a prefix removes everything under it, and nothing else *)
Theorem C10_delete_prefix_removes_all : forall fs k, reachable_fs fs -> k <> [] ->
  let fs' := fst (fs_delete fs k) in
  ocls (snd (fs_delete fs k)) = ROk /\
  (forall q, is_prefix k q = true ->
     lookup fs' q = None /\ oflag (fs_exists fs' q) = false /\ ocls (fs_load fs' q) = RNotExist /\
     ocls (fs_stat fs' q) = RNotExist /\ forall rec, ocls (fs_list fs' q rec) = RNotExist) /\
  (forall q, is_prefix k q = false -> lookup fs' q = lookup fs q).
Proof. exact delete_prefix_removes_all. Qed.
Print Assumptions C10_delete_prefix_removes_all.

(** missing keys report not-exist (including keys below a regular file: the ENOTDIR fix) *)
Theorem C10_missing_not_exist : forall fs k, reachable_fs fs -> lookup fs k = None ->
  ocls (fs_load fs k) = RNotExist /\ ocls (fs_stat fs k) = RNotExist /\
  (forall rec, ocls (fs_list fs k rec) = RNotExist) /\
  oflag (fs_exists fs k) = false /\ fs_delete fs k = (fs, obs_cls ROk).
Proof. exact missing_not_exist. Qed.
Print Assumptions C10_missing_not_exist.

(** a successful Store is read back whole; keys that are not prefixes of it are untouched *)
Theorem C10_store_then_load : forall fs k v, reachable_fs fs -> ocls (snd (fs_store fs k v)) = ROk ->
  let fs' := fst (fs_store fs k v) in
  fs_load fs' k = Obs ROk v false [] 0 /\
  (forall q, q <> k -> proper_prefix q k = false -> lookup fs' q = lookup fs q) /\
  (forall q, proper_prefix q k = true -> lookup fs' q = Some EDir).
Proof. exact store_then_load. Qed.
Print Assumptions C10_store_then_load.

(** ** Part 2 — concurrency and crashes, for every schedule *)

(** an inode reachable through a key's name has no descriptor open for writing, and its
    content never changes again, whatever any thread does afterwards *)
Theorem C10_sealed_invariant : forall s0 s k i ls s', reachable s0 s -> dir s (NDest k) = Some i ->
  (forall t, writes_to (thr s t) i = false) /\
  (run s ls = Some s' -> data s' i = data s i /\ forall t, writes_to (thr s' t) i = false).
Proof.
  intros s0 s k i ls s' Hr Hd. split.
  - intros t. exact (sealed_invariant s0 s k i t Hr Hd).
  - exact (sealed_forever s0 s k i ls s' Hr Hd).
Qed.
Print Assumptions C10_sealed_invariant.

(** every completed Load returned the value bound to its key at the instant of its open *)
Theorem C10_load_linearizable : forall s0 s post t k r pre, reachable s0 s ->
  log s = post ++ EvRet t k r :: pre ->
  exists mid before, pre = mid ++ EvOpen t k :: before /\ r = installed (named_value s0) before k.
Proof. exact load_linearizable. Qed.
Print Assumptions C10_load_linearizable.

(** ... hence the initial value, or not-exist, or exactly the complete value passed to a
    Store call whose rename precedes the Load's open: never partial, empty or mixed *)
Theorem C10_load_returns_whole_value : forall s0 s post t k r pre, reachable s0 s ->
  log s = post ++ EvRet t k r :: pre ->
  r = named_value s0 k \/ r = None \/
  exists w v, r = Some v /\ In (EvStore w k v) pre /\
              exists mid before, pre = mid ++ EvOpen t k :: before /\ In (EvRename w k v) before.
Proof. exact load_returns_whole_value. Qed.
Print Assumptions C10_load_returns_whole_value.

(** once Stores have completed, a Load returns the value of the last one (the last rename) *)
Theorem C10_load_after_stores : forall s0 s post t k r mid p2 w v p1, reachable s0 s ->
  log s = post ++ EvRet t k r :: mid ++ EvOpen t k :: p2 ++ EvRename w k v :: p1 ->
  (forall k', ~ In (EvOpen t k') mid) ->
  (forall t' v', ~ In (EvRename t' k v') p2) -> (forall t', ~ In (EvUnlink t' k) p2) ->
  r = Some v.
Proof. exact load_after_stores. Qed.
Print Assumptions C10_load_after_stores.

(** writers (or anything else) killed at any step leave the old or a complete new value *)
Theorem C10_crash_old_or_new : forall s0 s k, reachable s0 s ->
  named_value s k = named_value s0 k \/
  (named_value s k = None /\ exists t, In (EvUnlink t k) (log s)) \/
  (exists t v, named_value s k = Some v /\ In (EvRename t k v) (log s) /\ In (EvStore t k v) (log s)).
Proof. exact crash_old_or_new. Qed.
Print Assumptions C10_crash_old_or_new.

(** a Store that fails part-way (write / sync / close / rename reports an error: ENOSPC, EFBIG,
    EIO ...) has no effect: every key holds what it held, the temp file is removed, an error is
    returned *)
Theorem C10_failed_store_no_effect : forall s t s', step s (LFail t) = Some s' ->
  (forall k, named_value s' k = named_value s k) /\
  (exists k v, thr s' t = WErr k v) /\
  (forall tmp, (exists k v i off, thr s t = WOpen k v tmp i off) \/ (exists k v i, thr s t = WSynced k v tmp i) \/
               (exists k v i, thr s t = WClosed k v tmp i) -> dir s' (NTemp tmp) = None) /\
  data s' = data s /\ log s' = log s.
Proof. exact failed_store_no_effect. Qed.
Print Assumptions C10_failed_store_no_effect.

(** ** non-vacuity and witnesses *)
Definition ka : str := [97%N].
Definition kb : str := [98%N].
Definition kab : str := [97%N; 98%N].
Definition demo_ops : list op :=
  [OpStore [ka; kb] [1%N]; OpStore [kab; kb] [2%N]; OpStore [kb] [3%N]; OpList [ka] true; OpExists [kb; ka]].

Example C10_reachable_nontrivial :
  reachable_fs (fst (fs_run [] demo_ops)) /\
  lookup (fst (fs_run [] demo_ops)) [ka] = Some EDir /\
  lookup (fst (fs_run [] demo_ops)) [kb; ka] = None /\
  okeys (fs_list (fst (fs_run [] demo_ops)) [ka] true) = [[ka; kb]] (* "ab/b" is not under "a" *) /\
  oflag (fs_exists (fst (fs_run [] demo_ops)) [kb; ka]) = false (* key below the file "b" *).
Proof. split; [exists demo_ops; reflexivity | vm_compute; repeat split; reflexivity]. Qed.

(** a schedule with two writers, a reader and a kill: the reader opens between the renames *)
Definition demo_run : list label :=
  [LSpawnStore 1 7 [1%N; 1%N]; LCreate 1 0; LWrite 1 2; LSync 1; LClose 1;
   LSpawnStore 2 7 [2%N; 2%N; 2%N]; LCreate 2 1; LWrite 2 1; LRename 1; LSpawnLoad 3 7; LOpen 3;
   LWrite 2 2; LSync 2; LClose 2; LRename 2; LRead 3 1; LRead 3 5; LRead 3 5;
   LSpawnStore 4 7 [4%N]; LCreate 4 0; LKill 4]%nat.
Example C10_demo_run :
  exists s, run init_empty demo_run = Some s /\ reachable init_empty s /\
    thr s 3%nat = RDone 7%nat (Some [1%N; 1%N]) /\           (* the value bound at its open, whole *)
    named_value s 7%nat = Some [2%N; 2%N; 2%N] /\            (* the last rename *)
    dir s (NTemp 0%nat) <> None.                             (* the killed writer's temp file stays (list_may_show_temp) *)
Proof.
  destruct (run init_empty demo_run) as [s|] eqn:E; [|vm_compute in E; discriminate].
  exists s. split; [reflexivity|]. split.
  - split; [|exists demo_run; exact E]. repeat split; intros; discriminate.
  - revert E. vm_compute. intros E; injection E; intros <-. cbn. repeat split; discriminate.
Qed.


(** ** theorems added in the last round (proofs in FileSys/Extra.v) *)

(** An empty value is a value: after a successful Store of [] the key exists, Load returns the
    empty value with a nil error, Stat says a terminal key of size 0; and a concurrent Load whose
    open bound an inode holding the empty value returns [Some []], never not-exist. *)
Theorem C10_empty_value_is_a_value : forall fs k, reachable_fs fs -> ocls (snd (fs_store fs k [])) = ROk ->
  let fs' := fst (fs_store fs k []) in
  fs_load fs' k = Obs ROk [] false [] 0 /\ oflag (fs_exists fs' k) = true /\
  fs_stat fs' k = Obs ROk [] true [] 0.
Proof. exact empty_value_is_a_value. Qed.
Print Assumptions C10_empty_value_is_a_value.

Theorem C10_load_of_empty_value : forall s t k i (n : nat),
  thr s t = ROpen k i [] -> data s i = [] -> (1 <= n)%nat ->
  exists s', FileSys.Lts.step s (LRead t n) = Some s' /\ thr s' t = RDone k (Some []).
Proof. exact load_of_empty_value. Qed.
Print Assumptions C10_load_of_empty_value.

(** A Store that reports an error is invisible: every lookup, Load, Exists, Stat and List
    (recursive or not, of any prefix) answers as before - List never shows a key whose Store failed. *)
Theorem C10_failed_store_invisible : forall fs k v, reachable_fs fs -> is_ok (snd (fs_store fs k v)) = false ->
  let fs' := fst (fs_store fs k v) in
  (forall q, lookup fs' q = lookup fs q) /\
  (forall q, fs_load fs' q = fs_load fs q) /\
  (forall q, fs_exists fs' q = fs_exists fs q) /\
  (forall q, fs_stat fs' q = fs_stat fs q) /\
  (forall p rec q, In q (okeys (fs_list fs' p rec)) <-> In q (okeys (fs_list fs p rec))).
Proof. exact failed_store_invisible. Qed.
Print Assumptions C10_failed_store_invisible.

(** The temp file of a Store that has not renamed yet is reachable under its temp name only - no
    key ever names its inode, in any reachable state of any schedule; and when the Store fails it
    is unreachable for good. *)
Theorem C10_unfinished_store_invisible : forall s0 s t k v tmp i off, reachable s0 s ->
  wtemp (thr s t) = Some (k, v, tmp, i, off) ->
  dir s (NTemp tmp) = Some i /\ forall k', dir s (NDest k') <> Some i.
Proof. exact unfinished_store_invisible. Qed.
Print Assumptions C10_unfinished_store_invisible.

Theorem C10_failed_store_leaves_nothing : forall s0 s t k v tmp i off s', reachable s0 s ->
  wtemp (thr s t) = Some (k, v, tmp, i, off) -> FileSys.Lts.step s (LFail t) = Some s' ->
  dir s' (NTemp tmp) = None /\ (forall k', dir s' (NDest k') <> Some i) /\
  (forall k', named_value s' k' = named_value s k').
Proof. exact failed_store_leaves_nothing. Qed.
Print Assumptions C10_failed_store_leaves_nothing.

(** What the monitors of the concurrent cases check, as statements about the observation. *)
Theorem C10_history_monitor_sound : forall h, hist_ok h = true ->
  (forall e, In e h -> is_load e = false -> (0 < vid e)%Z \/ vid e = (-4)%Z) /\
  (forall l, In l h -> is_load l = true -> hempty l = false ->
     exists w, In w h /\ is_load w = false /\ vid w = vid l /\ (0 < vid w)%Z /\ (t0 w < t1 l)%Z /\
       forall w', In w' h -> is_load w' = false -> (0 < vid w')%Z -> ~ ((t1 w < t0 w')%Z /\ (t1 w' < t0 l)%Z)).
Proof. exact hist_ok_sound. Qed.
Print Assumptions C10_history_monitor_sound.

Theorem C10_write_fault_monitor_sound : forall r_old r_fresh loaded expected fresh_exists stat_fresh dirents,
  check_fault r_old r_fresh loaded expected fresh_exists stat_fresh dirents = 0%Z ->
  loaded = expected /\ fresh_exists <> 1%Z /\ stat_fresh = 1%Z /\ dirents = 1%Z /\ r_old <> 0%Z /\ r_fresh <> 0%Z.
Proof. exact check_fault_sound. Qed.
Print Assumptions C10_write_fault_monitor_sound.

Theorem C10_crash_monitor_sound : forall acked started loaded, check_crash acked started loaded = 0%Z ->
  (loaded = acked \/ loaded = started) /\ (started = acked \/ started = (acked + 1)%Z).
Proof. exact check_crash_sound. Qed.
Print Assumptions C10_crash_monitor_sound.

(** hypotheses met: a Store that fails on a reachable tree (key below a file), and a schedule
    with a writer in the middle of its Store *)
Example C10_failed_store_hypotheses_satisfiable :
  let fs := fst (fs_run [] [OpStore [ka] [1%N]; OpStore [kb; ka] [2%N]]) in
  reachable_fs fs /\ is_ok (snd (fs_store fs [ka; kb] [3%N])) = false /\
  is_ok (snd (fs_store fs [kb] [3%N])) = false.
Proof. split; [eexists; reflexivity | split; vm_compute; reflexivity]. Qed.
Example C10_unfinished_store_hypotheses_satisfiable :
  exists s, FileSys.Lts.run init_empty [LSpawnStore 1 7 [1%N; 1%N]; LCreate 1 0; LWrite 1 1]%nat = Some s /\
    reachable init_empty s /\ wtemp (thr s 1%nat) = Some (7%nat, [1%N; 1%N], 0%nat, 0%nat, 1%nat).
Proof.
  destruct (FileSys.Lts.run init_empty [LSpawnStore 1 7 [1%N; 1%N]; LCreate 1 0; LWrite 1 1]%nat) as [s|] eqn:E;
    [|vm_compute in E; discriminate].
  exists s. split; [reflexivity|]. split.
  - split; [repeat split; intros; discriminate | eexists; exact E].
  - revert E. vm_compute. intros E; injection E; intros <-. reflexivity.
Qed.

(** the system-call monitor accepts the model's own Store, whatever the length of the value and
    however its writes are split ([spec_ok x (model x) = true] for the Store traces) *)
Theorem C10_store_trace_monitor_accepts_model : forall ws,
  store_trace_ok (Z.of_nat (fold_right Nat.add 0%nat ws)) (sev_of_store ws) = true.
Proof. exact store_trace_ok_of_model. Qed.
Print Assumptions C10_store_trace_monitor_accepts_model.

Theorem C10_load_trace_monitor_accepts_model : forall rs,
  load_trace_ok (Z.of_nat (fold_right Nat.add 0%nat rs)) (sev_of_load rs) = true.
Proof. exact load_trace_ok_of_model. Qed.
Print Assumptions C10_load_trace_monitor_accepts_model.

Theorem C10_delete_trace_monitor_accepts_model : delete_trace_ok [Sev 9 1 0] = true /\ lts_delete = Some [9%Z].
Proof. exact delete_trace_ok_of_model. Qed.
Print Assumptions C10_delete_trace_monitor_accepts_model.

(** List after a SIGKILLed writer and List racing in-flight Stores: an accepted case has every
    committed key in every listing (directory and ancestors, recursive or not) *)
Theorem C10_list_after_crash_monitor_sound : forall acked started loaded missing,
  check_crash_list acked started loaded missing = 0%Z ->
  missing = 0%Z /\ (loaded = acked \/ loaded = started) /\ (started = acked \/ started = (acked + 1)%Z).
Proof. exact check_crash_list_sound. Qed.
Print Assumptions C10_list_after_crash_monitor_sound.
Theorem C10_list_race_monitor_sound : forall lists missing, check_list_race lists missing = 0%Z -> missing = 0%Z.
Proof. exact check_list_race_sound. Qed.
Print Assumptions C10_list_race_monitor_sound.

Theorem C10_ctx_store_monitor_sound : forall ts, check_ctx_store ts = 0%Z ->
  forall r l, In (r, l) ts -> (r = 0%Z /\ l = 1%Z) \/ (r <> 0%Z /\ l = 0%Z).
Proof. exact check_ctx_store_sound. Qed.
Print Assumptions C10_ctx_store_monitor_sound.
