(** C10 — File storage reads see whole values; keys and prefixes behave as documented. *)
From CM Require Import Lib.Str FileSys.Model FileSys.Lts.
