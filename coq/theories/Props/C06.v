(** C06 — A reported success leaves a complete, matching, reloadable bundle in storage.
    Statements about the operation-level model [Bundle.Model] (the programs the correspondence
    check runs against the real code on every run). [evals m c r c'] = "from any world whose core
    is [c], the fault-free run of [m] returns [r] and ends in core [c']"; [reach6 cfg sp c] = "[c]
    is reachable from the empty storage by a fault-free history of obtain / renew / manage /
    revocation (by the CA, or RevokeCert) steps for the subject, with arbitrary issuer answers". *)
From Coq Require Import List NArith ZArith Bool.
From CM Require Import Bundle.Model Bundle.Proofs Bundle.Recency Bundle.Faults Bundle.ErrSucc Bundle.Async Bundle.LogKeys Bundle.Check Bundle.Sound6 Bundle.SoundLog Gen.Consts.
Import ListNotations.
Open Scope N_scope.

(** success of obtain / renew / manage: some configured issuer's directory under the documented
    keys holds key + certificate + metadata; the key matches the leaf; certificate and metadata
    name the (normalized) subject *)
Theorem C06_success_bundle_complete : forall cfg sp c orc h r c',
  reach6 cfg sp c -> oracle_ok cfg orc -> is_op h = true ->
  evals (run_hop no_faults cfg sp orc h) c (Ok r) c' ->
  exists i k x, In i (issuers cfg) /\ bundle_at (k_st c') i (s_save sp) = Some (i, k, x, [s_id sp]) /\
                c_pub x = k /\ c_sub x = s_id sp.
Proof. exact m_success_bundle_complete. Qed.
Print Assumptions C06_success_bundle_complete.

(** the first clause under storage faults: whatever Storage calls fail (ANY plan: arbitrary set of
    failing call indices; a call that returned has not died), an obtain / renew / manage that REPORTS
    SUCCESS has left a complete, matching bundle for the subject in some configured issuer's directory.
    ([save] returns Ok only when all three Stores succeeded; reads never lie: a failing read is an error
    or, for Exists, "absent". No revocation pending: forceRenew's retry loop is outside the model.)
    This is the statement the check's monitor enforces on steps with injected storage errors. *)
Theorem C06_success_bundle_complete_under_faults : forall pl cfg sp orc h w r,
  reach6 cfg sp (w_core w) -> k_ocsp (w_core w) = [] -> canonical sp -> oracle_ok cfg orc -> is_op h = true ->
  fst (run_hop pl cfg sp orc h w) = Ok r ->
  exists i, In i (issuers cfg) /\
    exists k x m, bundle_at (w_st (snd (run_hop pl cfg sp orc h w))) i (s_save sp) = Some (i, k, x, m) /\
                  c_pub x = k /\ c_sub x = s_id sp.
Proof.
  intros pl cfg sp orc h w r HR. apply success_bundle_complete_under_faults. apply reach6_inv, HR.
Qed.
Print Assumptions C06_success_bundle_complete_under_faults.

(** * the retrying entry points (ObtainCertAsync / RenewCertAsync; the closure ManageAsync, on-demand issuance
    and forceRenew run), with or without a cancelled context ([Async.run_async]: renew?, force, Some nrun =
    cancelled with nrun attempts run). A reported success - after any number of failed attempts, whatever the
    issuers answered in each - leaves a complete matching bundle for the subject. *)
Theorem C06_async_success_bundle_complete : forall cfg sp o more op w,
  reach6 cfg sp (w_core w) -> canonical sp -> (forall o', In o' (o :: more) -> oracle_ok cfg o') ->
  fst (run_async cfg sp o more op w) = Ok tt ->
  exists i, In i (issuers cfg) /\
    exists k x m, bundle_at (w_st (snd (run_async cfg sp o more op w))) i (s_save sp) = Some (i, k, x, m) /\
                  c_pub x = k /\ c_sub x = s_id sp.
Proof. intros cfg sp o more op w HR. apply async_success_bundle_complete. apply reach6_inv, HR. Qed.
Print Assumptions C06_async_success_bundle_complete.

(** a cancellation that wins before the first attempt never reports success, under any fault plan: a
    renewal fails; an obtain can only "succeed" as the no-op of its pre-check (a complete bundle was there) *)
Theorem C06_cancelled_renew_never_succeeds : forall pl cfg sp o more f w,
  fst (renew_async_c pl cfg sp o more f 0 w) <> Ok tt.
Proof. exact cancelled_renew_never_succeeds. Qed.
Print Assumptions C06_cancelled_renew_never_succeeds.
Theorem C06_cancelled_obtain_success_is_noop : forall pl cfg sp o more w,
  fst (obtain_async_c pl cfg sp o more 0 w) = Ok tt ->
  w_st (snd (obtain_async_c pl cfg sp o more 0 w)) = w_st w /\
  exists i, In i (issuers cfg) /\ complete (w_st w) i (s_pre sp) = true.
Proof. exact cancelled_obtain_success_is_noop. Qed.
Print Assumptions C06_cancelled_obtain_success_is_noop.

(** the log clause: WITHOUT key reuse every issuer call an operation makes - under ANY fault plan, in every
    attempt of a retried or cancelled asynchronous call, in the obtain after a key quarantine - is for a key
    generated in that same operation: the segment the operation adds to the log ([emits]) contains the
    generation of every key an issuer was asked to certify ([fresh_seg]) *)
Theorem C06_fresh_key_in_log : forall pl cfg sp orc h,
  reuse cfg = false -> emits (run_hop pl cfg sp orc h) fresh_seg.
Proof. exact fresh_key_in_log. Qed.
Print Assumptions C06_fresh_key_in_log.
Theorem C06_fresh_key_in_log_async : forall pl cfg sp o more f,
  reuse cfg = false ->
  emits (obtain_async pl cfg sp o more) fresh_seg /\ emits (renew_async pl cfg sp o more f) fresh_seg /\
  (forall n, emits (obtain_async_c pl cfg sp o more n) fresh_seg) /\
  (forall n, emits (renew_async_c pl cfg sp o more f n) fresh_seg).
Proof. exact fresh_key_in_log_async. Qed.
Print Assumptions C06_fresh_key_in_log_async.
(** ... which is exactly the monitor's clause ([Check.spec_log], no reuse) on the model's own observation of
    every kind of step the check replays: plain, with failing Storage calls, retried, cancelled *)
Theorem C06_monitor_sound_log_fresh : forall pl cfg sp w h orc more cancel,
  reuse cfg = false ->
  let o := fst (model_step_r pl cfg sp w h orc more cancel) in
  forallb (fun ik => generated (ob_log o) (snd ik)) (issued_ok (ob_log o)) = true.
Proof. exact monitor_sound_log_fresh. Qed.
Print Assumptions C06_monitor_sound_log_fresh.

(** saving a bundle and loading that issuer's bundle back yields exactly what was saved *)
Theorem C06_load_roundtrip : forall c i d k x m,
  typed (k_st c) ->
  evals (save no_faults i d k x m ;;; load_res no_faults i d) c (Ok (i, k, x, m))
        (set_st c (put_bundle (k_st c) i d k x m)).
Proof. exact load_roundtrip. Qed.
Print Assumptions C06_load_roundtrip.

(** after any success a load with the requested spelling returns the newest stored bundle with a
    matching key — for spellings whose load directory is the save directory (all but the refuted one) *)
Theorem C06_reload_after_success_partial : forall cfg sp c orc h r c',
  reach6 cfg sp c -> oracle_ok cfg orc -> is_op h = true ->
  evals (run_hop no_faults cfg sp orc h) c (Ok r) c' -> s_load sp = s_save sp ->
  exists mc, evals (load_managed no_faults cfg (s_load sp)) c' (Ok mc) c' /\
             newest_bundle (k_st c') cfg (s_save sp) = Some (m_i mc, m_k mc, m_c mc, [s_id sp]) /\
             c_pub (m_c mc) = m_k mc /\ c_sub (m_c mc) = s_id sp.
Proof. exact m_reload_after_success. Qed.
Print Assumptions C06_reload_after_success_partial.

(** ... and it is false for a spelling that is saved under another directory than it is looked up
    under (an expanded IPv6 address: pre-check and load directory 1, CSR / save directory 0):
    obtain reports success, the reload reports "does not exist" *)
Theorem C06_reload_after_success_refuted_spelling :
  exists cfg sp orc c', evals (run_hop no_faults cfg sp orc HObtain) empty_core (Ok None) c' /\
                        evals (load_managed no_faults cfg (s_load sp)) c' (Fail ENotExist) c'.
Proof.
  exists (Config 1 false false), (Subject 1 1 0 0), (Oracle [Some (10%Z, VFresh)] []).
  eexists. split.
  - generalize (evals_run_hop (Config 1 false false) (Subject 1 1 0 0) (Oracle [Some (10%Z, VFresh)] []) HObtain
                              empty_core typed_nil eq_refl).
    vm_compute run_hop_pure. cbn [fst snd]. intros H; exact H.
  - match goal with |- evals _ ?c _ _ =>
      assert (T : typed (k_st c)) by (apply (typed_put_bundle [] 0%nat 0 0 _ [0]); apply typed_nil);
      generalize (evals_load_managed c (Config 1 false false) 1 T) end.
    vm_compute managed_of. intros H; exact H.
Qed.
Print Assumptions C06_reload_after_success_refuted_spelling.

(** without key reuse, whatever operation runs: a certificate not in storage before is for the
    key generated during this very operation, stored next to it, and that key occurs nowhere in the
    previous storage (not as a key, not quarantined, not in a certificate) *)
Theorem C06_fresh_key_unless_reuse : forall cfg sp c orc h r c',
  reach6 cfg sp c -> reuse cfg = false -> evals (run_hop no_faults cfg sp orc h) c r c' ->
  (forall i d x, dir_crt (k_st c') i d = Some x ->
                 dir_crt (k_st c) i d = Some x \/
                 (c_pub x = k_nkey c /\ dir_key (k_st c') i d = Some (c_pub x))) /\
  (forall i d, dir_key (k_st c) i d <> Some (k_nkey c)) /\
  (forall i d, dir_comp (k_st c) i d <> Some (k_nkey c)) /\
  (forall i d x, dir_crt (k_st c) i d = Some x -> c_pub x <> k_nkey c).
Proof. exact m_fresh_key_unless_reuse. Qed.
Print Assumptions C06_fresh_key_unless_reuse.

(** with key reuse a renewal certifies the key of the bundle it loaded and generates no key *)
Theorem C06_reuse_keeps_key : forall cfg sp c orc f r c' j k0 c0 m0,
  reach6 cfg sp c -> reuse cfg = true ->
  newest_bundle (k_st c) cfg (s_load sp) = Some (j, k0, c0, m0) ->
  evals (run_hop no_faults cfg sp orc (HRenew f)) c r c' ->
  (forall i d x, dir_crt (k_st c') i d = Some x ->
                 dir_crt (k_st c) i d = Some x \/ (c_pub x = k0 /\ dir_key (k_st c') i d = Some (c_pub x))) /\
  k_nkey c' = k_nkey c.
Proof. exact m_reuse_keeps_key. Qed.
Print Assumptions C06_reuse_keeps_key.

(** ... and an obtain (no complete bundle yet) certifies the first key found under the name in
    issuer order and generates no key *)
Theorem C06_reuse_keeps_key_obtain : forall cfg sp c orc r c' j k0,
  reach6 cfg sp c -> reuse cfg = true ->
  first_key_i (k_st c) (issuers cfg) (s_pre sp) = Some (j, k0) ->
  evals (run_hop no_faults cfg sp orc HObtain) c r c' ->
  (forall i d x, dir_crt (k_st c') i d = Some x ->
                 dir_crt (k_st c) i d = Some x \/ (c_pub x = k0 /\ dir_key (k_st c') i d = Some (c_pub x))) /\
  k_nkey c' = k_nkey c.
Proof.
  intros cfg sp c orc r c' j k0 HR HRe HK HE. apply reach6_inv in HR.
  generalize (evals_run_hop_inv _ _ _ _ _ _ _ HR HE). cbn [run_hop_pure]. intros [= _ <-].
  apply (reuse_keeps_key_obtain cfg sp orc c j k0 HRe HK).
Qed.
Print Assumptions C06_reuse_keeps_key_obtain.

(** what manage caches is a certificate for exactly the requested identifier, with its matching
    key, and it is the newest stored bundle *)
Theorem C06_cached_covers_requested : forall cfg sp c orc mc c',
  reach6 cfg sp c -> evals (manage no_faults cfg sp orc) c (Ok mc) c' ->
  c_sub (m_c mc) = s_id sp /\ c_pub (m_c mc) = m_k mc /\ In (m_i mc) (issuers cfg) /\
  newest_bundle (k_st c') cfg (s_save sp) = Some (m_i mc, m_k mc, m_c mc, [s_id sp]).
Proof. exact m_cached_covers_requested. Qed.
Print Assumptions C06_cached_covers_requested.

(** several issuers: the loaded bundle has the latest NotBefore among the issuers that have a
    complete bundle, the first configured issuer on ties (any well-typed storage).
    "Most recently issued" = latest NotBefore only for issuers that do not backdate past each other. *)
Theorem C06_newest_of_issuers_loaded : forall cfg d c i k x m c',
  typed (k_st c) -> evals (load_any no_faults cfg d) c (Ok (i, k, x, m)) c' ->
  (i < n_iss cfg)%nat /\ bundle_at (k_st c) i d = Some (i, k, x, m) /\
  forall j b', (j < n_iss cfg)%nat -> bundle_at (k_st c) j d = Some b' ->
               (c_nb (b_cert b') <= c_nb x)%Z /\ (c_nb (b_cert b') = c_nb x -> (i <= j)%nat).
Proof. exact m_newest_of_issuers_loaded. Qed.
Print Assumptions C06_newest_of_issuers_loaded.

(** a certificate revoked for key compromise: what manage serves afterwards does not use that
    key — with one issuer, or without key reuse. Missing for the full statement: several issuers
    with key reuse, see the refutation below. *)
Theorem C06_compromised_key_never_reused_partial : forall cfg sp c orc mc0 mc c',
  reach6 cfg sp c -> oracle_ok cfg orc -> (n_iss cfg = 1%nat \/ reuse cfg = false) ->
  evals (load_managed no_faults cfg (s_load sp)) c (Ok mc0) c -> m_rev mc0 = Some true ->
  evals (manage no_faults cfg sp orc) c (Ok mc) c' ->
  m_k mc <> m_k mc0.
Proof. exact m_compromised_key_never_reused_partial. Qed.
Print Assumptions C06_compromised_key_never_reused_partial.

(** two issuers [A(down); B] with key reuse: obtain -> B issues for key 0; forced renewal -> A
    issues for key 0; A's certificate is revoked for key compromise; manage succeeds, issues
    nothing, and serves B's old certificate with the compromised key 0 *)
Definition w6_cfg := Config 2 true false.
Definition w6_sp := Subject 0 0 0 0.
Definition w6_up (nb : Z) : option (Z * validity) := Some (nb, VFresh).
Definition w6_a := snd (run_hop_pure w6_cfg w6_sp (Oracle [None; w6_up 10] []) HManage empty_core).
Definition w6_b := snd (run_hop_pure w6_cfg w6_sp (Oracle [w6_up 20; w6_up 20] []) (HRenew true) w6_a).
Definition w6_c := snd (run_hop_pure w6_cfg w6_sp (Oracle [] []) (HRevokeEnv 0 true) w6_b).
Lemma w6_reach : reach6 w6_cfg w6_sp w6_a /\ reach6 w6_cfg w6_sp w6_b /\ reach6 w6_cfg w6_sp w6_c.
Proof.
  assert (Ra : reach6 w6_cfg w6_sp w6_a).
  { eapply reach6_step; [apply reach6_empty|]. apply evals_run_hop; [apply typed_nil | reflexivity]. }
  assert (Rb : reach6 w6_cfg w6_sp w6_b).
  { eapply reach6_step; [exact Ra|]. apply evals_run_hop; [apply (i_typed _ _ _ (reach6_inv _ _ _ Ra)) | apply (i_unlocked _ _ _ (reach6_inv _ _ _ Ra))]. }
  assert (Rc : reach6 w6_cfg w6_sp w6_c).
  { eapply reach6_step; [exact Rb|]. apply evals_run_hop; [apply (i_typed _ _ _ (reach6_inv _ _ _ Rb)) | apply (i_unlocked _ _ _ (reach6_inv _ _ _ Rb))]. }
  auto.
Qed.
Theorem C06_compromised_key_never_reused_refuted :
  exists cfg sp c orc mc0 mc c',
    reach6 cfg sp c /\ oracle_ok cfg orc /\
    evals (load_managed no_faults cfg (s_load sp)) c (Ok mc0) c /\ m_rev mc0 = Some true /\
    evals (manage no_faults cfg sp orc) c (Ok mc) c' /\
    m_k mc = m_k mc0 /\ k_nser c' = k_nser c.
Proof.
  destruct w6_reach as (_ & _ & Rc). pose proof (reach6_inv _ _ _ Rc) as I.
  exists w6_cfg, w6_sp, w6_c, (Oracle [w6_up 30; w6_up 30] []).
  generalize (evals_load_managed w6_c w6_cfg (s_load w6_sp) (i_typed _ _ _ I)).
  generalize (evals_manage w6_cfg w6_sp (Oracle [w6_up 30; w6_up 30] []) w6_c (i_typed _ _ _ I) (i_unlocked _ _ _ I)).
  remember (manage_pure w6_cfg w6_sp (Oracle [w6_up 30; w6_up 30] []) w6_c) as mp eqn:Emp.
  remember (managed_of w6_c w6_cfg (s_load w6_sp)) as mo eqn:Emo.
  vm_compute in Emp, Emo. subst mp mo. cbn [fst snd]. intros HM HL.
  eexists _, _, _. split; [exact Rc|]. split; [intros H; discriminate H|].
  split; [exact HL|]. split; [reflexivity|]. split; [exact HM|]. split; reflexivity.
Qed.
Print Assumptions C06_compromised_key_never_reused_refuted.

(** "the most recently issued stored certificate is the one loaded", literally: issuance order is
    the order of the serial numbers. In every history whose issuers date each certificate after all
    stored ones ([reach6f]: forward oracles) the loaded bundle carries the highest serial among the
    issuers' complete bundles. *)
Theorem C06_most_recently_issued_loaded : forall cfg sp c d i k x m c',
  reach6f cfg sp c -> evals (load_any no_faults cfg d) c (Ok (i, k, x, m)) c' ->
  bundle_at (k_st c) i d = Some (i, k, x, m) /\
  forall j b', (j < n_iss cfg)%nat -> bundle_at (k_st c) j d = Some b' -> c_ser (b_cert b') <= c_ser x.
Proof. exact most_recently_issued_loaded. Qed.
Print Assumptions C06_most_recently_issued_loaded.

(** the check's recency clause ([Check.spec_recent], evaluated by [check_line6] on the implementation's
    observation as long as the history is forward) holds of the model's own observation of every step of
    a forward history: the monitor and [C06_most_recently_issued_loaded] say the same thing *)
Theorem C06_monitor_sound_recent : forall cfg sp orc h w,
  reach6f cfg sp (w_core w) -> forward orc (k_st (w_core w)) -> s_load sp = s_save sp ->
  spec_recent cfg sp h (fst (model_step no_faults cfg sp w h orc)) = true.
Proof. exact monitor_sound_recent. Qed.
Print Assumptions C06_monitor_sound_recent.

(** ... and false when an issuer backdates behind a stored certificate: A issues serial 0 dated 20,
    a forced renewal goes to B (A down), which issues serial 1 dated 10: every load returns A's
    certificate although B's was issued later *)
Definition w6b_cfg := Config 2 false false.
Definition w6b_a := snd (run_hop_pure w6b_cfg w6_sp (Oracle [w6_up 20; None] []) HObtain empty_core).
Definition w6b_b := snd (run_hop_pure w6b_cfg w6_sp (Oracle [None; w6_up 10] []) (HRenew true) w6b_a).
Lemma w6b_reach : reach6 w6b_cfg w6_sp w6b_b.
Proof.
  assert (Ra : reach6 w6b_cfg w6_sp w6b_a).
  { eapply reach6_step; [apply reach6_empty|]. apply evals_run_hop; [apply typed_nil | reflexivity]. }
  eapply reach6_step; [exact Ra|].
  apply evals_run_hop; [apply (i_typed _ _ _ (reach6_inv _ _ _ Ra)) | apply (i_unlocked _ _ _ (reach6_inv _ _ _ Ra))].
Qed.
Theorem C06_most_recently_issued_refuted_backdating :
  exists cfg sp c i k x m j b',
    reach6 cfg sp c /\ evals (load_any no_faults cfg (s_load sp)) c (Ok (i, k, x, m)) c /\
    (j < n_iss cfg)%nat /\ bundle_at (k_st c) j (s_load sp) = Some b' /\ c_ser x < c_ser (b_cert b').
Proof.
  pose proof (reach6_inv _ _ _ w6b_reach) as I.
  generalize (evals_load_any w6b_b w6b_cfg (s_load w6_sp) (i_typed _ _ _ I)).
  remember (newest_bundle (k_st w6b_b) w6b_cfg (s_load w6_sp)) as nb eqn:En. vm_compute in En. subst nb.
  intros HL. exists w6b_cfg, w6_sp, w6b_b. eexists _, _, _, _, 1%nat, _.
  split; [exact w6b_reach|]. split; [exact HL|]. split; [cbn; auto|]. split; [vm_compute; reflexivity|].
  vm_compute. reflexivity.
Qed.
Print Assumptions C06_most_recently_issued_refuted_backdating.

(** * the check's monitor and the theorems say the same thing
    [Check.spec_state] = the state clauses [check_line6] evaluates on the IMPLEMENTATION's observation of
    every step (complete matching bundle; reload returns the newest bundle; cached certificate names the
    identifier; compromised key not served again). Evaluated on the model's own observation of a step from
    any reachable state it is true, under the hypotheses of the partial theorems (consistent spelling; one
    issuer or no key reuse) - the two excluded classes are the two known findings. The revocations the
    monitor knows ([env]) are the model's [k_ocsp]. *)
Theorem C06_monitor_sound_state : forall cfg sp orc h w,
  reach6 cfg sp (w_core w) -> oracle_ok cfg orc -> s_load sp = s_save sp ->
  (n_iss cfg = 1%nat \/ reuse cfg = false) ->
  spec_state cfg sp (k_ocsp (w_core w)) (w_st w) h (fst (model_step no_faults cfg sp w h orc)) = true.
Proof. exact monitor_sound_state. Qed.
Print Assumptions C06_monitor_sound_state.

(** non-vacuity of the hypotheses *)
Example C06_reachable_nontrivial :
  reach6 w6_cfg w6_sp w6_c /\ oracle_ok w6_cfg (Oracle [w6_up 30; w6_up 30] []) /\
  length (k_st w6_c) = 6%nat /\ k_ocsp w6_c = [(1, true)].
Proof. split; [apply w6_reach|]. split; [intros H; discriminate H|]. vm_compute. auto. Qed.
Example C06_partial_hypotheses_met :
  (* one issuer, key reuse, revoked for key compromise: a new key is used *)
  let cfg := Config 1 true false in
  let a := snd (run_hop_pure cfg w6_sp (Oracle [w6_up 10] []) HManage empty_core) in
  let b := revoke_env_pure w6_sp 0 true a in
  exists mc0 mc c', managed_of b cfg 0 = Ok mc0 /\ m_rev mc0 = Some true /\
                    manage_pure cfg w6_sp (Oracle [w6_up 20] []) b = (Ok mc, c') /\ m_k mc0 = 0 /\ m_k mc = 1.
Proof. vm_compute. eexists _, _, _. repeat split. Qed.

(** forward histories exist and are non-trivial: two issuers, B issues dated 10, then A dated 20
    (forced renewal): the load returns A's certificate, serial 1 *)
Example C06_forward_history_nontrivial :
  let a := snd (run_hop_pure w6b_cfg w6_sp (Oracle [None; w6_up 10] []) HObtain empty_core) in
  let b := snd (run_hop_pure w6b_cfg w6_sp (Oracle [w6_up 20; None] []) (HRenew true) a) in
  reach6f w6b_cfg w6_sp b /\
  exists x, newest_bundle (k_st b) w6b_cfg 0 = Some (0%nat, 1, x, [0]) /\ c_ser x = 1 /\ length (k_st b) = 6%nat.
Proof.
  cbv zeta. split.
  - assert (Ra : reach6f w6b_cfg w6_sp (snd (run_hop_pure w6b_cfg w6_sp (Oracle [None; w6_up 10] []) HObtain empty_core))).
    { eapply reach6f_step; [apply reach6f_empty | | apply evals_run_hop; [apply typed_nil | reflexivity]].
      intros i nb v _ j d y H. discriminate H. }
    pose proof (reach6_inv _ _ _ (reach6f_reach6 _ _ _ Ra)) as I.
    eapply reach6f_step; [exact Ra | | apply evals_run_hop; [apply (i_typed _ _ _ I) | apply (i_unlocked _ _ _ I)]].
    intros i nb v Hn j d y Hy.
    assert (Hnb : nb = 20%Z).
    { destruct i as [|[|[|i]]]; cbn in Hn; try discriminate; injection Hn as <- _; reflexivity. }
    subst nb. revert Hy. unfold dir_crt.
    destruct (sget _ _) as [[?|y0|?]|] eqn:E; try discriminate. intros [= <-].
    apply Faults.sget_in in E. vm_compute in E.
    destruct E as [H|[H|[H|[]]]]; try discriminate; injection H as _ _ <-; reflexivity.
  - vm_compute. eexists. repeat split.
Qed.

(** * the statement order of the source, re-read by the translator on every run ([Gen.Consts]),
    against the order in which the MODEL performs its Storage calls: (operation, file kind) of every
    call on a certificate file, from the model's own log *)
Definition c06_file_ops (w : world) : list (Z * Z) :=
  flat_map (fun e => match e with LOp k (TFile (_, _, fk)) _ => [(okind_code k, fkind_code fk)] | _ => [] end) (rev (w_log w)).
Definition c06_x : cert := Cert 7 0 10%Z VFresh 0.
Definition c06_full : world := World (set_st empty_core (put_bundle [] 0 0 7 c06_x [0])) 0 [].
Theorem C06_source_order_matches_model :
  (* saveCertResource + storeTx: Store .key, .crt, .json *)
  map snd (c06_file_ops (snd (save no_faults 0 0 7 c06_x [0] empty_world))) = c06_save_order /\
  map fst (c06_file_ops (snd (save no_faults 0 0 7 c06_x [0] empty_world))) = [0; 0; 0]%Z /\
  c06_save_via_storetx = true /\ c06_storetx_shape = true /\
  (* storageHasCertResources: Exists .crt, .key, .json *)
  map snd (c06_file_ops (snd (has_res no_faults 0 0 c06_full))) = c06_has_order /\
  (* loadCertResource: Load .key, .crt, .json *)
  map snd (c06_file_ops (snd (load_res no_faults 0 0 c06_full))) = c06_load_order /\
  (* moveCompromisedPrivateKey: Load key, Store key.compromised, Delete key; the source has one more
     Delete on the error path of the Store, which the model takes when that Store fails *)
  map fst (c06_file_ops (snd (move_compromised no_faults 0 0 c06_full))) = [1; 0; 2]%Z /\
  map fst (c06_file_ops (snd (move_compromised (single_error 1) 0 0 c06_full))) = [1; 0; 2]%Z /\
  c06_move_compromised_calls = [1; 0; 2; 2]%Z /\
  c06_compromised_suffix = [46; 99; 111; 109; 112; 114; 111; 109; 105; 115; 101; 100].
Proof. vm_compute. repeat split. Qed.
Print Assumptions C06_source_order_matches_model.

(** hypotheses of [C06_reuse_keeps_key_obtain] on a reachable state: after an obtain with key reuse the
    first key under the name is key 0. (In fault-free histories a key never lies under the name without a
    complete bundle, so there the obtain is a no-op; the issuing branch is reached from torn saves: C07.) *)
Example C06_reuse_obtain_hypotheses_met :
  let cfg := Config 2 true false in
  let a := snd (run_hop_pure cfg w6_sp (Oracle [None; w6_up 10] []) HObtain empty_core) in
  first_key_i (k_st a) (issuers cfg) (s_pre w6_sp) = Some (1%nat, 0) /\ reuse cfg = true.
Proof. vm_compute. split; reflexivity. Qed.

(** a faulted run that still reports success: the first Exists of the pre-check fails (answers "absent"),
    the obtain goes on and stores the bundle; and one that reports the error: the Store of the .crt fails *)
Example C06_faulted_success_and_faulted_error :
  let orc := Oracle [w6_up 10] [] in let cfg := Config 1 false false in
  fst (run_hop (single_error 0) cfg w6_sp orc HObtain empty_world) = Ok None /\
  length (w_st (snd (run_hop (single_error 0) cfg w6_sp orc HObtain empty_world))) = 3%nat /\
  fst (run_hop (single_error 8) cfg w6_sp orc HObtain empty_world) = Fail EInjected /\
  w_st (snd (run_hop (single_error 8) cfg w6_sp orc HObtain empty_world)) = [].
Proof. vm_compute. repeat split. Qed.

(** retried and cancelled calls on concrete worlds: [fail, ok] succeeds on the second attempt with the second
    generated key (key 1; key 0 of the failed attempt is not stored); a cancellation before the first attempt
    is an error; the log of the retried call contains both generations *)
Example C06_async_examples :
  let cfg := Config 1 false false in
  let r := obtain_async no_faults cfg w6_sp (Oracle [None] []) [Oracle [w6_up 20] []] empty_world in
  fst r = Ok tt /\ dir_key (w_st (snd r)) 0 0 = Some 1 /\ length (w_st (snd r)) = 3%nat /\
  In (LGen 0) (w_log (snd r)) /\ In (LGen 1) (w_log (snd r)) /\
  fst (obtain_async_c no_faults cfg w6_sp (Oracle [w6_up 20] []) [] 0 empty_world) = Fail EOther /\
  fst (run_async cfg w6_sp (Oracle [None] []) [Oracle [w6_up 20] []] (false, false, Some 2%nat) empty_world) = Ok tt.
Proof. vm_compute. repeat split; auto 10. Qed.
