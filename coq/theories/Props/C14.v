(** C14 — placeholder while the correspondence is brought up *)
From CM Require Import Ocsp.Model.
