(** C14 — Only a Good, in-date OCSP response for that certificate is ever stapled.
    Statements only, each closed by [exact] (or a few lines), with [Print Assumptions] beneath.
    Model: Ocsp/Model.v ([staple] = stapleOCSP with getOCSPForCert / checkOCSPResponse /
    freshOCSP; [step] = cache a certificate | one pass over the cache: the tick of updateOCSPStaples,
    a handshake's handshakeMaintenance, or manageOne's immediate forceRenew, with the revocation
    reaction | restart | somebody else writes storage). The model is the code AFTER the fixes
    recorded in known_findings.d/C14.json. *)
From Coq Require Import List ZArith Bool Lia.
From CM Require Import Ocsp.Model Ocsp.Proofs Ocsp.Check Ocsp.Proofs2.
Import ListNotations.
Open Scope Z_scope.

(** ** 1. What is stapled (one call of stapleOCSP) *)

(** F — whatever a call leaves stapled is what the certificate carried before, or a response
    that is Good, for this very serial, within its own validity period now (a response without
    nextUpdate does not end), whose validity does not extend past the certificate's expiry; and
    it verifies against the issuer, signed by the issuer itself or by a responder certificate the
    issuer issued for OCSP signing and that is valid now ([responder_ok]); it was fetched, or was a
    fresh persisted staple. For every responder answer, persisted value, storage fault,
    certificate and time. *)
Theorem C14_staple_sound : forall dis c cs st e now b,
  cs_staple (res_cs (staple dis c cs st e now)) = Some b ->
  cs_staple cs = Some b \/
  exists r, b_parse b = Some r /\ r_status r = Good /\ r_serial r = c_serial c /\
    r_this r <= now /\ (r_next r = zero_time \/ now < r_next r) /\ r_next r <= c_expiry c /\
    responder_ok now r = true /\ r_sig r = true /\
    ((e_ans e = ABytes b /\ res_contact (staple dis c cs st e now) = true) \/
     (st = Some b /\ fresh now r = true /\ res_contact (staple dis c cs st e now) = false)).
Proof.
  intros dis c cs st e now b H.
  destruct (staple_sound dis c cs st e now b H) as [E|(r & (A1 & A2 & A3 & A4 & A5 & A6 & A7) & S & T)]; [left; exact E|].
  right. exists r. repeat split; try assumption.
  destruct S as [(S1 & _ & S3)|S]; [left; auto|right; exact S].
Qed.
Print Assumptions C14_staple_sound.

(** F — "never": Revoked, Unknown, malformed / unverifiable, already-expired, not-yet-valid,
    over-long responses, responses for another serial, and responses signed by a responder
    certificate that is expired or was not issued for OCSP signing change nothing on the staple *)
Theorem C14_bad_answer_never_stapled : forall dis c cs st e now,
  reusable c now st = false ->
  (forall b r, e_ans e = ABytes b -> b_parse b = Some r ->
     ~ (r_sig r = true /\ r_status r = Good /\ r_serial r = c_serial c /\ r_this r <= now /\
        (r_next r = zero_time \/ now < r_next r) /\ r_next r <= c_expiry c /\
        responder_ok now r = true)) ->
  cs_staple (res_cs (staple dis c cs st e now)) = cs_staple cs.
Proof. exact bad_answer_never_stapled. Qed.
Print Assumptions C14_bad_answer_never_stapled.

(** F — only the verified Good response just stapled is ever persisted (so storage written by
    certmagic alone satisfies [store_signed]) *)
Theorem C14_persisted_is_stapled : forall dis c cs st e now,
  let res := staple dis c cs st e now in
  res_store res = st \/ (res_store res = None /\ corrupt c st = true) \/
  exists b r, res_store res = Some b /\ cs_staple (res_cs res) = Some b /\ e_ans e = ABytes b /\
              AttachOK c now b r /\ r_sig r = true.
Proof. exact persisted_is_stapled. Qed.
Print Assumptions C14_persisted_is_stapled.

(** ** 2. Histories: every staple in the cache, after any sequence of operations *)

(** F — for every history (cache / maintenance pass / restart / foreign write, in any order and
    number, any responder behaviour, storage faults and renewal outcomes) from an empty cache:
    every staple a cached certificate carries was, at the time [en_att] of the operation that
    attached it, a Good response for that certificate's serial, current, not outliving the
    certificate. No hypothesis. *)
Theorem C14_served_staples_sound : forall ops st0 en b,
  In en (cache (run (Sys [] st0) ops)) -> cs_staple (en_cs en) = Some b ->
  (exists r, AttachOK (en_cert en) (en_att en) b r) /\
  In (Some (en_att en)) (map op_time ops).
Proof.
  intros ops st0 en b I B. split.
  - assert (H : Inv (run (Sys [] st0) ops)) by (apply run_inv; constructor).
    unfold Inv in H. rewrite Forall_forall in H. specialize (H en I b B).
    apply attach_ok_spec in H. destruct H as (r & A & _). exists r. exact A.
  - destruct (run_att ops (Sys [] st0) en I) as [(en0 & [] & _)|H]. exact H.
Qed.
Print Assumptions C14_served_staples_sound.

(** F — and it verifies against the issuer (signed by the issuer, or by a responder certificate
    that the issuer signed, that has the OCSP-signing purpose and was valid then): for ANY initial
    storage content, ANY foreign writes, certificates with or without their issuer in the chain,
    and every kind of visit (tick, handshake, manageOne). No hypothesis (after the fix of finding
    C14-forged-persisted-no-issuer-in-chain). *)
Theorem C14_served_staples_verified : forall ops st0 en b,
  In en (cache (run (Sys [] st0) ops)) -> cs_staple (en_cs en) = Some b ->
  exists r, AttachOK (en_cert en) (en_att en) b r /\ r_sig r = true /\
            responder_ok (en_att en) r = true.
Proof.
  intros ops st0 en b I B.
  assert (H : Inv (run (Sys [] st0) ops)) by (apply run_inv; constructor).
  unfold Inv in H. rewrite Forall_forall in H. specialize (H en I b B).
  apply attach_ok_spec in H. destruct H as (r & A & Sg). exists r. split; [exact A|]. split; [auto|].
  destruct A as (_ & _ & _ & _ & _ & _ & RO). exact RO.
Qed.
Print Assumptions C14_served_staples_verified.

(** F — the same for what a handshake gets back while it refreshes the status itself
    (handshakeMaintenance): the staple the cached certificate had, or a verified Good current
    response for it *)
Theorem C14_handshake_gets_sound_staple : forall dis now e en st,
  ret_sound (en_cert en) (cs_staple (en_cs en)) (cs_staple (hs_returned dis now e en st)) now = true.
Proof. exact hs_returned_sound. Qed.
Print Assumptions C14_handshake_gets_sound_staple.

(** F — a handshake does not ask anybody while the recorded status is fresh and not Revoked *)
Theorem C14_handshake_fresh_untouched : forall dis now e rn en st r,
  cs_ocsp (en_cs en) = Some r -> fresh now r = true -> r_status r <> Revoked ->
  maintain_one KHandshake dis now e rn en st = ([en], st, []).
Proof. exact hs_fresh_untouched. Qed.
Print Assumptions C14_handshake_fresh_untouched.

(** F — a persisted staple that cannot be verified (no issuer in the chain) is neither reused nor
    deleted: it is not looked at *)
Theorem C14_unverifiable_persisted_not_used : forall c now st,
  c_chain c = false -> reusable c now st = false /\ corrupt c st = false.
Proof.
  intros c now st Ch. unfold reusable, corrupt, stored_parse. rewrite Ch. split; [|reflexivity].
  destruct st; reflexivity.
Qed.
Print Assumptions C14_unverifiable_persisted_not_used.

(** R — so the clause "a still-fresh persisted staple is reused without contacting the responder"
    is false for certificates handed over WITHOUT their issuer: the responder is asked although a
    fresh, valid, properly signed staple is persisted (the price of never stapling what cannot be
    verified; replayed on the real code as corpus class chainless-persisted-not-reused) *)
Theorem C14_reuse_refuted_chainless :
  exists c cs b r e now,
    c_chain c = false /\ b_parse b = Some r /\ r_sig r = true /\ r_status r = Good /\
    fresh now r = true /\ valid_for c now r = true /\ r_next r <= c_expiry c /\
    res_contact (staple false c cs (Some b) e now) = true.
Proof. exact reuse_refuted_chainless. Qed.
Print Assumptions C14_reuse_refuted_chainless.

(** ** 3. Responder failure is not fatal *)

(** F — an unreachable responder, a dropped connection or an unusable body leaves the
    certificate's OCSP state exactly as it was (only an error is reported, and not even that for
    short-lived certificates) *)
Theorem C14_responder_failure_leaves_cert_alone : forall dis c cs st e now,
  reusable c now st = false ->
  match e_ans e with ABytes b => parse_issuer b = None | _ => True end ->
  res_cs (staple dis c cs st e now) = cs.
Proof. exact responder_failure_leaves_cert_alone. Qed.
Print Assumptions C14_responder_failure_leaves_cert_alone.

(** F — caching a certificate succeeds for EVERY responder behaviour and storage fault *)
Theorem C14_responder_failure_not_fatal : forall s c m dis e now,
  let s' := fst (step s (OCache c m dis e now)) in
  has_cert (c_id c) (cache s') = true /\
  (has_cert (c_id c) (cache s) = false ->
   exists en, In en (cache s') /\ en_cert en = c /\ en_managed en = m).
Proof. exact cache_always_caches. Qed.
Print Assumptions C14_responder_failure_not_fatal.

(** F — the handshake's view: a certificate in the cache is served for its name, and only
    cached certificates are served (so "leaves the cache" below means "stops being served") *)
Theorem C14_served_iff_cached : forall l,
  (forall en, In en l -> served (c_name (en_cert en)) l <> None) /\
  (forall name en, served name l = Some en -> In en l /\ c_name (en_cert en) = name).
Proof. intros l. split; [exact (cached_is_served l)|exact (fun n en => served_is_cached n l en)]. Qed.
Print Assumptions C14_served_iff_cached.

(** F — and a pass of any kind (the tick, a handshake, manageOne) removes a certificate only if
    it is managed and was reported Revoked by a response that passed all checks ([may_drop]:
    recorded, or learned in this pass); in particular never because the responder failed *)
Theorem C14_maintenance_keeps_certificates : forall s ks dis now envs rns en,
  NoDup (ids (cache s)) -> new_fresh (cache s) rns -> In en (cache s) ->
  let st := step s (OMaintain ks dis now envs rns) in
  has_cert (eid en) (cache (fst st)) = true \/
  (en_managed en = true /\ may_drop (ks (eid en)) dis now (envs (eid en)) s (snd st) en = true).
Proof.
  intros s ks dis now envs rns en N F I st.
  pose proof (step_not_fatal_holds s (OMaintain ks dis now envs rns) N F) as H.
  cbn [step_not_fatal] in H. rewrite forallb_forall in H. specialize (H en I).
  apply orb_true_iff in H. destruct H as [H|H]; [left; exact H|right].
  apply andb_true_iff in H. exact H.
Qed.
Print Assumptions C14_maintenance_keeps_certificates.

(** ** 4. Persisted staples *)

(** F — a still-fresh persisted staple for this certificate is reused: no contact, no request,
    storage untouched, and if Good (and not outliving the certificate) it is what gets stapled *)
Theorem C14_fresh_persisted_reused_without_contact : forall c cs e now b r,
  stored_parse c b = Some r -> fresh now r = true -> valid_for c now r = true -> e_load_err e = false ->
  let res := staple false c cs (Some b) e now in
  res_contact res = false /\ res_seen res = false /\ res_store res = Some b /\
  res_ops res = [SLoad] /\
  (r_next r <= c_expiry c -> res_err res = false /\ cs_ocsp (res_cs res) = Some r /\
     (r_status r = Good -> cs_staple (res_cs res) = Some b)).
Proof. exact fresh_persisted_reused. Qed.
Print Assumptions C14_fresh_persisted_reused_without_contact.

(** F — also after a restart: what one process persisted, the next one staples without the
    responder seeing a request, whatever the responder would do ([e'] is arbitrary) *)
Theorem C14_persisted_staple_reused_after_restart : forall s c m e now b r m' e' now',
  let s1 := fst (step s (OCache c m false e now)) in
  sget (c_id c) (stor s1) = Some b -> stored_parse c b = Some r -> r_status r = Good ->
  r_serial r = c_serial c -> r_next r <= c_expiry c ->
  r_this r <= now' -> fresh now' r = true -> responder_ok now' r = true -> e_load_err e' = false ->
  let st2 := step (fst (step s1 ORestart)) (OCache c m' false e' now') in
  (exists en, cache (fst st2) = [en] /\ en_cert en = c /\ cs_staple (en_cs en) = Some b) /\
  (forall cl, In cl (snd st2) -> cl_seen cl = false) /\
  sget (c_id c) (stor (fst st2)) = Some b.
Proof. exact persisted_staple_reused_after_restart. Qed.
Print Assumptions C14_persisted_staple_reused_after_restart.

(** F — the cross-process monitor [own_reuse] (the staple certmagic persisted for a certificate
    earlier, wherever it put it, must spare the responder a request when that certificate is
    cached again while it is fresh) holds of the model, because the model loads for [c] exactly
    what it persisted for [c] *)
Theorem C14_own_persisted_staple_reused : forall s c m dis e now,
  own_reuse (sget (c_id c) (stor s)) c dis e now (snd (step s (OCache c m dis e now))) = true.
Proof. exact own_reuse_holds. Qed.
Print Assumptions C14_own_persisted_staple_reused.

(** F — a corrupt persisted staple (unparseable, or not verifiable against the issuer in the
    chain) is deleted; what may take its place is only a verified Good response for this
    certificate *)
Theorem C14_corrupt_persisted_deleted : forall c cs e now b,
  c_chain c = true -> stored_parse c b = None -> e_load_err e = false -> e_del_err e = false ->
  let res := staple false c cs (Some b) e now in
  In SDelete (res_ops res) /\
  (res_store res = None \/
   exists b' r', res_store res = Some b' /\ e_ans e = ABytes b' /\ AttachOK c now b' r' /\ r_sig r' = true).
Proof. exact corrupt_persisted_deleted. Qed.
Print Assumptions C14_corrupt_persisted_deleted.

(** ** 5. Revocation *)

(** F — a managed, unexpired certificate known to be revoked ([must_renew]: for the tick recorded
    or learned in this pass from a response that passed all checks; for manageOne recorded when
    it was cached; for a handshake what its copy says after the refresh) is, in the same pass,
    replaced by the new certificate, and if no replacement could be obtained (or loaded) it leaves
    the cache *)
Theorem C14_revoked_replaced_or_evicted : forall s ks dis now envs rns en,
  NoDup (ids (cache s)) -> new_fresh (cache s) rns -> In en (cache s) ->
  en_managed en = true -> c_expiry (en_cert en) >= now ->
  let st := step s (OMaintain ks dis now envs rns) in
  must_renew (ks (eid en)) dis now (envs (eid en)) s (snd st) en = true ->
  has_cert (eid en) (cache (fst st)) = false /\
  (forall newc e', rns (eid en) = ROk newc e' -> has_cert (c_id newc) (cache (fst st)) = true).
Proof.
  intros s ks dis now envs rns en N F I Mg X st Lr.
  pose proof (step_revoked_holds s (OMaintain ks dis now envs rns) N F) as H.
  cbn [step_revoked] in H. rewrite forallb_forall in H. specialize (H en I).
  fold (eid en) in H. fold st in H. rewrite Mg, Lr in H.
  assert (Xb : (c_expiry (en_cert en) <? now) = false) by (apply Z.ltb_ge; lia).
  rewrite Xb in H. cbn [negb andb orb] in H.
  destruct (rns (eid en)) as [|newc e0|].
  - apply negb_true_iff in H. split; [exact H|]. intros ? ? Q. discriminate.
  - apply andb_true_iff in H. destruct H as [H1 H2]. apply negb_true_iff in H1. split; [exact H1|].
    intros newc' e'' Q. inversion Q; subst. exact H2.
  - apply negb_true_iff in H. split; [exact H|]. intros ? ? Q. discriminate.
Qed.
Print Assumptions C14_revoked_replaced_or_evicted.

(** F — the same from the outside: the responder answers a verified, current Revoked response
    for a managed certificate whose status is due for a refresh *)
Theorem C14_revoked_answer_replaced_or_evicted : forall s now envs rns en b r,
  NoDup (ids (cache s)) -> new_fresh (cache s) rns -> In en (cache s) ->
  let c := en_cert en in
  en_managed en = true -> c_expiry c >= now -> c_url c = true ->
  match cs_ocsp (en_cs en) with
  | Some r0 => r_status r0 <> Revoked /\ (r_status r0 = Unknown \/ fresh now r0 = false)
  | None => True
  end ->
  reusable c now (sget (eid en) (stor s)) = false ->
  e_ans (envs (eid en)) = ABytes b -> parse_issuer b = Some r -> r_status r = Revoked ->
  valid_for c now r = true -> r_next r <= c_expiry c ->
  let post := cache (fst (step s (OMaintain tick false now envs rns))) in
  has_cert (eid en) post = false /\
  (forall newc e', rns (eid en) = ROk newc e' -> has_cert (c_id newc) post = true).
Proof. exact revoked_answer_replaced_or_evicted. Qed.
Print Assumptions C14_revoked_answer_replaced_or_evicted.

(** ** 6. The runtime monitors are these theorems *)

(** F — [spec_call] (evaluated by the check on every observed call of the real stapleOCSP)
    holds of the model for all inputs *)
Theorem C14_spec_call_holds : forall dis c cs st e now,
  spec_call dis c cs st e now (staple dis c cs st e now) = true.
Proof. exact spec_call_holds. Qed.
Print Assumptions C14_spec_call_holds.

(** F — [spec_step] (evaluated by the check on every observed step of every history run against
    the real code) holds of every step of every well-formed history of the model, of any length *)
Theorem C14_spec_holds_on_all_histories : forall ops s,
  NoDup (ids (cache s)) -> run_wf s ops ->
  all_steps spec_step s ops = true.
Proof. exact all_steps_spec. Qed.
Print Assumptions C14_spec_holds_on_all_histories.

(** F — tie: the source of /repo has, right now, every comparison (and its direction), guard and
    statement order the model hard-codes (25 items extracted by the translator on every run) *)
Theorem C14_model_follows_code_shape : ocsp_code_shape = true.
Proof. exact code_shape. Qed.
Print Assumptions C14_model_follows_code_shape.

(** ** Non-vacuity: the hypotheses are met by concrete, non-trivial states *)

Definition xr (st : status) (ser th nx : Z) : resp := Resp st ser th nx None true.
Definition xc1 : cert := Cert 1 1 11 100000 7776000000000000 true true.   (* managed in the examples *)
Definition xc2 : cert := Cert 2 1 12 200000 7776000000000000 true true.   (* its replacement *)
Definition xgood : blob := Blob 10 (Some (xr Good 11 900 2000)).
Definition xrev : blob := Blob 11 (Some (xr Revoked 11 1500 3000)).
Definition xgood2 : blob := Blob 12 (Some (xr Good 12 1500 9000)).
Definition xenv (b : blob) : env := Env (ABytes b) false false false.

(** a Good answer is stapled and persisted; after a restart the persisted staple is reused while
    the responder is down; when it is no longer fresh the responder says Revoked and the
    certificate is replaced by the renewed one, whose own Good response is stapled *)
Definition xhist : list op :=
  [OCache xc1 true false (xenv xgood) 1000;
   ORestart;
   OCache xc1 true false (Env ARefused false false false) 1200;
   OMaintain tick false 1600 (fun _ => xenv xrev) (fun _ => ROk xc2 (xenv xgood2))].

Example C14_example_history :
  map (fun en => (c_id (en_cert en), match cs_staple (en_cs en) with Some b => b_id b | None => -1 end, en_att en))
      (cache (run (Sys [] []) xhist)) = [(2, 12, 1600)] /\
  map (fun en => (c_id (en_cert en), match cs_staple (en_cs en) with Some b => b_id b | None => -1 end, en_att en))
      (cache (run (Sys [] []) (firstn 3 xhist))) = [(1, 10, 1200)] /\
  snd (step (run (Sys [] []) (firstn 2 xhist)) (OCache xc1 true false (Env ARefused false false false) 1200)) =
    [Call 1 false false [SLoad]] /\
  all_steps spec_step (Sys [] []) xhist = true.
Proof. vm_compute. repeat split; auto. Qed.

Example C14_example_run_wf :
  run_wf (Sys [] []) xhist /\ NoDup (ids (cache (Sys [] []))).
Proof.
  split; [|constructor].
  cbn [run_wf xhist]. repeat split; try exact I.
  - intros en newc e' H. vm_compute in H. destruct H as [<-|[]]. vm_compute.
    intros E. inversion E; subst. intros [H|[]]. discriminate.
  - intros en1 en2 n1 e1 n2 e2 H1 H2. vm_compute in H1, H2.
    destruct H1 as [<-|[]]. destruct H2 as [<-|[]]. intros N. exfalso. apply N. reflexivity.
Qed.

(** a handshake with on-demand management meets a certificate whose recorded Good status is no
    longer fresh: it asks, learns Revoked, gets its copy back (old Good staple, still attach-valid
    when attached), and the certificate is replaced; manageOne meets a certificate cached with a
    Revoked status and replaces it at once *)
Definition only (k : mkind) (id : Z) : Z -> mkind := fun i => if i =? id then k else KSkip.
Definition xhist_hs : list op :=
  [OCache xc1 true false (xenv xgood) 1000;
   OMaintain (only KHandshake 1) false 1600 (fun _ => xenv xrev) (fun _ => ROk xc2 (xenv xgood2))].
Definition xhist_manage : list op :=
  [OCache xc1 true false (xenv xrev) 1600;
   OMaintain (only KManage 1) false 1600 (fun _ => xenv xrev) (fun _ => RFail)].

Example C14_example_handshake_and_manage :
  map (fun en => (c_id (en_cert en), match cs_staple (en_cs en) with Some b => b_id b | None => -1 end))
      (cache (run (Sys [] []) xhist_hs)) = [(2, 12)] /\
  all_steps spec_step (Sys [] []) xhist_hs = true /\
  cache (run (Sys [] []) xhist_manage) = [] /\
  all_steps spec_step (Sys [] []) xhist_manage = true /\
  (let s := run (Sys [] []) (firstn 1 xhist_hs) in
   forallb (fun en => must_renew KHandshake false 1600 (xenv xrev) s
                        (snd (step s (OMaintain (only KHandshake 1) false 1600 (fun _ => xenv xrev) (fun _ => ROk xc2 (xenv xgood2))))) en)
           (cache s) = true /\ cache s <> []) /\
  (let s := run (Sys [] []) (firstn 1 xhist_manage) in
   forallb (fun en => must_renew KManage false 1600 (xenv xrev) s [] en) (cache s) = true /\ cache s <> []).
Proof. vm_compute. repeat split; try discriminate; auto. Qed.

(** a response signed by a delegated responder: accepted while the responder certificate is valid
    and has the OCSP-signing purpose, refused otherwise *)
Example C14_example_delegated_responder :
  let rc_ok := RC 5000 0 true false in
  let rc_expired := RC 1100 0 true false in
  let rc_noeku := RC 5000 0 false false in
  let b x := Blob 20 (Some (Resp Good 11 900 2000 (Some x) true)) in
  cs_staple (res_cs (staple false xc1 (CS None None) None (xenv (b rc_ok)) 1200)) = Some (b rc_ok) /\
  cs_staple (res_cs (staple false xc1 (CS None None) None (xenv (b rc_expired)) 1200)) = None /\
  cs_staple (res_cs (staple false xc1 (CS None None) None (xenv (b rc_noeku)) 1200)) = None /\
  cs_staple (res_cs (staple false xc1 (CS None None) None (xenv (b (RC 5000 0 false true))) 1200)) <> None.
Proof. vm_compute. repeat split; discriminate. Qed.

(** the premises of [C14_revoked_answer_replaced_or_evicted] are satisfiable *)
Example C14_example_revoked_premises :
  let s := run (Sys [] []) (firstn 3 xhist) in
  exists en, In en (cache s) /\ en_managed en = true /\ c_expiry (en_cert en) >= 1600 /\
    reusable (en_cert en) 1600 (sget (eid en) (stor s)) = false /\
    match cs_ocsp (en_cs en) with
    | Some r0 => r_status r0 <> Revoked /\ (r_status r0 = Unknown \/ fresh 1600 r0 = false)
    | None => True
    end /\ parse_issuer xrev = Some (xr Revoked 11 1500 3000) /\
    valid_for (en_cert en) 1600 (xr Revoked 11 1500 3000) = true.
Proof.
  eexists. split; [vm_compute; left; reflexivity|]. vm_compute. repeat split; try discriminate; auto.
Qed.

(** the premises of [C14_fresh_persisted_reused_without_contact] and of
    [C14_corrupt_persisted_deleted] are satisfiable *)
Example C14_example_reuse_premises :
  stored_parse xc1 xgood = Some (xr Good 11 900 2000) /\ fresh 1200 (xr Good 11 900 2000) = true /\
  valid_for xc1 1200 (xr Good 11 900 2000) = true /\ stored_parse xc1 (Blob 99 None) = None /\
  c_chain xc1 = true /\ responder_ok 1200 (xr Good 11 900 2000) = true.
Proof. vm_compute. repeat split; auto. Qed.

(** the premise [must_renew] of [C14_revoked_replaced_or_evicted] (and the exception of
    [C14_maintenance_keeps_certificates]) is met in the last step of [xhist], from the responder's
    answer; and the premises of [C14_bad_answer_never_stapled] by a Revoked answer *)
Example C14_example_learned_revoked :
  let s := run (Sys [] []) (firstn 3 xhist) in
  let st := step s (OMaintain tick false 1600 (fun _ => xenv xrev) (fun _ => ROk xc2 (xenv xgood2))) in
  forallb (fun en => en_managed en && must_renew KTick false 1600 (xenv xrev) s (snd st) en &&
                     may_drop KTick false 1600 (xenv xrev) s (snd st) en) (cache s) = true /\
  NoDup (ids (cache s)) /\ cache s <> [] /\
  reusable xc1 1600 None = false /\
  (forall b r, e_ans (xenv xrev) = ABytes b -> b_parse b = Some r -> r_status r <> Good).
Proof.
  vm_compute. repeat split; try discriminate.
  - constructor; [intros []|constructor].
  - intros b r H P. inversion H; subst. inversion P; subst. discriminate.
Qed.

(** ** 7. Final round: completeness, the currency clause at its edges, answers with nothing in
    them, persisted staples over histories with restarts, and soundness of every monitor clause *)

(** F — completeness: a verified Good answer for this serial, in date now, not outliving the
    certificate, IS stapled (and recorded, and persisted unless the store fails) whenever the
    responder is asked *)
Theorem C14_good_in_date_answer_is_stapled : forall c cs st e now b r,
  c_url c = true -> reusable c now st = false ->
  e_ans e = ABytes b -> parse_issuer b = Some r -> r_status r = Good ->
  valid_for c now r = true -> r_next r <= c_expiry c ->
  let res := staple false c cs st e now in
  cs_staple (res_cs res) = Some b /\ cs_ocsp (res_cs res) = Some r /\ res_seen res = true /\
  (e_store_err e = false -> res_store res = Some b /\ res_err res = false).
Proof. exact good_answer_stapled. Qed.
Print Assumptions C14_good_in_date_answer_is_stapled.

(** F — the currency clause at its exact edges: thisUpdate = now is in date, nextUpdate = now is
    not (nor anything earlier), thisUpdate after now is not; no tolerance either way *)
Theorem C14_currency_at_boundaries : forall c now r,
  r_serial r = c_serial c -> responder_ok now r = true ->
  (r_this r = now -> (r_next r = zero_time \/ now < r_next r) -> valid_for c now r = true) /\
  (r_next r = now -> now <> zero_time -> valid_for c now r = false) /\
  (now < r_this r -> valid_for c now r = false) /\
  (r_next r <> zero_time -> r_next r <= now -> valid_for c now r = false).
Proof. exact currency_at_boundaries. Qed.
Print Assumptions C14_currency_at_boundaries.

(** F — so an answer that ended now or a nanosecond ago, or begins a nanosecond from now, never
    changes the staple, and a persisted staple in that state is not reused *)
Theorem C14_out_of_date_answer_never_stapled : forall dis c cs st e now b r,
  reusable c now st = false -> e_ans e = ABytes b -> b_parse b = Some r ->
  ((r_next r <> zero_time /\ r_next r <= now) \/ now < r_this r) ->
  cs_staple (res_cs (staple dis c cs st e now)) = cs_staple cs.
Proof. exact out_of_date_answer_never_stapled. Qed.
Print Assumptions C14_out_of_date_answer_never_stapled.

Theorem C14_out_of_date_persisted_not_reused : forall c now b r,
  stored_parse c b = Some r ->
  ((r_next r <> zero_time /\ r_next r <= now) \/ now < r_this r) ->
  reusable c now (Some b) = false.
Proof. exact out_of_date_persisted_not_reused. Qed.
Print Assumptions C14_out_of_date_persisted_not_reused.

(** F — a responder that answers with nothing usable (empty body behind any HTTP status, white
    space, rubbish): the call comes back ([staple] is a total function: there is no input on which
    it is stuck), the certificate's OCSP state is untouched, at most an error is reported (none
    for short-lived certificates); and the certificate is cached all the same *)
Theorem C14_answer_with_nothing_not_fatal : forall dis c cs st e now b,
  e_ans e = ABytes b -> b_parse b = None -> reusable c now st = false ->
  let res := staple dis c cs st e now in
  res_cs res = cs /\ res_attached res = false /\ (res_err res = true -> c_short c = false).
Proof. exact unusable_body_not_fatal. Qed.
Print Assumptions C14_answer_with_nothing_not_fatal.

Theorem C14_answer_with_nothing_certificate_cached : forall s c m dis e now b,
  e_ans e = ABytes b -> b_parse b = None ->
  has_cert (c_id c) (cache (fst (step s (OCache c m dis e now)))) = true.
Proof. intros s c m dis e now b _ _. apply (cache_always_caches s c m dis e now). Qed.
Print Assumptions C14_answer_with_nothing_certificate_cached.

(** F — over every history, with any number of restarts, in which nobody but certmagic writes
    persisted staples (or writes verified Good ones): every persisted staple parses, verifies
    against the issuer and is Good *)
Theorem C14_persisted_staples_verified_good : forall ops,
  Forall op_clean ops -> store_good (stor (run (Sys [] []) ops)).
Proof. intros ops C. apply run_store_good; [intros id b H; discriminate|exact C]. Qed.
Print Assumptions C14_persisted_staples_verified_good.

(** F — reuse across a restart after ANY history [ops] from ANY state: if what is persisted for
    [c] is reusable at [now], the next process caches [c] without the responder seeing a request
    (whatever it would answer), leaves the persisted staple alone, and staples it if it is Good
    and does not outlive the certificate *)
Theorem C14_reuse_across_restart_after_any_history : forall ops s c m e now,
  let s1 := run s ops in
  reusable c now (sget (c_id c) (stor s1)) = true -> e_load_err e = false ->
  let st2 := step (fst (step s1 ORestart)) (OCache c m false e now) in
  (forall cl, In cl (snd st2) -> cl_seen cl = false) /\
  sget (c_id c) (stor (fst st2)) = sget (c_id c) (stor s1) /\
  (forall b, sget (c_id c) (stor s1) = Some b -> attach_ok c now false b = true ->
     exists en, cache (fst st2) = [en] /\ en_cert en = c /\ en_managed en = m /\
                cs_staple (en_cs en) = Some b).
Proof. exact reuse_across_restart. Qed.
Print Assumptions C14_reuse_across_restart_after_any_history.

(** F — monitor soundness, single calls: the WHOLE check of a call ([check_call]: comparison,
    [spec_call], [returned]) answers "agrees, holds" (0) on what the model does, for all inputs;
    and a panic is always reported as "disagrees, fails" (3) *)
Theorem C14_check_call_sound : forall dis c cs st e now,
  check_call (CallCase dis c cs st e now (staple dis c cs st e now) false) = 0.
Proof. exact check_call_sound. Qed.
Print Assumptions C14_check_call_sound.

Theorem C14_check_call_panic_reported : forall dis c cs st e now obs,
  check_call (CallCase dis c cs st e now obs true) = 3.
Proof. exact check_call_panic_reported. Qed.
Print Assumptions C14_check_call_panic_reported.

(** F — monitor soundness, the clauses added for handshakes and for the handshake's view *)
Theorem C14_ret_ok_sound : forall pre o, ret_ok pre o (hs_expected pre o) = true.
Proof. exact ret_ok_sound. Qed.
Print Assumptions C14_ret_ok_sound.

Theorem C14_served_consistent_sound : forall names s,
  served_consistent s (served_view names (cache s)) = true.
Proof. exact served_consistent_sound. Qed.
Print Assumptions C14_served_consistent_sound.

(** F — monitor soundness, histories: the specification half of the history check ([check_hist]:
    spec_step, served_consistent, own_reuse_step, ret_ok, returned at EVERY step) holds of every
    well-formed history of the model, of any length, with any mix of cache operations, ticks,
    handshakes, manageOne visits, foreign writes and restarts *)
Theorem C14_history_check_sound : forall certs names ops s a,
  NoDup (ids (cache s)) -> run_wf s ops ->
  snd (check_hist certs s (model_hist names s ops) a true) = true.
Proof. intros certs names. exact (check_hist_spec_sound certs names). Qed.
Print Assumptions C14_history_check_sound.

(** non-vacuity of the above *)
Example C14_example_boundaries :
  let at_this := Blob 30 (Some (xr Good 11 1200 2000)) in      (* thisUpdate = now *)
  let at_next := Blob 31 (Some (xr Good 11 900 1200)) in       (* nextUpdate = now *)
  let future := Blob 32 (Some (xr Good 11 1201 2000)) in       (* thisUpdate = now + 1 ns *)
  cs_staple (res_cs (staple false xc1 (CS None None) None (xenv at_this) 1200)) = Some at_this /\
  cs_staple (res_cs (staple false xc1 (CS None None) None (xenv at_next) 1200)) = None /\
  cs_staple (res_cs (staple false xc1 (CS None None) None (xenv future) 1200)) = None /\
  reusable xc1 1200 (Some at_next) = false /\ reusable xc1 1200 (Some future) = false /\
  valid_for xc1 1200 (xr Good 11 1200 2000) = true /\ parse_issuer at_this = Some (xr Good 11 1200 2000).
Proof. vm_compute. repeat split; auto. Qed.

Example C14_example_nothing_and_restart :
  (* an empty body: nothing changes, an error is reported for this 90-day certificate *)
  (let res := staple false xc1 (CS None None) None (xenv (Blob 40 None)) 1200 in
   res_cs res = CS None None /\ res_err res = true /\ c_short xc1 = false) /\
  (* the premises of the restart theorem after a real history, and its hypotheses on the history *)
  reusable xc1 1200 (sget 1 (stor (run (Sys [] []) (firstn 1 xhist)))) = true /\
  attach_ok xc1 1200 false xgood = true /\
  Forall op_clean xhist /\ run_wf (Sys [] []) (xhist ++ [ORestart; OCache xc2 false false (xenv (Blob 40 None)) 1700]) /\
  snd (check_hist [xc1; xc2] (Sys [] []) (model_hist [1] (Sys [] []) xhist) true true) = true.
Proof.
  split; [vm_compute; auto|]. split; [vm_compute; reflexivity|]. split; [vm_compute; reflexivity|].
  split; [repeat constructor|]. split; [|vm_compute; reflexivity].
  destruct C14_example_run_wf as [W _]. cbn [run_wf xhist app] in *.
  destruct W as (W1 & W2 & W3 & (W4a & W4b) & _). repeat split; auto; try exact I.
Qed.
