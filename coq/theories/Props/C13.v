(** C13 — placeholder while the proofs are being written. *)
From CM Require Import SingleFlight.Model.
