(** C13 — Concurrent handshakes share one load/obtain/renew and are never left hanging.
    Only statements, each closed by [exact] / a short proof, with [Print Assumptions] beneath.

    Vocabulary (SingleFlight/Model.v): an LTS whose state holds the two wait maps
    (certLoadWaitChans = [lmap], obtainCertWaitChans = [omap]), the closed flag of every channel,
    cache, storage, a clock, and any number of handshake goroutines ([thr : tid -> option
    thread]; a goroutine has a name, a program counter, the load channel it registered [t_ld]).
    [step] is deterministic given the label (goroutine id + the outcome chosen by the
    environment: policy answer, issuer outcome, wake-up / time-out / cancellation; arrivals of new
    handshakes; clock ticks; storage / cache changes by others).  [reachable] = any finite run from
    an initial state with empty maps.  [owns_o pc] = the obtain-map channel the goroutine is the
    worker for, [waits_on pc] = the channel it waits on. *)
From Coq Require Import List ZArith Bool Lia.
From CM Require Import Gen.Consts SingleFlight.Model SingleFlight.Proofs SingleFlight.Check SingleFlight.Monitor.
Import ListNotations.
Open Scope Z_scope.

(** ** at most one of them performs the work *)
Theorem C13_one_worker_per_name : forall s, reachable s ->
  forall t1 t2 th1 th2, thr s t1 = Some th1 -> thr s t2 = Some th2 -> t_name th1 = t_name th2 ->
  (owns_o (t_pc th1) <> None -> owns_o (t_pc th2) <> None -> t1 = t2) /\
  (t_ld th1 <> None -> t_ld th2 <> None -> t1 = t2).
Proof.
  intros s R t1 t2 th1 th2 H1 H2 E. split.
  - exact (one_obtain_worker_per_name s R t1 t2 th1 th2 H1 H2 E).
  - exact (one_load_worker_per_name s R t1 t2 th1 th2 H1 H2 E).
Qed.
Print Assumptions C13_one_worker_per_name.

(** two goroutines that could both call the issuer for the same name are the same goroutine *)
Theorem C13_one_issuer_call_at_a_time : forall s, reachable s ->
  forall t1 t2 th1 th2 o1 o2 s1 s2, thr s t1 = Some th1 -> thr s t2 = Some th2 ->
  t_name th1 = t_name th2 ->
  thread_step s t1 th1 (AIssue o1) = Some s1 -> thread_step s t2 th2 (AIssue o2) = Some s2 -> t1 = t2.
Proof. exact one_issuer_call_per_name. Qed.
Print Assumptions C13_one_issuer_call_at_a_time.

(** "the others wait for it": a goroutine woken from any of the three waits is in the set [lazy]
    of program counters (it re-entered with loading disabled), that set is closed under its own
    steps, and contains no program counter from which storage is read or the issuer called *)
Theorem C13_waiters_do_not_repeat_the_work :
  (forall s t th s' th', thread_step s t th AWake = Some s' -> thr s' t = Some th' -> lazy (t_pc th') = true) /\
  (forall s t th a s' th', lazy (t_pc th) = true -> thread_step s t th a = Some s' ->
     thr s' t = Some th' -> lazy (t_pc th') = true) /\
  (forall p, lazy p = true ->
     match p with
     | PLoad | PObtain _ _ | PObtLoad _ | PRenLoad _ _ _ _ | PRenIssue _ _ _ _ | PRenReload _ _ _ => False
     | _ => True
     end).
Proof. split; [exact wake_is_lazy|split; [exact lazy_closed|exact lazy_no_work]]. Qed.
Print Assumptions C13_waiters_do_not_repeat_the_work.

(** the monitor's clause "at most one goroutine per name is at the issuer" ([Check.point_ok]) is this
    invariant read through [pos_of] *)
Theorem C13_monitor_issue_clause : forall s, reachable s ->
  forall t1 t2 th1 th2, thr s t1 = Some th1 -> thr s t2 = Some th2 -> t_name th1 = t_name th2 ->
  pos_of s th1 = AtIssue -> pos_of s th2 = AtIssue -> t1 = t2.
Proof.
  intros s R t1 t2 th1 th2 H1 H2 E P1 P2.
  apply (one_obtain_worker_per_name s R t1 t2 th1 th2 H1 H2 E).
  - unfold pos_of in P1. destruct (t_pc th1); try discriminate; try (destruct r; discriminate);
      try (destruct (at_gate _ _); discriminate); cbn; discriminate.
  - unfold pos_of in P2. destruct (t_pc th2); try discriminate; try (destruct r; discriminate);
      try (destruct (at_gate _ _); discriminate); cbn; discriminate.
Qed.
Print Assumptions C13_monitor_issue_clause.

(** ** every waiting handshake is released as soon as the worker finishes *)

(** invariant A.8: the channel a goroutine waits on is closed, or registered for its name with a
    live owner other than itself *)
Theorem C13_waiters_have_a_live_worker : forall s, reachable s ->
  forall t th ch, thr s t = Some th -> waits_on (t_pc th) = Some ch ->
  closed s ch = true \/
  exists w thw, w <> t /\ thr s w = Some thw /\ t_name thw = t_name th /\ finished (t_pc thw) = false /\
    ((lmap s (t_name th) = Some ch /\ t_ld thw = Some ch) \/
     (omap s (t_name th) = Some ch /\ owns_o (t_pc thw) = Some ch)).
Proof. exact chan_inv. Qed.
Print Assumptions C13_waiters_have_a_live_worker.

(** every exit path of a worker region (success, issuer error, policy denial, load error,
    cancellation: all steps of the model) performs close + delete in the step in which the
    goroutine stops being the owner; a waiter's continue step is enabled as soon as its channel is
    closed *)
Theorem C13_waiters_released_with_worker : forall s, reachable s ->
  forall t th a s' ch, thr s t = Some th -> thread_step s t th a = Some s' ->
  forall th', thr s' t = Some th' ->
  ((owns_o (t_pc th) = Some ch /\ owns_o (t_pc th') <> Some ch) \/
   (t_ld th = Some ch /\ t_ld th' <> Some ch)) ->
  closed s' ch = true /\
  forall w thw, thr s' w = Some thw -> waits_on (t_pc thw) = Some ch ->
    thread_step s' w thw AWake <> None.
Proof.
  intros s R t th a s' ch Ht H th' Ht' Own.
  assert (Hld : forall c, t_ld th = Some c -> lmap s (t_name th) = Some c).
  { intros c L. exact (ai_l_reg _ (reachable_inv s R) t (info_of th) c (abs_tb _ _ _ Ht) L). }
  destruct (worker_exit_releases s t th a s' ch Ht Hld H th' Ht') as [A B].
  assert (C : closed s' ch = true).
  { destruct Own as [[O1 O2]|[L1 L2]]; [apply (A O1 O2)|apply (B L1 L2)]. }
  split; [exact C|]. intros w thw Hw W. eapply waiter_enabled_when_closed; eauto.
Qed.
Print Assumptions C13_waiters_released_with_worker.

(** a worker is never itself blocked on a channel and every step it takes strictly shortens
    what is left of its region (at most 5 steps) or releases *)
Theorem C13_worker_always_progresses : forall s t th ch, thr s t = Some th ->
  owns_o (t_pc th) = Some ch ->
  (exists a, a <> ATimeout /\ a <> ACancel /\ thread_step s t th a <> None) /\
  (forall a s', thread_step s t th a = Some s' ->
     exists th', thr s' t = Some th' /\
       ((owns_o (t_pc th') = Some ch /\ (rank (t_pc th') < rank (t_pc th))%nat) \/
        (owns_o (t_pc th') = None /\ closed s' ch = true))).
Proof.
  intros s t th ch Ht O. split.
  - exact (worker_never_blocked s t th ch Ht O).
  - intros a s' H. exact (worker_progress s t th a s' ch Ht O H).
Qed.
Print Assumptions C13_worker_always_progresses.

(** nobody is left hanging: in every reachable state in which some goroutine waits, some goroutine
    has an enabled step that is neither a time-out nor a cancellation (the code as fixed by
    29c65de; before, a load worker could end up waiting on its own channel) *)
Theorem C13_never_left_hanging : forall s, reachable s ->
  forall t th ch, thr s t = Some th -> waits_on (t_pc th) = Some ch ->
  exists t' th' a, thr s t' = Some th' /\ a <> ATimeout /\ a <> ACancel /\
    thread_step s t' th' a <> None.
Proof. exact no_hang. Qed.
Print Assumptions C13_never_left_hanging.

(** ** none blocks beyond the documented time-outs *)
Theorem C13_timeouts_are_the_documented_ones :
  t_load_wait = 120000000000 /\ t_obtain_wait = 120000000000 /\ t_renew_wait = 120000000000 /\
  t_obtain_ctx = 180000000000 /\ t_renew_fg_ctx = 90000000000 /\ t_renew_bg_ctx = 300000000000.
Proof. exact documented_timeouts. Qed.
Print Assumptions C13_timeouts_are_the_documented_ones.

Theorem C13_waiter_bounded : forall s t th ch since,
  (t_pc th = PLoadWait ch since \/ t_pc th = PObtWait ch since \/ t_pc th = PRenWait ch since) ->
  since + 120000000000 <= now s -> thread_step s t th ATimeout <> None.
Proof. exact waiter_bounded. Qed.
Print Assumptions C13_waiter_bounded.

Theorem C13_worker_call_bounded : forall s t th,
  (exists ch st, t_pc th = PObtain ch st) \/
  (exists ch c st, t_pc th = PRenIssue ch c false st) \/
  (exists ch c st, t_pc th = PRenIssue ch c true st /\ st + 300000000000 <= now s) ->
  thread_step s t th ACancel <> None.
Proof. exact worker_cancel_enabled. Qed.
Print Assumptions C13_worker_call_bounded.

(** ** while an unexpired certificate is being renewed, handshakes get the current one, unblocked *)
Theorem C13_serve_current_while_renewing : forall c, serving c ->
  (* 1: maintenance finds the bundle in storage: next is the obtain-map section *)
  (forall s t th b, t_pc th = PMaint c -> store s (t_name th) <> None ->
     thread_step s t th (AStep b) = Some (set_thr s t (set_pc th (PRenReg c)))) /\
  (* 2: whether a renewal is already registered or this goroutine registers one (spawning the
        background worker), it goes on to return c — in any state *)
  (forall s t th b, t_pc th = PRenReg c -> b <> t -> thr s b = None ->
     exists s', thread_step s t th (AStep b) = Some s' /\ thr s' t = Some (set_pc th (PRet (RCert c)))) /\
  (* 3: and returns it *)
  (forall s t th b, t_pc th = PRet (RCert c) -> t_ctx th = CtxHit c ->
     exists s' th', thread_step s t th (AStep b) = Some s' /\ thr s' t = Some th' /\
                    t_pc th' = PDone (RCert c)) /\
  (* whatever other goroutines and the environment do in between leaves it where it is *)
  (forall s l s' t th, step s l = Some s' ->
     match l with LThread t' _ => t' <> t | _ => True end -> thr s t = Some th -> thr s' t = Some th).
Proof.
  intros c S. split; [|split; [|split]].
  - intros s t th b. exact (serve_current_step1 s t th c b S).
  - intros s t th b. exact (serve_current_step2 s t th c b S).
  - intros s t th b. exact (serve_current_step3 s t th c b).
  - intros s l s' t th H Hl. apply (frame s l s' t H). destruct l; auto.
Qed.
Print Assumptions C13_serve_current_while_renewing.

(** ** once the renewal completes, the new certificate is in the cache and the old one is not;
    the cache lookup never prefers an expired certificate to an unexpired one *)
Theorem C13_new_cert_after_renewal :
  (forall s t th ch c bg s0 b, t_pc th = PRenReload ch c bg -> store s (t_name th) = Some s0 ->
     gen s0 <> gen c ->
     exists s', thread_step s t th (AStep b) = Some s' /\
       existsb (cert_eqb (unrevoked s0)) (cache s' (t_name th)) = true /\
       existsb (cert_eqb c) (cache s' (t_name th)) = false) /\
  (forall l, (exists x, In x l /\ expired x = false) ->
     exists y, lookup l = Some y /\ expired y = false).
Proof. split; [exact renewed_cert_is_cached|exact lookup_prefers_unexpired]. Qed.
Print Assumptions C13_new_cert_after_renewal.

(** "... subsequent handshakes receive the new certificate": in the state right after the worker's
    reload step the cache lookup for the name yields a certificate of another generation than the
    old one, and a handshake that starts (or re-enters after its wait) then goes on with exactly
    that certificate *)
Theorem C13_subsequent_handshakes_get_the_new_certificate :
  (forall s t th ch c bg s0 b s', t_pc th = PRenReload ch c bg -> store s (t_name th) = Some s0 ->
     gen s0 <> gen c -> thread_step s t th (AStep b) = Some s' ->
     exists y, lookup (cache s' (t_name th)) = Some y /\ gen y <> gen c) /\
  (forall s t th load b y, t_pc th = PStart load -> lookup (cache s (t_name th)) = Some y ->
     exists s' th', thread_step s t th (AStep b) = Some s' /\ thr s' t = Some th' /\
       (t_pc th' = PMaint y \/ t_pc th' = PRet (RCert y))).
Proof. split; [exact after_renewal_lookup_is_new|exact after_renewal_handshake_gets_new]. Qed.
Print Assumptions C13_subsequent_handshakes_get_the_new_certificate.

(** ** an expired certificate is not served while its renewal can still succeed.
    A goroutine hands back an expired certificate c only
    (a) on re-entry after a wait, and then the channel whose close woke it ([t_waited], a history
        variable of the model) is closed: the attempt it waited for is over, its worker has released
        (had that attempt succeeded, the reload step had put the new certificate into the cache and
        taken the old one out, and the lookup prefers an unexpired certificate:
        [C13_new_cert_after_renewal]); or
    (b) as a worker, as the result of its own read of the bundle in storage (storage itself holds an
        expired certificate: only by interference).
    Never from the cache-hit / maintenance / serve-current paths of a first entry. *)
Theorem C13_expired_served_only_after_the_awaited_attempt_is_over : forall s t th a s' th' c,
  reachable s -> thr s t = Some th -> thread_step s t th a = Some s' -> thr s' t = Some th' ->
  t_pc th' = PRet (RCert c) -> expired c = true -> t_pc th <> PRet (RCert c) ->
  (t_pc th = PStart false /\ exists ch, t_waited th = Some ch /\ closed s ch = true) \/
  (exists ch, t_pc th = PObtUnblock ch (RCert c)) \/
  (exists ch c0 bg, t_pc th = PRenUnblock ch c0 (RCert c) bg).
Proof. intros s t th a s' th' c R. exact (expired_returned_only_after_wait_over s t th a s' th' c R). Qed.
Print Assumptions C13_expired_served_only_after_the_awaited_attempt_is_over.

(** the history variable means what it says: it is only ever set to a closed channel, closed
    channels stay closed, and a goroutine is at the re-entry point only after a wake-up *)
Theorem C13_waited_channel_is_closed : forall s, reachable s ->
  forall t th, thr s t = Some th ->
  (forall ch, t_waited th = Some ch -> closed s ch = true) /\
  (t_pc th = PStart false -> t_waited th <> None).
Proof. exact reachable_winv. Qed.
Print Assumptions C13_waited_channel_is_closed.

(** the strict reading — "never while ANY renewal of the name can still succeed" — is refuted by a
    witness: handshake 1 waits for handshake 0's renewal of the expired certificate, that renewal
    fails, a later handshake 2 starts a new renewal and is at the issuer, handshake 1 re-enters
    and is served the cached expired certificate (nil error) while 2's renewal can still succeed.
    The implementation serves the expired certificate on re-entry after a failed renewal just the
    same (corpus class expired-served-after-failed-renewal of the correspondence check; the
    position of handshake 2 at that moment is finer than the harness's gates); recorded as an
    observation in notes/C13.md, not patched. *)
Theorem C13_expired_never_during_a_renewal_refuted :
  exists s, reachable s /\ exists t1 t2 th1 th2 c ch st,
    thr s t1 = Some th1 /\ t_pc th1 = PDone (RCert c) /\ expired c = true /\
    thr s t2 = Some th2 /\ t_name th2 = t_name th1 /\ t2 <> t1 /\
    t_pc th2 = PRenIssue ch c false st /\ omap s (t_name th1) = Some ch.
Proof. exact expired_served_during_later_renewal. Qed.
Print Assumptions C13_expired_never_during_a_renewal_refuted.

(** ** "the others wait for it" and get what it obtained: a worker's obtain-map channel is closed
    only from its unblock point, which it reaches through the step that puts the certificate it hands
    back into the cache (for the renew worker: [C13_new_cert_after_renewal]); a goroutine that
    re-enters while the cache holds an unexpired certificate is answered with an unexpired one.
    (History form, evaluated on the implementation by [Check.run_ok]: a handshake answered with the
    initially cached expired certificate has waited, and an attempt for the name has failed since it was
    first seen waiting.) *)
(** (The renew worker's counterpart, [C13_new_cert_after_renewal], has no hypothesis on the old
    certificate still being cached: the reload step inserts the new one also when the old one has been
    evicted meanwhile, [LEvict].  History form, second part ([Check.run_ok]): a handshake for the name
    that has been seen waiting ends with an error only if an attempt has failed since it began waiting.) *)
Theorem C13_waiters_of_a_successful_attempt_find_its_result :
  (forall s t th ch c0 b, t_pc th = PObtLoad ch -> store s (t_name th) = Some c0 ->
     exists s', thread_step s t th (AStep b) = Some s' /\
       thr s' t = Some (set_pc th (PObtUnblock ch (RCert (unrevoked c0)))) /\
       existsb (cert_eqb (unrevoked c0)) (cache s' (t_name th)) = true) /\
  (forall s t th a s' th' ch, thread_step s t th a = Some s' -> thr s' t = Some th' ->
     owns_o (t_pc th) = Some ch -> owns_o (t_pc th') <> Some ch ->
     (exists r, t_pc th = PObtUnblock ch r) \/ (exists c r bg, t_pc th = PRenUnblock ch c r bg)) /\
  (forall s t th b, t_pc th = PStart false -> (exists x, In x (cache s (t_name th)) /\ expired x = false) ->
     exists s' y, thread_step s t th (AStep b) = Some s' /\
       thr s' t = Some (set_pc th (PRet (RCert y))) /\ expired y = false).
Proof.
  split; [exact obtain_result_is_cached|split; [exact release_only_from_unblock|exact reentry_gets_unexpired]].
Qed.
Print Assumptions C13_waiters_of_a_successful_attempt_find_its_result.

(** ** the issuer is asked once per renewal: a second worker — a handshake that picked the old
    certificate from the cache while the first renewal was in flight and reaches the obtain-map section
    just after the first worker released — finds the stored bundle no longer due (renewCert re-checks
    under its lock, force = false) and reloads instead of issuing again.  History form in the monitor
    ([Check.run_ok]): once the issuer has delivered for a name, nobody is at the issuer for that name
    again until that certificate is revoked in turn. *)
Theorem C13_renewal_not_repeated : forall s t th ch c bg st s0 b,
  t_pc th = PRenLoad ch c bg st -> store s (t_name th) = Some s0 ->
  needs_renew s0 = false -> revoked c = false ->
  (forall o, thread_step s t th (AIssue o) = None) /\
  thread_step s t th (AStep b) = Some (set_thr s t (set_pc th (PRenReload ch c bg))).
Proof. exact renewal_not_repeated. Qed.
Print Assumptions C13_renewal_not_repeated.

(** ** one shared renewal that completes: the background worker is not tied to the handshake that
    started it — its issuer call has no cancellation alternative before its own 5-minute deadline, its
    other steps none at all (the handshake's return is a step of another goroutine and leaves it
    untouched: [C13_serve_current_while_renewing], frame).  History form in the monitor
    ([Check.delivered_ok]): in the serve-current scenario a complete run without any denial / failure /
    cancellation chosen by the harness contains a successful issuer call. *)
Theorem C13_background_renewal_outlives_its_handshake :
  (forall s t th ch c st, t_pc th = PRenIssue ch c true st -> now s < st + t_renew_bg_ctx ->
     thread_step s t th ACancel = None) /\
  (forall s t th,
     (exists ch c st, t_pc th = PRenGate ch c true st) \/ (exists ch c st, t_pc th = PRenLoad ch c true st) \/
     (exists ch c, t_pc th = PRenReload ch c true) \/ (exists ch c r, t_pc th = PRenUnblock ch c r true) ->
     thread_step s t th ACancel = None).
Proof. split; [exact background_renewal_not_cancellable_early|exact background_worker_other_steps_not_cancellable]. Qed.
Print Assumptions C13_background_renewal_outlives_its_handshake.

(** every handshake ends with an error or a certificate, never with the empty certificate and a nil
    error (C03's clause; clause of [Check.point_ok] on the implementation's positions) *)
Theorem C13_no_handshake_returns_the_empty_certificate : forall s, reachable s ->
  forall t th, thr s t = Some th -> t_pc th <> PDone REmpty.
Proof. exact no_empty_result. Qed.
Print Assumptions C13_no_handshake_returns_the_empty_certificate.

(** ** what the monitor's clauses mean as invariants (SingleFlight/Monitor.v) *)

(** wait-map quiescence (clauses "a registration has a live goroutine behind it" of [point_ok] and
    "both maps empty at the end" of [end_ok]): in every reachable state a name registered in either
    map has an unfinished goroutine of that name that holds / owns exactly that channel; hence when
    every goroutine has finished both maps are empty *)
Theorem C13_registration_has_a_live_goroutine : forall s, reachable s ->
  forall n ch, lmap s n = Some ch \/ omap s n = Some ch ->
  exists t th, thr s t = Some th /\ t_name th = n /\ finished (t_pc th) = false /\
    (t_ld th = Some ch \/ owns_o (t_pc th) = Some ch).
Proof. exact registration_has_live_goroutine. Qed.
Print Assumptions C13_registration_has_a_live_goroutine.

Theorem C13_maps_empty_when_everybody_has_finished : forall s, reachable s ->
  (forall t th, thr s t = Some th -> is_done (pos_of s th) = true) ->
  forall n, lmap s n = None /\ omap s n = None.
Proof.
  intros s R F. apply (maps_empty_when_all_finished s R).
  intros t th Ht. apply (finished_is_done s th). exact (F t th Ht).
Qed.
Print Assumptions C13_maps_empty_when_everybody_has_finished.

(** clause "no handshake has returned the empty certificate" of [point_ok] *)
Theorem C13_monitor_no_done_empty : forall s, reachable s ->
  forall t th, thr s t = Some th -> pos_of s th <> DoneEmpty.
Proof. exact no_done_empty_position. Qed.
Print Assumptions C13_monitor_no_done_empty.

(** clause "once the issuer has delivered for a name, nobody is at the issuer for that name again
    until that certificate is revoked" of [run_ok], as an invariant of all runs in which nobody else
    writes the bundle (any number of goroutines, any interleaving, any outcomes, evictions and
    revocations included): a goroutine is at the issuer for a renewal with an unrevoked certificate in
    hand only while the stored bundle is due; so once the bundle is not due — and it stays so —
    whoever the harness sees at the issuer for that name holds a revoked certificate *)
Theorem C13_issuer_asked_only_while_the_bundle_is_due : forall s, creachable s ->
  (forall t th ch c bg st, thr s t = Some th -> t_pc th = PRenIssue ch c bg st -> revoked c = false ->
     exists s0, store s (t_name th) = Some s0 /\ needs_renew s0 = true) /\
  (forall t th s0, thr s t = Some th -> store s (t_name th) = Some s0 -> needs_renew s0 = false ->
     pos_of s th = AtIssue -> exists ch c bg st, t_pc th = PRenIssue ch c bg st /\ revoked c = true).
Proof. intros s R. split; [exact (issuer_asked_only_while_due s R)|exact (at_issuer_only_while_due s R)]. Qed.
Print Assumptions C13_issuer_asked_only_while_the_bundle_is_due.

Theorem C13_renewed_bundle_stays_renewed : forall s l s' n, store_calm l -> step s l = Some s' ->
  (exists s0, store s n = Some s0 /\ needs_renew s0 = false) ->
  exists s0, store s' n = Some s0 /\ needs_renew s0 = false.
Proof. exact calm_store_stays_fresh. Qed.
Print Assumptions C13_renewed_bundle_stays_renewed.

(** the statement shapes of handshake.go that the LTS takes as atomic steps / literals are the
    ones in the source today (read by the translator on every run; a change breaks this proof) *)
Theorem C13_source_shape_is_the_modelled_one :
  hs_reentry_load_args = [[false]; [false]; [false]] /\
  hs_release_shapes = [[1; 2; 3; 4]; [1; 2; 3; 4]; [1; 2; 3; 4]]%nat /\
  hs_unblock_call_counts = [1; 2]%nat /\
  hs_obtain_unblock_then_return = true /\
  hs_serve_current_iff_unexpired_unrevoked = true /\
  hs_background_iff_unexpired = true /\
  hs_background_ctx_is_background = true.
Proof. exact source_shape. Qed.
Print Assumptions C13_source_shape_is_the_modelled_one.

(** non-vacuity: a reachable state with a worker at its policy gate and a second handshake
    waiting on the worker's load channel *)
Definition ex_run : list label :=
  [LArrive 0 0; LThread 0 (AStep 9); LThread 0 (AStep 9);
   LArrive 1 0; LThread 1 (AStep 9); LThread 1 (AStep 9)]%nat.
Example C13_ex_waiter_and_worker :
  match run (init (fun _ => []) (fun _ => None) 1%nat) ex_run with
  | Some s => (option_map t_pc (thr s 0%nat), option_map t_pc (thr s 1%nat), lmap s 0%nat)
  | None => (None, None, None)
  end = (Some (PGate1 true), Some (PLoadWait 0%nat 0), Some 0%nat).
Proof. vm_compute. reflexivity. Qed.
Example C13_ex_reachable : exists s, reachable s /\ exists t th ch, thr s t = Some th /\ waits_on (t_pc th) = Some ch.
Proof.
  destruct (run (init (fun _ => []) (fun _ => None) 1%nat) ex_run) as [s|] eqn:E; [|vm_compute in E; discriminate].
  exists s. split; [exists (fun _ => []), (fun _ => None), 1%nat, ex_run; exact E|].
  vm_compute in E. inversion E. exists 1%nat. eexists. exists 0%nat. cbn. split; reflexivity.
Qed.
(** the serving hypothesis is satisfiable *)
Example C13_ex_serving : serving (Cert 1 Due false).
Proof. split; reflexivity. Qed.

(** the hypotheses are satisfiable: the run of [C13_ex_reachable] touches nobody's bundle *)
Example C13_ex_creachable : exists s, creachable s /\ exists t th ch, thr s t = Some th /\ waits_on (t_pc th) = Some ch.
Proof.
  destruct (run (init (fun _ => []) (fun _ => None) 1%nat) ex_run) as [s|] eqn:E; [|vm_compute in E; discriminate].
  exists s. split.
  - exists (fun _ => []), (fun _ => None), 1%nat, ex_run. split; [|exact E].
    unfold ex_run. repeat constructor.
  - vm_compute in E. inversion E. exists 1%nat. eexists. exists 0%nat. cbn. split; reflexivity.
Qed.

