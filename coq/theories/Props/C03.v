(** C03 — A handshake gets a complete certificate covering the requested name, or an error.
    Only statements, each closed by [exact] (or a few lines), with [Print Assumptions] beneath.

    Setting.  [lookup] (Lookup.Model) is Config.GetCertificate -> getCertDuringHandshake with the
    default selection policy and on-demand TLS off, as a function of: the cache ([Cache.Model.state]),
    its capacity, DefaultServerName / FallbackServerName, the ClientHello's server name, the
    connection's local IP, and [env] = what the non-cache code contributed (IDNA conversion failed;
    SubjectQualifiesForCert; the certificate loadCertFromStorage yields when the cache is almost
    full).  [sup h] / [valid h] are the per-(ClientHello, certificate) oracle
    hello.SupportsCertificate and "now within the leaf's validity".  [lower] / [is_space] are
    unicode.ToLower / unicode.IsSpace; nothing is assumed of any of these oracles.
    "Every cache content" = every state satisfying the C12 invariant [Inv], i.e. (C12) every state
    the cache operations can reach; the theorems are stated for [Inv] and for histories. *)
From CM Require Import Lib.Str Gen.Consts Cache.Model Cache.AMapFacts Cache.Proofs
  Lookup.Model Lookup.Proofs Lookup.Check Lookup.SpecProofs.
From Coq Require Import Arith.
Open Scope nat_scope.

(** F lookup_sound.  The answer is an error, or a certificate that is really in the cache (never
    Go's zero value) and (a) lists a name covering the server name -- the name itself or the name
    with its k >= 1 leftmost labels replaced by "*" --, or (d) there is no SNI and it lists the
    local IP, or (b) there is no SNI and it lists the configured default name, or (c) it lists the
    configured fallback name; or else it is the certificate just loaded from storage in the
    almost-full branch. *)
Theorem C03_lookup_sound : forall lower is_space sup valid names_of cap s cfg sni ip e c,
  Inv names_of cap s ->
  lookup lower is_space sup valid s cap cfg sni ip e = ROk c ->
  let n := normalize lower is_space sni in
  (alookup (c_hash c) (cache s) = Some c /\
   ((n <> [] /\ exists san, In san (c_names c) /\ covers san n) \/
    (n = [] /\ In ip (c_names c)) \/
    (n = [] /\ default_name cfg <> [] /\ In (normalize lower is_space (default_name cfg)) (c_names c)) \/
    (fallback_name cfg <> [] /\ In (normalize lower is_space (fallback_name cfg)) (c_names c)))) \/
  (almost_full cap (length (cache s)) = true /\ loaded e = Some c /\
   name_err e = false /\ qualifies e = true).
Proof. intros. eapply lookup_sound; eauto. Qed.
Print Assumptions C03_lookup_sound.

(** the same for every cache content the operations of C12 can produce *)
Theorem C03_lookup_sound_reachable : forall lower is_space sup valid names_of cap ops cfg sni ip e c,
  Forall (wf_op names_of) ops ->
  let s := run cap init ops in
  lookup lower is_space sup valid s cap cfg sni ip e = ROk c ->
  let n := normalize lower is_space sni in
  (alookup (c_hash c) (cache s) = Some c /\
   ((n <> [] /\ exists san, In san (c_names c) /\ covers san n) \/
    (n = [] /\ In ip (c_names c)) \/
    (n = [] /\ default_name cfg <> [] /\ In (normalize lower is_space (default_name cfg)) (c_names c)) \/
    (fallback_name cfg <> [] /\ In (normalize lower is_space (fallback_name cfg)) (c_names c)))) \/
  (almost_full cap (length (cache s)) = true /\ loaded e = Some c /\
   name_err e = false /\ qualifies e = true).
Proof.
  intros lower is_space sup valid names_of cap ops cfg sni ip e c Hwf s H.
  eapply lookup_sound; [|exact H]. apply run_inv; [apply inv_init | exact Hwf].
Qed.
Print Assumptions C03_lookup_sound_reachable.

(** complete certificate: whatever "complete" (non-empty chain with its key) is, if every cached
    certificate and every loadable one is complete then so is every answer *)
Theorem C03_answer_complete : forall (complete : cert -> Prop) lower is_space sup valid names_of cap s cfg sni ip e c,
  Inv names_of cap s ->
  (forall h x, alookup h (cache s) = Some x -> complete x) ->
  (forall x, loaded e = Some x -> complete x) ->
  lookup lower is_space sup valid s cap cfg sni ip e = ROk c -> complete c.
Proof.
  intros complete lower is_space sup valid names_of cap s cfg sni ip e c HI Hc Hl H.
  destruct (lookup_sound lower is_space sup valid names_of cap s cfg sni ip e c HI H) as [[Hx _]|(_ & Hx & _)]; eauto.
Qed.
Print Assumptions C03_answer_complete.

(** exact_preferred: a listed exact name wins over every wildcard ... *)
Theorem C03_exact_preferred : forall lower is_space sup valid names_of cap s cfg sni ip e,
  Inv names_of cap s ->
  let n := normalize lower is_space sni in
  n <> [] -> idx s n <> [] ->
  exists c, lookup lower is_space sup valid s cap cfg sni ip e = ROk c /\ In n (c_names c) /\
            In c (get_all_matching_certs s n).
Proof. intros. eapply exact_preferred; eauto. Qed.
Print Assumptions C03_exact_preferred.

(** ... and in general the first listed name in the order "exact, *.b.c, *.*.c, ..." decides:
    the answer is one of the certificates listed under it, a supported unexpired one if any *)
Theorem C03_first_listed_wins : forall lower is_space sup valid names_of cap s cfg sni ip e
    (pre : list name) (m : name) (post : list name),
  Inv names_of cap s ->
  let n := normalize lower is_space sni in
  n <> [] -> n :: wildcard_candidates n = pre ++ m :: post ->
  Forall (fun m' => idx s m' = []) pre -> idx s m <> [] ->
  exists c, lookup lower is_space sup valid s cap cfg sni ip e = ROk c /\
            In c (get_all_matching_certs s m) /\ In m (c_names c) /\
            ((exists c', In c' (get_all_matching_certs s m) /\ good sup valid c') -> good sup valid c).
Proof. intros. eapply first_listed_wins; eauto. Qed.
Print Assumptions C03_first_listed_wins.

(** ip_preferred_without_sni: without SNI a certificate for the local IP wins over the default
    and fallback names *)
Theorem C03_ip_preferred_without_sni : forall lower is_space sup valid names_of cap s cfg sni ip e,
  Inv names_of cap s ->
  normalize lower is_space sni = [] -> idx s ip <> [] ->
  exists c, lookup lower is_space sup valid s cap cfg sni ip e = ROk c /\ In ip (c_names c) /\
            In c (get_all_matching_certs s ip) /\
            ((exists c', In c' (get_all_matching_certs s ip) /\ good sup valid c') -> good sup valid c).
Proof. intros. eapply ip_preferred_without_sni; eauto. Qed.
Print Assumptions C03_ip_preferred_without_sni.

(** unexpired_supported_preferred: under whatever name [v] the cache answer was found (matched,
    default or fallback), it is one of the certificates listed under [v], and it is supported and
    unexpired whenever one of them is *)
Theorem C03_unexpired_supported_preferred : forall lower is_space sup valid names_of cap s cfg sni ip c b v,
  Inv names_of cap s ->
  from_cache lower is_space sup valid s cfg sni ip = Some (c, b, v) ->
  In c (get_all_matching_certs s v) /\
  ((exists c', In c' (get_all_matching_certs s v) /\ good sup valid c') -> good sup valid c).
Proof. intros. eapply unexpired_supported_preferred; eauto. Qed.
Print Assumptions C03_unexpired_supported_preferred.

(** DefaultCertificateSelector itself: the choice is one of the choices; supported and unexpired
    if possible, else supported if possible *)
Theorem C03_default_selector : forall sup valid choices c,
  default_select sup valid choices = Some c ->
  In c choices /\
  ((exists c', In c' choices /\ good sup valid c') -> good sup valid c).
Proof.
  intros sup valid choices c H. split; [eapply default_select_In; eauto | eapply default_select_good; eauto].
Qed.
Print Assumptions C03_default_selector.

(** an error is returned only when no preferred name is listed in the index *)
Theorem C03_error_only_if_unlisted : forall lower is_space sup valid names_of cap s cfg sni ip e,
  Inv names_of cap s ->
  lookup lower is_space sup valid s cap cfg sni ip e = RErr ->
  let n := normalize lower is_space sni in
  if is_nil n then idx s ip = []
  else Forall (fun m' => idx s m' = []) (n :: wildcard_candidates n).
Proof. intros. eapply error_only_if_unlisted; eauto. Qed.
Print Assumptions C03_error_only_if_unlisted.

(** the names tried are exactly the names covering the server name *)
Theorem C03_candidates_are_the_covering_names : forall n m,
  In m (n :: wildcard_candidates n) <-> covers m n.
Proof. exact candidates_cover. Qed.
Print Assumptions C03_candidates_are_the_covering_names.

(** covers <-> MatchWildcard (for subjects without an empty label; with one, MatchWildcard skips
    but keeps the empty label, e.g. "a..b" matches "*..*" -- compared, not claimed) *)
Theorem C03_covers_iff_match_wildcard : forall lower subject wildcard,
  existsb is_nil (labels (map lower subject)) = false ->
  (match_wildcard lower subject wildcard = true <-> covers (map lower wildcard) (map lower subject)).
Proof. exact match_wildcard_covers. Qed.
Print Assumptions C03_covers_iff_match_wildcard.

(** the run-time monitor is the boolean form of the statements above: it holds of what the model
    answers on every cache satisfying the invariant *)
Theorem C03_spec_ok_of_model : forall lower is_space names_of c,
  Inv names_of (l_cap c) (l_state c) ->
  (forall h x, alookup h (cache (l_state c)) = Some x -> at_complete (attr_get (l_attrs c) h) = true) ->
  (forall lc, loaded (l_env c) = Some lc -> l_loaded_complete c = true) ->
  spec_lookup lower is_space (with_obs c (obs_of c (run_lookup lower is_space c))) = true.
Proof. exact spec_lookup_of_model. Qed.
Print Assumptions C03_spec_ok_of_model.

(** ---- non-vacuity: a reachable cache, and lookups exercising each clause ---- *)
Definition s_ (l : list N) : str := l.
Definition n_ax : name := [97; 46; 120]%N.           (* a.x *)
Definition n_wx : name := [42; 46; 120]%N.           (* *.x *)
Definition n_ip : name := [49; 46; 50]%N.            (* "1.2" stands for an IP literal *)
Definition n_fb : name := [102; 46; 121]%N.          (* f.y *)
Definition ex_e1 := Cert [101; 49]%N [n_ax] false [] [] 0%Z [].          (* e1: a.x, expired *)
Definition ex_e2 := Cert [101; 50]%N [n_ax] false [] [] 0%Z [].          (* e2: a.x *)
Definition ex_w := Cert [119]%N [n_wx; n_ip] false [] [] 0%Z [].         (* w: *.x and the IP *)
Definition ex_f := Cert [102]%N [n_fb] false [] [] 0%Z [].               (* f: f.y *)
Definition ex_names_of (h : hash) : list name :=
  if str_eqb h [101; 49]%N then [n_ax] else if str_eqb h [101; 50]%N then [n_ax]
  else if str_eqb h [119]%N then [n_wx; n_ip] else if str_eqb h [102]%N then [n_fb] else [].
Definition ex_ops := [OAdd ex_e1 None; OAdd ex_e2 None; OAdd ex_w None; OAdd ex_f None].
Definition ex_state := run 0 init ex_ops.
Definition ex_valid (h : hash) : bool := negb (str_eqb h [101; 49]%N).
Definition ex_lookup cfg sni :=
  lookup ascii_lower ascii_space (fun _ => true) ex_valid ex_state 0 cfg sni n_ip (Env false true None).

Example C03_hypotheses_satisfiable :
  Forall (wf_op ex_names_of) ex_ops /\
  (* " A.x " : exact match, the unexpired e2 although the expired e1 was cached first *)
  ex_lookup (Config [] []) [32; 65; 46; 120; 32]%N = ROk ex_e2 /\
  (* "q.x" : wildcard *)
  ex_lookup (Config [] []) [113; 46; 120]%N = ROk ex_w /\
  (* no SNI: the local IP's certificate, not the fallback *)
  ex_lookup (Config [] n_fb) [] = ROk ex_w /\
  (* "q.y": nothing covers it: fallback if configured, else an error *)
  ex_lookup (Config [] n_fb) [113; 46; 121]%N = ROk ex_f /\
  ex_lookup (Config [] []) [113; 46; 121]%N = RErr.
Proof.
  split; [|vm_compute; repeat split].
  repeat constructor; cbn; try discriminate; reflexivity.
Qed.
