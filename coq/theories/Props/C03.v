(* placeholder *)
From CM Require Import Lookup.Model.
