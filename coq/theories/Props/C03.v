(** C03 — A handshake gets a complete certificate covering the requested name, or an error.
    Only statements, each closed by [exact] (or a few lines), with [Print Assumptions] beneath.

    Setting.  [lookup] (Lookup.Model) is Config.GetCertificate -> getCertDuringHandshake with the
    default selection policy and on-demand TLS off, as a function of: the cache ([Cache.Model.state]),
    its capacity, DefaultServerName / FallbackServerName, the ClientHello's server name, the
    connection's local IP, and [env] = what the non-cache code contributed (IDNA conversion failed;
    SubjectQualifiesForCert; the certificate loadCertFromStorage yields when the cache is almost
    full).  [sup h] / [valid h] are the per-(ClientHello, certificate) oracle
    hello.SupportsCertificate and "now within the leaf's validity".  [lower] / [is_space] are
    unicode.ToLower / unicode.IsSpace; nothing is assumed of any of these oracles.
    "Every cache content" = every state satisfying the C12 invariant [Inv], i.e. (C12) every state
    the cache operations can reach; the theorems are stated for [Inv] and for histories. *)
From CM Require Import Lib.Str Lib.QualSteps Gen.Consts Cache.Model Cache.AMapFacts Cache.Proofs Cache.Check
  Lookup.Model Lookup.Proofs Lookup.ProofsX Lookup.Check Lookup.SpecProofs Lookup.Final.
From Coq Require Import Arith.
Open Scope nat_scope.

(** F lookup_sound.  The answer is an error, or a certificate that is really in the cache (never
    Go's zero value) and (a) lists a name covering the server name -- the name itself or the name
    with its k >= 1 leftmost labels replaced by "*" --, or (d) there is no SNI and it lists the
    local IP, or (b) there is no SNI and it lists the configured default name, or (c) it lists the
    configured fallback name; or else it is the certificate just loaded from storage in the
    almost-full branch. *)
Theorem C03_lookup_sound : forall lower is_space sup valid names_of cap s cfg sni ip e c,
  Inv names_of cap s ->
  lookup lower is_space sup valid s cap cfg sni ip e = ROk c ->
  let n := normalize lower is_space sni in
  (alookup (c_hash c) (cache s) = Some c /\
   ((n <> [] /\ exists san, In san (c_names c) /\ covers san n) \/
    (n = [] /\ In ip (c_names c)) \/
    (n = [] /\ default_name cfg <> [] /\ In (normalize lower is_space (default_name cfg)) (c_names c)) \/
    (fallback_name cfg <> [] /\ In (normalize lower is_space (fallback_name cfg)) (c_names c)))) \/
  (almost_full cap (length (cache s)) = true /\ loaded e = Some c /\
   name_err e = false /\ qualifies e = true).
Proof. intros. eapply lookup_sound; eauto. Qed.
Print Assumptions C03_lookup_sound.

(** the same for every cache content the operations of C12 can produce *)
Theorem C03_lookup_sound_reachable : forall lower is_space sup valid names_of cap ops cfg sni ip e c,
  Forall (wf_op names_of) ops ->
  let s := run cap init ops in
  lookup lower is_space sup valid s cap cfg sni ip e = ROk c ->
  let n := normalize lower is_space sni in
  (alookup (c_hash c) (cache s) = Some c /\
   ((n <> [] /\ exists san, In san (c_names c) /\ covers san n) \/
    (n = [] /\ In ip (c_names c)) \/
    (n = [] /\ default_name cfg <> [] /\ In (normalize lower is_space (default_name cfg)) (c_names c)) \/
    (fallback_name cfg <> [] /\ In (normalize lower is_space (fallback_name cfg)) (c_names c)))) \/
  (almost_full cap (length (cache s)) = true /\ loaded e = Some c /\
   name_err e = false /\ qualifies e = true).
Proof.
  intros lower is_space sup valid names_of cap ops cfg sni ip e c Hwf s H.
  eapply lookup_sound; [|exact H]. apply run_inv; [apply inv_init | exact Hwf].
Qed.
Print Assumptions C03_lookup_sound_reachable.

(** complete certificate: whatever "complete" (non-empty chain with its key) is, if every cached
    certificate and every loadable one is complete then so is every answer *)
Theorem C03_answer_complete : forall (complete : cert -> Prop) lower is_space sup valid names_of cap s cfg sni ip e c,
  Inv names_of cap s ->
  (forall h x, alookup h (cache s) = Some x -> complete x) ->
  (forall x, loaded e = Some x -> complete x) ->
  lookup lower is_space sup valid s cap cfg sni ip e = ROk c -> complete c.
Proof.
  intros complete lower is_space sup valid names_of cap s cfg sni ip e c HI Hc Hl H.
  destruct (lookup_sound lower is_space sup valid names_of cap s cfg sni ip e c HI H) as [[Hx _]|(_ & Hx & _)]; eauto.
Qed.
Print Assumptions C03_answer_complete.

(** exact_preferred: a listed exact name wins over every wildcard ... *)
Theorem C03_exact_preferred : forall lower is_space sup valid names_of cap s cfg sni ip e,
  Inv names_of cap s ->
  let n := normalize lower is_space sni in
  n <> [] -> idx s n <> [] ->
  exists c, lookup lower is_space sup valid s cap cfg sni ip e = ROk c /\ In n (c_names c) /\
            In c (get_all_matching_certs s n).
Proof. intros. eapply exact_preferred; eauto. Qed.
Print Assumptions C03_exact_preferred.

(** ... and in general the first listed name in the order "exact, *.b.c, *.*.c, ..." decides:
    the answer is one of the certificates listed under it, a supported unexpired one if any *)
Theorem C03_first_listed_wins : forall lower is_space sup valid names_of cap s cfg sni ip e
    (pre : list name) (m : name) (post : list name),
  Inv names_of cap s ->
  let n := normalize lower is_space sni in
  n <> [] -> n :: wildcard_candidates n = pre ++ m :: post ->
  Forall (fun m' => idx s m' = []) pre -> idx s m <> [] ->
  exists c, lookup lower is_space sup valid s cap cfg sni ip e = ROk c /\
            In c (get_all_matching_certs s m) /\ In m (c_names c) /\
            ((exists c', In c' (get_all_matching_certs s m) /\ good sup valid c') -> good sup valid c).
Proof. intros. eapply first_listed_wins; eauto. Qed.
Print Assumptions C03_first_listed_wins.

(** ip_preferred_without_sni: without SNI a certificate for the local IP wins over the default
    and fallback names *)
Theorem C03_ip_preferred_without_sni : forall lower is_space sup valid names_of cap s cfg sni ip e,
  Inv names_of cap s ->
  normalize lower is_space sni = [] -> idx s ip <> [] ->
  exists c, lookup lower is_space sup valid s cap cfg sni ip e = ROk c /\ In ip (c_names c) /\
            In c (get_all_matching_certs s ip) /\
            ((exists c', In c' (get_all_matching_certs s ip) /\ good sup valid c') -> good sup valid c).
Proof. intros. eapply ip_preferred_without_sni; eauto. Qed.
Print Assumptions C03_ip_preferred_without_sni.

(** unexpired_supported_preferred: under whatever name [v] the cache answer was found (matched,
    default or fallback), it is one of the certificates listed under [v], and it is supported and
    unexpired whenever one of them is *)
Theorem C03_unexpired_supported_preferred : forall lower is_space sup valid names_of cap s cfg sni ip c b v,
  Inv names_of cap s ->
  from_cache lower is_space sup valid s cfg sni ip = Some (c, b, v) ->
  In c (get_all_matching_certs s v) /\
  ((exists c', In c' (get_all_matching_certs s v) /\ good sup valid c') -> good sup valid c).
Proof. intros. eapply unexpired_supported_preferred; eauto. Qed.
Print Assumptions C03_unexpired_supported_preferred.

(** DefaultCertificateSelector itself: the choice is one of the choices; supported and unexpired
    if possible, else supported if possible *)
Theorem C03_default_selector : forall sup valid choices c,
  default_select sup valid choices = Some c ->
  In c choices /\
  ((exists c', In c' choices /\ good sup valid c') -> good sup valid c) /\
  ((exists c', In c' choices /\ sup (c_hash c') = true) -> sup (c_hash c) = true).
Proof.
  intros sup valid choices c H. split; [eapply default_select_In; eauto|].
  split; [eapply default_select_good; eauto | eapply default_select_sup; eauto].
Qed.
Print Assumptions C03_default_selector.

(** an error is returned only when no preferred name is listed in the index *)
Theorem C03_error_only_if_unlisted : forall lower is_space sup valid names_of cap s cfg sni ip e,
  Inv names_of cap s ->
  lookup lower is_space sup valid s cap cfg sni ip e = RErr ->
  let n := normalize lower is_space sni in
  if is_nil n then idx s ip = []
  else Forall (fun m' => idx s m' = []) (n :: wildcard_candidates n).
Proof. intros. eapply error_only_if_unlisted; eauto. Qed.
Print Assumptions C03_error_only_if_unlisted.

(** the names tried are exactly the names covering the server name *)
Theorem C03_candidates_are_the_covering_names : forall n m,
  In m (n :: wildcard_candidates n) <-> covers m n.
Proof. exact candidates_cover. Qed.
Print Assumptions C03_candidates_are_the_covering_names.

(** covers <-> MatchWildcard (for subjects without an empty label; with one, MatchWildcard skips
    but keeps the empty label, e.g. "a..b" matches "*..*" -- compared, not claimed) *)
Theorem C03_covers_iff_match_wildcard : forall lower subject wildcard,
  existsb is_nil (labels (map lower subject)) = false ->
  (match_wildcard lower subject wildcard = true <-> covers (map lower wildcard) (map lower subject)).
Proof. exact match_wildcard_covers. Qed.
Print Assumptions C03_covers_iff_match_wildcard.

(** ================= the extended model [lookup_x] =================
    [lookup_x] adds to [lookup]: any selection policy [sel] (selectCert with or without a
    Config.CertSelection), getNameFromClientHello's choice of the name from the IDNA form of the
    server name (computed by the harness with x/net/idna, not by the code under test),
    SubjectQualifiesForCert (conjuncts read from the source), loadCertFromStorage over the storage
    content, and the cache after the call. *)

(** with the default policy its answer is [lookup]'s: everything above holds of it *)
Theorem C03_lookup_x_is_lookup : forall lower is_space sup valid s cap cfg sni ip e,
  fst (lookup_x lower is_space (select_cert sup valid) true s cap cfg sni ip e) =
  lookup lower is_space sup valid s cap cfg sni ip (env_of lower is_space cfg ip e).
Proof. exact lookup_x_default. Qed.
Print Assumptions C03_lookup_x_is_lookup.

(** F lookup_sound, complete form (default policy): an error, or a certificate really in the cache
    covering the server name / listing the local IP (no SNI) / the default name (no SNI) / the
    fallback name -- or, only when the cache is almost full, a certificate loaded from storage that
    lists a name covering the requested name (its IDNA form; the default name or local IP without
    SNI) exactly or with its first label replaced by "*".  So with the default policy a certificate
    that covers neither is only ever the default name's (no SNI) or the fallback name's. *)
Theorem C03_lookup_sound_x : forall lower is_space sup valid names_of cap conn s cfg sni ip e c s',
  Inv names_of cap s -> storage_wf (x_storage e) ->
  lookup_x lower is_space (select_cert sup valid) conn s cap cfg sni ip e = (ROk c, s') ->
  let n := normalize lower is_space sni in
  (alookup (c_hash c) (cache s) = Some c /\
   ((n <> [] /\ exists san, In san (c_names c) /\ covers san n) \/
    (n = [] /\ conn = true /\ In ip (c_names c)) \/
    (n = [] /\ default_name cfg <> [] /\ In (normalize lower is_space (default_name cfg)) (c_names c)) \/
    (fallback_name cfg <> [] /\ In (normalize lower is_space (fallback_name cfg)) (c_names c)))) \/
  (almost_full cap (length (cache s)) = true /\
   exists nm x, hello_name lower is_space cfg ip (x_idna e) = Some nm /\
                subject_qualifies is_space nm = true /\
                load_from_storage (x_storage e) (x_broken e) nm = Some x /\ sd_servable x = true /\ c = sd_cert x /\
                exists san, In san (c_names c) /\ covers san nm).
Proof. intros. eapply lookup_x_sound; eauto. Qed.
Print Assumptions C03_lookup_sound_x.

(** the order in which names are offered to selectCert -- local IP, default name (no SNI) or
    exact name, "*.b.c", "*.*.c", ... -- then the fallback name: the first accepted one decides,
    whatever the selection policy *)
Theorem C03_names_tried_in_order : forall lower is_space sel conn s cfg sni ip,
  from_cache_x lower is_space sel conn s cfg sni ip =
  first_tried sel s (tried lower is_space conn cfg sni ip).
Proof. exact from_cache_x_first_tried. Qed.
Print Assumptions C03_names_tried_in_order.

(** F custom_selector_scope: with a Config.CertSelection (any of the policies) the answer is an
    error, or a certificate of the cache that the selector chose for the first tried name for which
    it accepted a choice -- offered the certificates listed under that name, all cached ones only if
    none is listed --, or the certificate loaded from storage.  A custom selector may thus answer
    with a certificate that does not cover the name: that is its documented purpose. *)
Theorem C03_custom_selector_scope : forall lower is_space sup valid names_of cap p conn s cfg sni ip e c s',
  Inv names_of cap s ->
  lookup_x lower is_space (sel_policy sup valid p) conn s cap cfg sni ip e = (ROk c, s') ->
  (alookup (c_hash c) (cache s) = Some c /\
   exists pre v b post, tried lower is_space conn cfg sni ip = pre ++ (v, b) :: post /\
     Forall (fun q => sel_policy sup valid p s (fst q) = None) pre /\
     sel_policy sup valid p s v = Some c /\
     (p <> PDefault -> In c (choices_for s v))) \/
  (exists x, load_ok lower is_space cap s cfg ip e x /\ sd_servable x = true /\ c = sd_cert x).
Proof. intros. eapply custom_selector_scope; eauto. Qed.
Print Assumptions C03_custom_selector_scope.

(** a custom selector is offered exactly the certificates listed under the name when there are any *)
Theorem C03_custom_choices_when_listed : forall s n,
  idx s n <> [] -> choices_for s n = get_all_matching_certs s n.
Proof. exact choices_for_listed. Qed.
Print Assumptions C03_custom_choices_when_listed.

(** complete answer, any policy: if every cached and every stored certificate is complete *)
Theorem C03_answer_complete_x : forall (complete : cert -> Prop) lower is_space sup valid names_of cap p conn s cfg sni ip e c s',
  Inv names_of cap s ->
  (forall h x, alookup h (cache s) = Some x -> complete x) ->
  (forall k x, alookup k (x_storage e) = Some x -> complete (sd_cert x)) ->
  lookup_x lower is_space (sel_policy sup valid p) conn s cap cfg sni ip e = (ROk c, s') -> complete c.
Proof.
  intros complete lower is_space sup valid names_of cap p conn s cfg sni ip e c s' HI Hc Hs H.
  destruct (custom_selector_scope sup valid names_of cap lower is_space p conn s cfg sni ip e c s' HI H)
    as [[Hx _]|(x & (nm & _ & _ & _ & Hl) & _ & ->)]; [eauto|].
  apply load_from_storage_key in Hl. destruct Hl as [k Hk]. eauto.
Qed.
Print Assumptions C03_answer_complete_x.

(** what is loaded from storage covers the name it was loaded for *)
Theorem C03_loaded_covers_name : forall st br nm x,
  storage_wf st -> load_from_storage st br nm = Some x ->
  exists san, In san (c_names (sd_cert x)) /\ covers san nm.
Proof. exact loaded_covers. Qed.
Print Assumptions C03_loaded_covers_name.

(** the cache and a lookup: the C12 invariant (index and cache agree, within capacity) survives
    every lookup, whatever the policy; and only the almost-full branch touches the cache *)
Theorem C03_lookup_preserves_cache_invariant : forall lower is_space sel names_of conn s cap cfg sni ip e,
  Inv names_of cap s ->
  (forall k x, alookup k (x_storage e) = Some x -> wf_cert names_of (sd_cert x)) ->
  Inv names_of cap (snd (lookup_x lower is_space sel conn s cap cfg sni ip e)).
Proof. intros. eapply lookup_x_inv; eauto. Qed.
Print Assumptions C03_lookup_preserves_cache_invariant.

Theorem C03_lookup_touches_cache_only_when_almost_full : forall lower is_space sel conn s cap cfg sni ip e,
  almost_full cap (length (cache s)) = false ->
  snd (lookup_x lower is_space sel conn s cap cfg sni ip e) = s.
Proof. intros. eapply lookup_x_unchanged; eauto. Qed.
Print Assumptions C03_lookup_touches_cache_only_when_almost_full.

(** a name that does not qualify (SubjectQualifiesForCert) is refused unless the cache matched:
    no default, no fallback, nothing loaded *)
Theorem C03_unqualified_name_refused : forall lower is_space sel conn s cap cfg sni ip e nm,
  hello_name lower is_space cfg ip (x_idna e) = Some nm -> subject_qualifies is_space nm = false ->
  (forall c v, from_cache_x lower is_space sel conn s cfg sni ip <> Some (c, true, v)) ->
  lookup_x lower is_space sel conn s cap cfg sni ip e = (RErr, s).
Proof. exact unqualified_refused. Qed.
Print Assumptions C03_unqualified_name_refused.

(** Config.GetCertificate as a whole: an event handler's veto and a TLS-ALPN challenge ClientHello
    (server name given, "acme-tls/1" the only ALPN protocol) without a challenge in progress give an
    error and leave the cache alone -- never a certificate of the cache; every other ClientHello is
    answered by [lookup_x], to which all of the above applies *)
Theorem C03_get_certificate_branches : forall lower is_space sel abort protos conn s cap cfg sni ip e,
  (abort = true \/ acme_tls_alpn sni protos = true ->
   get_certificate lower is_space sel abort protos conn s cap cfg sni ip e = (RErr, s)) /\
  (abort = false -> acme_tls_alpn sni protos = false ->
   get_certificate lower is_space sel abort protos conn s cap cfg sni ip e =
   lookup_x lower is_space sel conn s cap cfg sni ip e).
Proof.
  intros. unfold get_certificate. split.
  - intros [->|H]; [reflexivity|]. rewrite H. destruct abort; reflexivity.
  - intros -> ->. reflexivity.
Qed.
Print Assumptions C03_get_certificate_branches.

(** translator tie: the conjuncts of SubjectQualifiesForCert read from the source today, and the
    almost-full factor *)
Theorem C03_code_constants_today :
  qualify_conds = [QNonBlank; QNotPrefix [46%N]; QNotSuffix [46%N];
                   QOnlyIf [42%N] [42%N; 46%N] [42%N]; QNoneOf reject_chars_ref] /\
  almost_full_num = 9 /\ almost_full_den = 10 /\
  acme_tls1_protocol = [97; 99; 109; 101; 45; 116; 108; 115; 47; 49]%N.     (* "acme-tls/1" *)
Proof. repeat split; reflexivity. Qed.
Print Assumptions C03_code_constants_today.

(** translator tie: the shapes of the code the model writes out by hand -- the order of the
    selectCert calls in getCertificateFromCache and which flag each sets, the wildcard loop,
    normalizedName, DefaultCertificateSelector, selectCert, loadCertFromStorage,
    getNameFromClientHello, the almost-full test -- as the translator reads them from the source on
    every run (harness/cmd/consts/c03.go).  If the source is re-ordered or re-guarded this stops
    checking (and the correspondence is searched for a failing input). *)
Theorem C03_code_shape_today :
  (* ["addr:matched"; "normDefault:defaulted"] *)
  lookup_order_no_sni = [[97; 100; 100; 114; 58; 109; 97; 116; 99; 104; 101; 100]%N; [110; 111; 114; 109; 68; 101; 102; 97; 117; 108; 116; 58; 100; 101; 102; 97; 117; 108; 116; 101; 100]%N] /\
  (* ["name:matched"; "candidate:matched"] *)
  lookup_order_sni = [[110; 97; 109; 101; 58; 109; 97; 116; 99; 104; 101; 100]%N; [99; 97; 110; 100; 105; 100; 97; 116; 101; 58; 109; 97; 116; 99; 104; 101; 100]%N] /\
  (* ["normFallback:defaulted"] *)
  lookup_order_tail = [[110; 111; 114; 109; 70; 97; 108; 108; 98; 97; 99; 107; 58; 100; 101; 102; 97; 117; 108; 116; 101; 100]%N] /\
  (* "*" *)
  lookup_wildcard_label = [42]%N /\
  (* "." *)
  lookup_split_sep = [46]%N /\
  (* "." *)
  lookup_join_sep = [46]%N /\
  (* true *)
  normalized_name_is_lower_of_trim = true /\
  (* ["len==1"; "len==0"; "best=*ast.IndexExpr"; "unsupported-continue"; "best=choice"; "valid(choice.Leaf.NotBefore,expiresAt(...))-return-choice"; "return-best"] *)
  default_selector_shape = [[108; 101; 110; 61; 61; 49]%N; [108; 101; 110; 61; 61; 48]%N; [98; 101; 115; 116; 61; 42; 97; 115; 116; 46; 73; 110; 100; 101; 120; 69; 120; 112; 114]%N; [117; 110; 115; 117; 112; 112; 111; 114; 116; 101; 100; 45; 99; 111; 110; 116; 105; 110; 117; 101]%N; [98; 101; 115; 116; 61; 99; 104; 111; 105; 99; 101]%N; [118; 97; 108; 105; 100; 40; 99; 104; 111; 105; 99; 101; 46; 76; 101; 97; 102; 46; 78; 111; 116; 66; 101; 102; 111; 114; 101; 44; 101; 120; 112; 105; 114; 101; 115; 65; 116; 40; 46; 46; 46; 41; 41; 45; 114; 101; 116; 117; 114; 110; 45; 99; 104; 111; 105; 99; 101]%N; [114; 101; 116; 117; 114; 110; 45; 98; 101; 115; 116]%N] /\
  (* ["choices=cfg.certCache.getAllMatchingCerts(...)"; "if len(...)==0"; "if cfg.CertSelection==nil"; "choices=cfg.certCache.getAllCerts(...)"; "if cfg.CertSelection==nil"; "call DefaultCertificateSelector"; "call cfg.CertSelection.SelectCertificate"] *)
  select_cert_shape = [[99; 104; 111; 105; 99; 101; 115; 61; 99; 102; 103; 46; 99; 101; 114; 116; 67; 97; 99; 104; 101; 46; 103; 101; 116; 65; 108; 108; 77; 97; 116; 99; 104; 105; 110; 103; 67; 101; 114; 116; 115; 40; 46; 46; 46; 41]%N; [105; 102; 32; 108; 101; 110; 40; 46; 46; 46; 41; 61; 61; 48]%N; [105; 102; 32; 99; 102; 103; 46; 67; 101; 114; 116; 83; 101; 108; 101; 99; 116; 105; 111; 110; 61; 61; 110; 105; 108]%N; [99; 104; 111; 105; 99; 101; 115; 61; 99; 102; 103; 46; 99; 101; 114; 116; 67; 97; 99; 104; 101; 46; 103; 101; 116; 65; 108; 108; 67; 101; 114; 116; 115; 40; 46; 46; 46; 41]%N; [105; 102; 32; 99; 102; 103; 46; 67; 101; 114; 116; 83; 101; 108; 101; 99; 116; 105; 111; 110; 61; 61; 110; 105; 108]%N; [99; 97; 108; 108; 32; 68; 101; 102; 97; 117; 108; 116; 67; 101; 114; 116; 105; 102; 105; 99; 97; 116; 101; 83; 101; 108; 101; 99; 116; 111; 114]%N; [99; 97; 108; 108; 32; 99; 102; 103; 46; 67; 101; 114; 116; 83; 101; 108; 101; 99; 116; 105; 111; 110; 46; 83; 101; 108; 101; 99; 116; 67; 101; 114; 116; 105; 102; 105; 99; 97; 116; 101]%N] /\
  (* ["load name"; "if errors.Is(err,fs.ErrNotExist)"; "labels[0]=*"; "load strings.Join(...)"] *)
  load_from_storage_shape = [[108; 111; 97; 100; 32; 110; 97; 109; 101]%N; [105; 102; 32; 101; 114; 114; 111; 114; 115; 46; 73; 115; 40; 101; 114; 114; 44; 102; 115; 46; 69; 114; 114; 78; 111; 116; 69; 120; 105; 115; 116; 41]%N; [108; 97; 98; 101; 108; 115; 91; 48; 93; 61; 42]%N; [108; 111; 97; 100; 32; 115; 116; 114; 105; 110; 103; 115; 46; 74; 111; 105; 110; 40; 46; 46; 46; 41]%N] /\
  (* ["idna strings.TrimSpace(hello.ServerName)"; "if err!=nil"; "return """; "if name!="""; "return name"; "if cfg.DefaultServerName!="""; "return normalizedName(cfg.DefaultServerName)"; "return localIPFromConn(hello.Conn)"] *)
  hello_name_shape = [[105; 100; 110; 97; 32; 115; 116; 114; 105; 110; 103; 115; 46; 84; 114; 105; 109; 83; 112; 97; 99; 101; 40; 104; 101; 108; 108; 111; 46; 83; 101; 114; 118; 101; 114; 78; 97; 109; 101; 41]%N; [105; 102; 32; 101; 114; 114; 33; 61; 110; 105; 108]%N; [114; 101; 116; 117; 114; 110; 32; 34; 34]%N; [105; 102; 32; 110; 97; 109; 101; 33; 61; 34; 34]%N; [114; 101; 116; 117; 114; 110; 32; 110; 97; 109; 101]%N; [105; 102; 32; 99; 102; 103; 46; 68; 101; 102; 97; 117; 108; 116; 83; 101; 114; 118; 101; 114; 78; 97; 109; 101; 33; 61; 34; 34]%N; [114; 101; 116; 117; 114; 110; 32; 110; 111; 114; 109; 97; 108; 105; 122; 101; 100; 78; 97; 109; 101; 40; 99; 102; 103; 46; 68; 101; 102; 97; 117; 108; 116; 83; 101; 114; 118; 101; 114; 78; 97; 109; 101; 41]%N; [114; 101; 116; 117; 114; 110; 32; 108; 111; 99; 97; 108; 73; 80; 70; 114; 111; 109; 67; 111; 110; 110; 40; 104; 101; 108; 108; 111; 46; 67; 111; 110; 110; 41]%N] /\
  (* ["cacheAlmostFull:*ast.BinaryExpr&&*ast.BinaryExpr"; "cacheAlmostFull:cacheCapacity>0"; "cacheAlmostFull:float64(...)>=*ast.BinaryExpr"; "cacheAlmostFull:cacheCapacity*.9"; "loadDynamically:*ast.BinaryExpr||cacheAlmostFull"; "loadDynamically:cfg.OnDemand!=nil"] *)
  almost_full_shape = [[99; 97; 99; 104; 101; 65; 108; 109; 111; 115; 116; 70; 117; 108; 108; 58; 42; 97; 115; 116; 46; 66; 105; 110; 97; 114; 121; 69; 120; 112; 114; 38; 38; 42; 97; 115; 116; 46; 66; 105; 110; 97; 114; 121; 69; 120; 112; 114]%N; [99; 97; 99; 104; 101; 65; 108; 109; 111; 115; 116; 70; 117; 108; 108; 58; 99; 97; 99; 104; 101; 67; 97; 112; 97; 99; 105; 116; 121; 62; 48]%N; [99; 97; 99; 104; 101; 65; 108; 109; 111; 115; 116; 70; 117; 108; 108; 58; 102; 108; 111; 97; 116; 54; 52; 40; 46; 46; 46; 41; 62; 61; 42; 97; 115; 116; 46; 66; 105; 110; 97; 114; 121; 69; 120; 112; 114]%N; [99; 97; 99; 104; 101; 65; 108; 109; 111; 115; 116; 70; 117; 108; 108; 58; 99; 97; 99; 104; 101; 67; 97; 112; 97; 99; 105; 116; 121; 42; 46; 57]%N; [108; 111; 97; 100; 68; 121; 110; 97; 109; 105; 99; 97; 108; 108; 121; 58; 42; 97; 115; 116; 46; 66; 105; 110; 97; 114; 121; 69; 120; 112; 114; 124; 124; 99; 97; 99; 104; 101; 65; 108; 109; 111; 115; 116; 70; 117; 108; 108]%N; [108; 111; 97; 100; 68; 121; 110; 97; 109; 105; 99; 97; 108; 108; 121; 58; 99; 102; 103; 46; 79; 110; 68; 101; 109; 97; 110; 100; 33; 61; 110; 105; 108]%N].
Proof. repeat split; reflexivity. Qed.
Print Assumptions C03_code_shape_today.

(** "an error if and only if no certificate is available" (any policy): the lookup fails only when
    nothing matched and either the requested name is unusable (its IDNA conversion fails, or it does
    not qualify) or neither the default name (no SNI) nor the fallback name yields a certificate and
    none can be loaded from storage; the converse direction is C03_error_only_if_unlisted /
    C03_unqualified_name_refused *)
Theorem C03_error_only_if_nothing_available : forall lower is_space c post,
  lookup_x lower is_space (self c) (l_conn c) (l_state c) (l_cap c) (l_cfg c) (l_sni c) (l_ip c) (l_envx c) = (RErr, post) ->
  error_ok lower is_space c = true.
Proof. exact error_ok_model. Qed.
Print Assumptions C03_error_only_if_nothing_available.

(** translator tie, GetCertificateWithContext: the event handler's veto returns an error first; the
    TLS-ALPN test is "server name given, exactly one ALPN protocol, and it is acme-tls/1"; otherwise
    getCertDuringHandshake with loading enabled, whose certificate and error are returned as they are *)
Theorem C03_entry_shape_today :
  get_certificate_shape = [[105; 102; 32; 101; 114; 114; 58; 61; 99; 102; 103; 46; 101; 109; 105; 116; 40; 116; 108; 115; 95; 103; 101; 116; 95; 99; 101; 114; 116; 105; 102; 105; 99; 97; 116; 101; 41; 59; 32; 101; 114; 114; 33; 61; 110; 105; 108; 32; 45; 62; 32; 114; 101; 116; 117; 114; 110; 32; 110; 105; 108; 44; 102; 109; 116; 46; 69; 114; 114; 111; 114; 102; 40; 34; 104; 97; 110; 100; 115; 104; 97; 107; 101; 32; 97; 98; 111; 114; 116; 101; 100; 32; 98; 121; 32; 101; 118; 101; 110; 116; 32; 104; 97; 110; 100; 108; 101; 114; 58; 32; 37; 119; 34; 44; 101; 114; 114; 41]%N; [105; 102; 32; 99; 116; 120; 61; 61; 110; 105; 108; 32; 45; 62; 32; 99; 111; 110; 116; 105; 110; 117; 101]%N; [105; 102; 32; 99; 108; 105; 101; 110; 116; 72; 101; 108; 108; 111; 46; 83; 101; 114; 118; 101; 114; 78; 97; 109; 101; 33; 61; 34; 34; 32; 38; 38; 32; 108; 101; 110; 40; 99; 108; 105; 101; 110; 116; 72; 101; 108; 108; 111; 46; 83; 117; 112; 112; 111; 114; 116; 101; 100; 80; 114; 111; 116; 111; 115; 41; 61; 61; 49; 32; 38; 38; 32; 99; 108; 105; 101; 110; 116; 72; 101; 108; 108; 111; 46; 83; 117; 112; 112; 111; 114; 116; 101; 100; 80; 114; 111; 116; 111; 115; 91; 48; 93; 61; 61; 97; 99; 109; 101; 122; 46; 65; 67; 77; 69; 84; 76; 83; 49; 80; 114; 111; 116; 111; 99; 111; 108; 32; 45; 62; 32; 114; 101; 116; 117; 114; 110; 32; 99; 104; 97; 108; 108; 101; 110; 103; 101; 67; 101; 114; 116; 44; 110; 105; 108]%N; [99; 101; 114; 116; 44; 101; 114; 114; 58; 61; 99; 102; 103; 46; 103; 101; 116; 67; 101; 114; 116; 68; 117; 114; 105; 110; 103; 72; 97; 110; 100; 115; 104; 97; 107; 101; 40; 99; 116; 120; 44; 99; 108; 105; 101; 110; 116; 72; 101; 108; 108; 111; 44; 116; 114; 117; 101; 41]%N; [114; 101; 116; 117; 114; 110; 32; 38; 99; 101; 114; 116; 46; 67; 101; 114; 116; 105; 102; 105; 99; 97; 116; 101; 44; 101; 114; 114]%N].
Proof. reflexivity. Qed.
Print Assumptions C03_entry_shape_today.

(** the run-time monitor is the boolean form of the statements above: it holds of what the model
    answers on every cache satisfying the invariant, for every policy *)
Theorem C03_spec_ok_of_model : forall lower is_space names_of c,
  Inv names_of (l_cap c) (l_state c) ->
  (forall h x, alookup h (cache (l_state c)) = Some x -> at_complete (attr_get (l_attrs c) h) = true) ->
  (forall h x, alookup h (cache (l_state c)) = Some x -> at_names (attr_get (l_attrs c) h) = c_names x) ->
  (forall k x, alookup k (x_storage (l_envx c)) = Some x ->
     alookup (c_hash (sd_cert x)) (l_stored_complete c) = Some true) ->
  spec_lookup_o lower is_space c (obs_of c (fst (run_lookup lower is_space c))) = true.
Proof. exact spec_lookup_of_model. Qed.
Print Assumptions C03_spec_ok_of_model.

(** the handshake and Cache.AllMatchingCertificates agree: a matched answer (default policy, server
    name given) is one of the certificates AllMatchingCertificates reports for the normalised name *)
Theorem C03_answer_among_all_matching : forall lower is_space names_of c,
  Inv names_of (l_cap c) (l_state c) ->
  spec_amc_o lower is_space c (obs_of c (fst (run_lookup lower is_space c))) (amc_of lower is_space c) = true.
Proof. intros lower is_space names_of c HI. exact (spec_amc_of_model lower is_space names_of c HI). Qed.
Print Assumptions C03_answer_among_all_matching.

Theorem C03_spec_cache_of_model : forall lower is_space c,
  let nm := names_of_pool (Check.case_certs c) in
  Inv nm (l_cap c) (l_state c) ->
  (forall k x, alookup k (x_storage (l_envx c)) = Some x -> wf_cert nm (sd_cert x)) ->
  spec_cache_p c (snd (run_lookup lower is_space c)) = true.
Proof. exact spec_cache_of_model. Qed.
Print Assumptions C03_spec_cache_of_model.

(** ---- non-vacuity: a reachable cache, and lookups exercising each clause ---- *)
Definition s_ (l : list N) : str := l.
Definition n_ax : name := [97; 46; 120]%N.           (* a.x *)
Definition n_wx : name := [42; 46; 120]%N.           (* *.x *)
Definition n_ip : name := [49; 46; 50]%N.            (* "1.2" stands for an IP literal *)
Definition n_fb : name := [102; 46; 121]%N.          (* f.y *)
Definition ex_e1 := Cert [101; 49]%N [n_ax] false [] [] 0%Z [].          (* e1: a.x, expired *)
Definition ex_e2 := Cert [101; 50]%N [n_ax] false [] [] 0%Z [].          (* e2: a.x *)
Definition ex_w := Cert [119]%N [n_wx; n_ip] false [] [] 0%Z [].         (* w: *.x and the IP *)
Definition ex_f := Cert [102]%N [n_fb] false [] [] 0%Z [].               (* f: f.y *)
Definition ex_names_of (h : hash) : list name :=
  if str_eqb h [101; 49]%N then [n_ax] else if str_eqb h [101; 50]%N then [n_ax]
  else if str_eqb h [119]%N then [n_wx; n_ip] else if str_eqb h [102]%N then [n_fb] else [].
Definition ex_ops := [OAdd ex_e1 None; OAdd ex_e2 None; OAdd ex_w None; OAdd ex_f None].
Definition ex_state := run 0 init ex_ops.
Definition ex_valid (h : hash) : bool := negb (str_eqb h [101; 49]%N).
Definition ex_lookup cfg sni :=
  lookup ascii_lower ascii_space (fun _ => true) ex_valid ex_state 0 cfg sni n_ip (Env false true None).

Example C03_hypotheses_satisfiable :
  Forall (wf_op ex_names_of) ex_ops /\
  (* " A.x " : exact match, the unexpired e2 although the expired e1 was cached first *)
  ex_lookup (Config [] []) [32; 65; 46; 120; 32]%N = ROk ex_e2 /\
  (* "q.x" : wildcard *)
  ex_lookup (Config [] []) [113; 46; 120]%N = ROk ex_w /\
  (* no SNI: the local IP's certificate, not the fallback *)
  ex_lookup (Config [] n_fb) [] = ROk ex_w /\
  (* "q.y": nothing covers it: fallback if configured, else an error *)
  ex_lookup (Config [] n_fb) [113; 46; 121]%N = ROk ex_f /\
  ex_lookup (Config [] []) [113; 46; 121]%N = RErr.
Proof.
  split; [|vm_compute; repeat split].
  repeat constructor; cbn; try discriminate; reflexivity.
Qed.

(** ---- non-vacuity of the extended statements ---- *)
Definition n_qy : name := [113; 46; 121]%N.          (* q.y *)
Definition n_sy : name := [42; 46; 121]%N.           (* *.y *)
Definition ex_L := Cert [76]%N [n_qy] true [100]%N [] 0%Z [].            (* L: q.y, managed, in storage *)
Definition ex_W := Cert [87]%N [n_sy] true [100]%N [] 0%Z [].            (* W: *.y, managed, in storage *)
Definition ex_full := run 1 init [OAdd ex_f None].                       (* capacity 1, holding f.y *)
Definition ex_lookup_x (st : amap stored) sni :=
  lookup_x ascii_lower ascii_space (select_cert (fun _ => true) ex_valid) true ex_full 1 (Config [] n_fb) sni n_ip
           (EnvX (Some sni) st [] (Some [102]%N)).

Example C03_x_hypotheses_satisfiable :
  (* a full cache (1 of 1): "q.y" is not cached but in storage and fresh: loaded, evicting f.y *)
  ex_lookup_x [(n_qy, Stored ex_L true true)] n_qy = (ROk ex_L, run 1 init [OAdd ex_f None; OAdd ex_L (Some [102]%N)]) /\
  storage_wf [(n_qy, Stored ex_L true true)] /\
  (* found under the name with its first label replaced by "*" *)
  fst (ex_lookup_x [(n_sy, Stored ex_W true true)] n_qy) = ROk ex_W /\
  (* in storage but due for renewal: it cannot be maintained with on-demand TLS off; the fallback
     certificate is served -- although it has just been evicted -- and the cache ends up empty *)
  ex_lookup_x [(n_qy, Stored ex_L false false)] n_qy = (ROk ex_f, St [] []) /\
  (* in storage, due for renewal but still valid: served, and -- the background renewal not being
     allowed without on-demand TLS -- removed from the cache again: the cache ends up empty *)
  ex_lookup_x [(n_qy, Stored ex_L false true)] n_qy = (ROk ex_L, St [] []) /\
  (* the exact name cannot be read (a storage error, not "not found"): the wildcard variant is not tried *)
  lookup_x ascii_lower ascii_space (select_cert (fun _ => true) ex_valid) true ex_full 1 (Config [] n_fb) n_qy n_ip
           (EnvX (Some n_qy) [(n_sy, Stored ex_W true true)] [n_qy] None) = (ROk ex_f, ex_full) /\
  (* a ClientHelloInfo without a connection and without SNI: the local IP's certificate is not tried,
     the name is empty and does not qualify: an error (never a panic: fix 9180bec) *)
  fst (lookup_x ascii_lower ascii_space (select_cert (fun _ => true) ex_valid) false ex_state 0 (Config [] [])
         [] [] (EnvX (Some []) [] [] None)) = RErr /\
  (* nothing in storage: the fallback, the cache untouched *)
  ex_lookup_x [] n_qy = (ROk ex_f, ex_full) /\
  (* a name that does not qualify: refused although a fallback is configured *)
  ex_lookup_x [] [113; 33; 46; 121]%N = (RErr, ex_full) /\
  (* custom selectors on the 4-certificate cache: "zz.q" is listed nowhere, so all cached
     certificates are offered: the largest hash wins; a refusing selector gives an error; one that
     accepts only supported unexpired choices picks e2 for "a.x" *)
  fst (lookup_x ascii_lower ascii_space (sel_policy (fun _ => true) ex_valid PMax) true ex_state 0 (Config [] [])
         [122; 122; 46; 113]%N n_ip (EnvX (Some [122; 122; 46; 113]%N) [] [] None)) = ROk ex_w /\
  fst (lookup_x ascii_lower ascii_space (sel_policy (fun _ => true) ex_valid PRefuse) true ex_state 0 (Config [] n_fb)
         n_ax n_ip (EnvX (Some n_ax) [] [] None)) = RErr /\
  fst (lookup_x ascii_lower ascii_space (sel_policy (fun _ => true) ex_valid PGoodMin) true ex_state 0 (Config [] [])
         n_ax n_ip (EnvX (Some n_ax) [] [] None)) = ROk ex_e2.
Proof.
  repeat split; try (vm_compute; reflexivity).
  intros k x H. cbn in H. destruct (str_eqb k n_qy) eqn:E; [|discriminate].
  injection H as <-. apply str_eqb_eq in E. subst k. left. reflexivity.
Qed.

(** ================= final round: the remaining monitor clauses, IPv4-mapped local addresses, what
    "exact preferred" guarantees ================= *)

(** SubjectQualifiesForCert: what the conjuncts read from the source say is the documented rule the
    monitor judges the implementation by *)
Theorem C03_qualifies_is_documented_rule : forall is_space s,
  subject_qualifies is_space s = qual_spec is_space s.
Proof. exact subject_qualifies_is_documented_rule. Qed.
Print Assumptions C03_qualifies_is_documented_rule.

(** the MatchWildcard clause of the monitor holds of the model *)
Theorem C03_spec_match_of_model : forall lower a b, spec_match lower a b (match_wildcard lower a b) = true.
Proof. exact spec_match_of_model. Qed.
Print Assumptions C03_spec_match_of_model.

(** monitor soundness, all clauses at once: on what the model answers, [check_case] is 0 ("model
    agrees, specification holds") for a GetCertificate case -- answer, cache afterwards,
    AllMatchingCertificates, every clause of spec_lookup_o / spec_cache_p / spec_amc_o -- ... *)
Theorem C03_check_lookup_of_model : forall lt st c,
  let lower := tbl_lower lt in
  let is_space := tbl_space st in
  let nm := names_of_pool (Check.case_certs c) in
  Inv nm (l_cap c) (l_state c) ->
  (forall h x, alookup h (cache (l_state c)) = Some x -> at_complete (attr_get (l_attrs c) h) = true) ->
  (forall h x, alookup h (cache (l_state c)) = Some x -> at_names (attr_get (l_attrs c) h) = c_names x) ->
  (forall k x, alookup k (x_storage (l_envx c)) = Some x ->
     alookup (c_hash (sd_cert x)) (l_stored_complete c) = Some true) ->
  (forall k x, alookup k (x_storage (l_envx c)) = Some x -> wf_cert nm (sd_cert x)) ->
  check_case (KLookup lt st (complete_case lower is_space c)) = 0%Z.
Proof. exact check_lookup_of_model. Qed.
Print Assumptions C03_check_lookup_of_model.

(** ... and for the MatchWildcard, normalizedName, SubjectQualifiesForCert and
    getNameFromClientHello cases *)
Theorem C03_check_other_kinds_of_model :
  (forall lt a b, check_case (KMatch lt a b (match_wildcard (tbl_lower lt) a b)) = 0%Z) /\
  (forall lt st s, check_case (KNorm lt st s (normalize (tbl_lower lt) (tbl_space st) s)) = 0%Z) /\
  (forall st s, check_case (KQual st s (subject_qualifies (tbl_space st) s)) = 0%Z) /\
  (forall lt st d ip i, check_case (KName lt st d ip i (hello_name (tbl_lower lt) (tbl_space st) (Config d []) ip i)) = 0%Z).
Proof. exact check_other_kinds_of_model. Qed.
Print Assumptions C03_check_other_kinds_of_model.

(** the local IP is the TEXTUAL address: an IPv4 address reported in its 16-byte, IPv4-mapped form
    (::ffff:a.b.c.d) has the same text as the 4-byte form, so every lookup -- and the preference for
    the local IP's certificate without SNI -- is the same for both *)
Theorem C03_local_ip_text_v4mapped : forall lower is_space sel conn s cap cfg sni e text6 a b c d,
  ip_text text6 (v4mapped a b c d) = dotted a b c d /\
  ip_text text6 [a; b; c; d] = dotted a b c d /\
  lookup_x lower is_space sel conn s cap cfg sni (ip_text text6 (v4mapped a b c d)) e =
  lookup_x lower is_space sel conn s cap cfg sni (ip_text text6 [a; b; c; d]) e.
Proof.
  intros. split; [rewrite ip_text_v4mapped; apply ip_text_v4|]. split; [apply ip_text_v4|].
  apply lookup_same_for_v4mapped.
Qed.
Print Assumptions C03_local_ip_text_v4mapped.

Theorem C03_ip_preferred_v4mapped : forall lower is_space sup valid names_of cap s cfg sni e text6 a b c d,
  Inv names_of cap s -> normalize lower is_space sni = [] -> idx s (dotted a b c d) <> [] ->
  exists x, fst (lookup_x lower is_space (select_cert sup valid) true s cap cfg sni (ip_text text6 (v4mapped a b c d)) e) = ROk x /\
            In (dotted a b c d) (c_names x) /\ In x (get_all_matching_certs s (dotted a b c d)).
Proof. intros. eapply ip_preferred_v4mapped; eauto. Qed.
Print Assumptions C03_ip_preferred_v4mapped.

(** what "exact preferred over wildcard" guarantees, precisely: the selector only ever sees the
    certificates listed under the exact name, so when the exact name is listed the answer is one of
    THEM -- even if all of them are expired or unsupported and a certificate listed under a wildcard
    candidate is supported and unexpired; a certificate that does not list the exact name is answered
    only when the exact name is not listed at all *)
Theorem C03_exact_preferred_even_if_unusable : forall lower is_space sup valid names_of cap s cfg sni ip e w cw,
  Inv names_of cap s ->
  let n := normalize lower is_space sni in
  n <> [] -> idx s n <> [] ->
  (forall c, In c (get_all_matching_certs s n) -> ~ good sup valid c) ->
  In w (wildcard_candidates n) -> In cw (get_all_matching_certs s w) -> good sup valid cw ->
  exists c, lookup lower is_space sup valid s cap cfg sni ip e = ROk c /\
            In c (get_all_matching_certs s n) /\ ~ good sup valid c.
Proof. intros. eapply exact_preferred_even_if_unusable; eauto. Qed.
Print Assumptions C03_exact_preferred_even_if_unusable.

Theorem C03_wildcard_only_if_exact_unlisted : forall lower is_space sup valid names_of cap s cfg sni ip e c,
  Inv names_of cap s ->
  let n := normalize lower is_space sni in
  n <> [] -> lookup lower is_space sup valid s cap cfg sni ip e = ROk c ->
  alookup (c_hash c) (cache s) = Some c -> ~ In n (c_names c) ->
  idx s n = [].
Proof. intros. eapply wildcard_only_if_exact_unlisted; eauto. Qed.
Print Assumptions C03_wildcard_only_if_exact_unlisted.

(** the property at the level of Config.GetCertificate, over HISTORIES: [reachable] = every cache
    that any sequence of cache operations (C12's: adds, removals, replacements, write-backs,
    SetOptions, queries, scans, Stop) and earlier handshakes (which may load from storage and evict)
    can produce from the empty cache; every such cache satisfies the C12 invariant, and on it
    GetCertificate is sound *)
Theorem C03_reachable_caches_are_invariant : forall names_of d,
  reachable names_of d -> DInv names_of d.
Proof. exact reachable_inv. Qed.
Print Assumptions C03_reachable_caches_are_invariant.

Theorem C03_get_certificate_sound_reachable :
  forall names_of d lower is_space sup valid abort protos conn cfg sni ip e c s',
  reachable names_of d -> storage_wf (x_storage e) ->
  get_certificate lower is_space (select_cert sup valid) abort protos conn (d_st d) (d_cap d) cfg sni ip e = (ROk c, s') ->
  let n := normalize lower is_space sni in
  (alookup (c_hash c) (cache (d_st d)) = Some c /\
   ((n <> [] /\ exists san, In san (c_names c) /\ covers san n) \/
    (n = [] /\ conn = true /\ In ip (c_names c)) \/
    (n = [] /\ default_name cfg <> [] /\ In (normalize lower is_space (default_name cfg)) (c_names c)) \/
    (fallback_name cfg <> [] /\ In (normalize lower is_space (fallback_name cfg)) (c_names c)))) \/
  (almost_full (d_cap d) (length (cache (d_st d))) = true /\
   exists nm x, hello_name lower is_space cfg ip (x_idna e) = Some nm /\
                subject_qualifies is_space nm = true /\
                load_from_storage (x_storage e) (x_broken e) nm = Some x /\ sd_servable x = true /\ c = sd_cert x /\
                exists san, In san (c_names c) /\ covers san nm).
Proof. intros. eapply get_certificate_sound_reachable; eauto. Qed.
Print Assumptions C03_get_certificate_sound_reachable.

(** non-vacuity: a cache reached through adds, a SetOptions and a handshake that loaded from storage *)
Example C03_reachable_example :
  reachable ex_names_of
    (after_handshake ascii_lower ascii_space (select_cert (fun _ => true) ex_valid) false [] true
       (dstep (dstep (dinit 0) (DOp (OAdd ex_f None))) (DSetCap 1%Z [])) (Config [] n_fb) n_qy n_ip
       (EnvX (Some n_qy) [] [] None)).
Proof.
  apply reach_handshake; [|intros k x H; discriminate].
  apply reach_op; [apply reach_op; [apply reach_init|] |]; cbn; [split; [reflexivity | discriminate] | exact I].
Qed.

(** "an error if and only if no certificate is available", in model terms, any policy: the lookup
    fails exactly when nothing matched and the IDNA conversion failed, or the name does not qualify,
    or there is neither a default / fallback certificate nor a servable one to load *)
Theorem C03_error_iff_nothing_available : forall lower is_space sel conn s cap cfg sni ip e,
  fst (lookup_x lower is_space sel conn s cap cfg sni ip e) = RErr <->
  (forall c v, from_cache_x lower is_space sel conn s cfg sni ip <> Some (c, true, v)) /\
  match hello_name lower is_space cfg ip (x_idna e) with
  | None => True
  | Some nm => subject_qualifies is_space nm = false \/
               (from_cache_x lower is_space sel conn s cfg sni ip = None /\
                servable_load cap s e nm = false)
  end.
Proof. exact lookup_x_error_iff. Qed.
Print Assumptions C03_error_iff_nothing_available.

(** a stored certificate that is due for renewal but still valid is served and is not in the cache
    afterwards *)
Theorem C03_due_certificate_served_then_gone : forall lower is_space sel conn s cap cfg sni ip e x c s',
  lookup_x lower is_space sel conn s cap cfg sni ip e = (ROk c, s') ->
  (forall c' v, from_cache_x lower is_space sel conn s cfg sni ip <> Some (c', true, v)) ->
  load_ok lower is_space cap s cfg ip e x -> sd_servable x = true -> sd_fresh x = false ->
  c = sd_cert x /\ amem (c_hash c) (cache s') = false.
Proof. exact due_certificate_served_then_gone. Qed.
Print Assumptions C03_due_certificate_served_then_gone.

(** GetCertificate as a whole: the cache is touched only when almost full; and for an ordinary
    ClientHello (made by crypto/tls, no veto, not a TLS-ALPN challenge) with the default policy it IS
    [lookup], so that every theorem about [lookup] above is a theorem about GetCertificate *)
Theorem C03_get_certificate_touches_cache_only_when_almost_full :
  forall lower is_space sel abort protos conn s cap cfg sni ip e,
  almost_full cap (length (cache s)) = false ->
  snd (get_certificate lower is_space sel abort protos conn s cap cfg sni ip e) = s.
Proof. exact get_certificate_touches_only_when_almost_full. Qed.
Print Assumptions C03_get_certificate_touches_cache_only_when_almost_full.

Theorem C03_get_certificate_is_lookup : forall lower is_space sup valid protos s cap cfg sni ip e,
  acme_tls_alpn sni protos = false ->
  fst (get_certificate lower is_space (select_cert sup valid) false protos true s cap cfg sni ip e) =
  lookup lower is_space sup valid s cap cfg sni ip (env_of lower is_space cfg ip e).
Proof. exact get_certificate_is_lookup. Qed.
Print Assumptions C03_get_certificate_is_lookup.

(** the selector double that accepts only supported unexpired choices answers with one *)
Theorem C03_good_selector_answers_good : forall sup valid l c,
  custom_pick sup valid PGoodMin l = Some c -> good sup valid c /\ In c l.
Proof. intros. split; [eapply custom_pick_good; eauto | eapply custom_pick_In; eauto]. Qed.
Print Assumptions C03_good_selector_answers_good.

Definition n_lo : name := [49; 50; 55; 46; 48; 46; 48; 46; 49]%N.       (* 127.0.0.1 *)
Definition ex_lo := Cert [108]%N [n_lo] false [] [] 0%Z [].              (* l: 127.0.0.1 *)
Definition ex_state2 := run 0 init [OAdd ex_e1 None; OAdd ex_w None; OAdd ex_lo None].
Definition ex_names_of2 (h : hash) : list name := if str_eqb h [108]%N then [n_lo] else ex_names_of h.

Example C03_final_hypotheses_satisfiable :
  Forall (wf_op ex_names_of2) [OAdd ex_e1 None; OAdd ex_w None; OAdd ex_lo None] /\
  (* "a.x": only the expired e1 lists the exact name, the wildcard certificate w is fine: e1 it is *)
  idx ex_state2 n_ax = [[101; 49]%N] /\ ~ good (fun _ => true) ex_valid ex_e1 /\ good (fun _ => true) ex_valid ex_w /\
  In n_wx (wildcard_candidates n_ax) /\ In ex_w (get_all_matching_certs ex_state2 n_wx) /\
  lookup ascii_lower ascii_space (fun _ => true) ex_valid ex_state2 0 (Config [] []) n_ax n_ip (Env false true None) = ROk ex_e1 /\
  (* no SNI, the connection's local address is 127.0.0.1 in 16-byte form: the certificate for 127.0.0.1 *)
  dotted 127 0 0 1 = n_lo /\
  fst (lookup_x ascii_lower ascii_space (select_cert (fun _ => true) ex_valid) true ex_state2 0 (Config [] n_fb) []
         (ip_text (fun _ => []) (v4mapped 127 0 0 1)) (EnvX (Some []) [] [] None)) = ROk ex_lo.
Proof.
  split; [repeat constructor; cbn; try discriminate; reflexivity|].
  split; [vm_compute; reflexivity|].
  split; [intros [_ H]; vm_compute in H; discriminate|].
  split; [split; vm_compute; reflexivity|].
  vm_compute. repeat split; auto.
Qed.
