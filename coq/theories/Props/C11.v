(** C11 — Names sanitize to one safe path component; keys stay in their namespace.
    Only statements, each closed by [exact], with [Print Assumptions] beneath. *)
From CM Require Import Lib.Str Lib.SafeSteps Gen.Consts Safe.Model Safe.Proofs Safe.KeysProofs.

(** unicode.ToLower / unicode.IsSpace oracles and what is assumed of them (validated by the
    harness over all 0x110000 code points on every run) *)
Definition unicode_ok (lower : N -> N) (is_space : N -> bool) : Prop :=
  (forall c, c < 128 -> lower c = ascii_lower c) /\
  (forall c, is_upper_ascii (lower c) = false) /\
  (forall c, c < 128 -> is_space c = ascii_space c).

(** the sanitizer's output is one path component: no separator, no NUL, no ".." inside
    (hence it is not ".." either) *)
Theorem C11_safe_component : forall lower is_space, unicode_ok lower is_space ->
  forall s, let o := safe lower is_space s in
  ~ In c_slash o /\ ~ In c_bslash o /\ ~ In c_nul o /\ has_pair c_dot c_dot o = false.
Proof.
  intros lower is_space (H1 & H2 & Hs) s o.
  destruct (safe_no_separator lower is_space H2 s) as (A & B & C).
  repeat split; try assumption. exact (safe_no_dotdot lower is_space s).
Qed.
Print Assumptions C11_safe_component.

Theorem C11_safe_idempotent : forall lower is_space, unicode_ok lower is_space ->
  forall s, safe lower is_space (safe lower is_space s) = safe lower is_space s.
Proof. intros lower is_space (H1 & H2 & Hs). exact (safe_idempotent lower is_space H1 H2 Hs). Qed.
Print Assumptions C11_safe_idempotent.

(** output alphabet: kept by the regexp class and never upper case *)
Theorem C11_safe_alphabet : forall lower is_space, unicode_ok lower is_space ->
  forall s, Forall (fun c => outc c = true) (safe lower is_space s).
Proof. intros lower is_space (H1 & H2 & Hs). exact (safe_alphabet lower is_space H2). Qed.
Print Assumptions C11_safe_alphabet.

(** certificate assets: certificates/<safe issuer>/... by whole components, no ".." component *)
Theorem C11_site_keys_in_namespace : forall lower is_space, unicode_ok lower is_space ->
  forall i d k,
  In k [site_cert lower is_space i d; site_key lower is_space i d; site_meta lower is_space i d] ->
  exists rest, kc k = prefix_certs :: kc (safe lower is_space i) ++ rest /\ good_str k = true.
Proof. intros lower is_space (H1 & H2 & Hs). exact (site_keys_in_namespace lower is_space H2). Qed.
Print Assumptions C11_site_keys_in_namespace.

Theorem C11_ocsp_key_in_namespace : forall lower is_space, unicode_ok lower is_space ->
  forall first hash, noslash hash -> has_nondot hash = true ->
  exists f, kc (ocsp_staple lower is_space first hash) = [prefix_ocsp; f] /\
            good_str (ocsp_staple lower is_space first hash) = true.
Proof. intros lower is_space (H1 & H2 & Hs). exact (ocsp_staple_ns lower is_space H2). Qed.
Print Assumptions C11_ocsp_key_in_namespace.

Theorem C11_account_key_in_namespace : forall lower is_space, unicode_ok lower is_space ->
  forall ik email dflt ext, noslash ext -> has_nondot ext = true ->
  exists rest, kc (user_key lower is_space ik email dflt ext) =
                 prefix_acme :: kc (safe lower is_space ik) ++ users_dir_name :: rest /\
               good_str (user_key lower is_space ik email dflt ext) = true.
Proof. intros lower is_space (H1 & H2 & Hs). exact (user_key_ns lower is_space H2). Qed.
Print Assumptions C11_account_key_in_namespace.

Theorem C11_challenge_token_key_in_namespace : forall lower is_space, unicode_ok lower is_space ->
  forall ik d,
  kc (challenge_tokens_key lower is_space ik d) =
    prefix_acme :: kc (safe lower is_space ik) ++ [challenge_tokens_dir_name; safe lower is_space d ++ ext_json] /\
  good_str (challenge_tokens_key lower is_space ik d) = true.
Proof. intros lower is_space (H1 & H2 & Hs). exact (challenge_tokens_key_ns lower is_space H2). Qed.
Print Assumptions C11_challenge_token_key_in_namespace.

(** file paths: a key without ".." components stays under the storage root *)
Theorem C11_filename_under_root : forall root key, good_str root = true -> good_str key = true ->
  kc (filename root key) = kc root ++ kc key /\ good_str (filename root key) = true.
Proof. exact filename_under_root. Qed.
Print Assumptions C11_filename_under_root.

Theorem C11_lockfile_in_locks_dir : forall lower is_space, unicode_ok lower is_space ->
  forall root name, good_str root = true ->
  kc (lock_filename lower is_space root name) =
    kc root ++ [lock_dir_name; safe lower is_space name ++ lock_suffix] /\
  good_str (lock_filename lower is_space root name) = true.
Proof. intros lower is_space (H1 & H2 & Hs). exact (lockfile_in_locks_dir lower is_space H2). Qed.
Print Assumptions C11_lockfile_in_locks_dir.

(** non-vacuity: the ASCII-exact tables satisfy the oracle hypotheses, and a non-trivial input *)
Example C11_unicode_ok_satisfiable : unicode_ok (tbl_lower []) (tbl_space []).
Proof.
  unfold unicode_ok, tbl_lower, tbl_space. repeat split; intros c.
  - intros H. apply N.ltb_lt in H. rewrite H. reflexivity.
  - destruct (c <? 128) eqn:E; cbn [find].
    + unfold ascii_lower. destruct (is_upper_ascii c) eqn:U; [|exact U].
      unfold is_upper_ascii in *. apply andb_true_iff in U. destruct U as [U1 U2].
      apply N.leb_le in U1, U2. apply andb_false_iff. right. apply N.leb_gt. lia.
    + unfold is_upper_ascii. apply N.ltb_ge in E. apply andb_false_iff. right. apply N.leb_gt. lia.
  - intros H. apply N.ltb_lt in H. rewrite H. reflexivity.
Qed.
Example C11_witness_fixed :
  safe (tbl_lower []) (tbl_space []) [46; 47; 46] = [] /\
  safe (tbl_lower []) (tbl_space []) [32; 65; 43; 42; 58; 46; 46; 47; 46; 98; 32] =
    [97; 95; 112; 108; 117; 115; 95; 119; 105; 108; 100; 99; 97; 114; 100; 95; 45; 46; 98].
Proof. vm_compute. split; reflexivity. Qed.
