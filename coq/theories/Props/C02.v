(** C02 — placeholder while the proofs are being written. *)
From CM Require Import Lib.Str Handshake.Model.
