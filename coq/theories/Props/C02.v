(** C02 — On-demand TLS never issues or loads for names the policy does not permit.
    Only statements, each closed by [exact] / a short proof, with [Print Assumptions] beneath.

    Vocabulary (Handshake/Model.v): a [world] is the certificate cache, the certificate storage
    and cfg.OnDemand (None = on-demand off; a decision function [f : nat -> name -> bool] whose
    first argument is the number of evaluations made so far, so that its answer may change
    between any two evaluations; or the implicit allowlist).  [handshake w h] is one
    GetCertificate call: the effects of the handshake goroutine, the effect lists of the
    goroutines it spawned (ARI refresh, background renewal), its result and the next world.
    [h_name h] is the normalised server name (None: idna error), [h_hit h] the cache lookup. *)
From CM Require Import Lib.Str Lib.QualSteps Gen.Consts Handshake.Model Handshake.Proofs Handshake.Check Handshake.Monitor Handshake.Template.
Open Scope N_scope.

(** "the policy answered yes about y, and nothing was asked again before position i" *)
Definition covered_by_yes (y : name) (g : list effect) (i : nat) : Prop :=
  exists j z, (j < i)%nat /\ nth_error g j = Some z /\ (z = EDecision y true \/ z = EAllow y true) /\
    forall k z', (j < k < i)%nat -> nth_error g k = Some z' -> is_eval z' = false.

(** F [gated]: while on-demand is enabled, in the effect list of any goroutine of any handshake, in
    any world (whose bundles are stored under the first subject of their certificate, as certmagic
    stores them):
    - every Issuer.Issue for a subject m is preceded in that same goroutine by a policy evaluation
      ABOUT m ITSELF (the subject the issuer is asked for, not merely the handshake's name) that
      answered yes and is the most recent evaluation, and m qualifies;
    - every read of a certificate bundle m is preceded likewise by a most recent yes about a
      qualifying name y of which m is a bundle key: y itself, y's wildcard variant
      (loadCertFromStorage's fallback), or the bundle of the certificate the handshake matched in the
      cache ([hit_key]: reloadManagedCertificate);
    - every name the policy is asked about is the handshake's own name, its wildcard variant, or
      the first subject of the matched certificate (the one a revoked certificate is replaced
      under, fix fba364d). *)
Theorem C02_gated : forall is_space w h own kids res w',
  handshake is_space w h = (own, kids, res, w') -> od_on w = true -> store_wf w ->
  forall g, In g (own :: kids) ->
  forall i x, nth_error g i = Some x ->
  (forall m, x = EIssue m -> qualifies is_space m = true /\ covered_by_yes m g i) /\
  (forall m, x = ELoad m -> exists n y, h_name h = Some n /\ qualifies is_space y = true /\
     covered_by_yes y g i /\ load_ok (hit_key w h) y m = true /\ In y (cands n (hit_key w h))).
Proof.
  intros is_space w h own kids res w' H D W g Hg i x Hi. split; intros m ->.
  - destruct (gated_positions is_space _ _ _ _ _ _ H D W g Hg i _ Hi eq_refl)
      as (n & y & j & z & A & B & F & C & E & Y & _ & G).
    cbn [fit1] in F. apply str_eqb_eq in F. subst y. split; [exact B|]. exists j, z. auto.
  - destruct (gated_positions is_space _ _ _ _ _ _ H D W g Hg i _ Hi eq_refl)
      as (n & y & j & z & A & B & F & C & E & Y & K & G).
    exists n, y. split; [exact A|]. split; [exact B|]. split; [exists j, z; auto|]. split; [exact F|].
    apply existsb_exists in K as (c & Hc & Ec). apply str_eqb_eq in Ec. subst c. exact Hc.
Qed.
Print Assumptions C02_gated.

(** the recorded answers are what the policy in force answers: a DecisionFunc answer is the
    function's value at some evaluation index not before the handshake began, an allowlist
    answer is membership (an empty allowlist is not enforced, as documented in the code) *)
Theorem C02_answers_truthful : forall is_space w h own kids res w',
  handshake is_space w h = (own, kids, res, w') ->
  forall g, In g (own :: kids) -> forall x, In x g ->
  match x with
  | EDecision m r => exists f k, w_od w = Some (PDecision f) /\ (w_evals w <= k)%nat /\ r = f k m
  | EAllow m r => exists l, w_od w = Some (PAllow l) /\ r = allow_ok l m
  | _ => True
  end.
Proof. intros is_space w h own kids res w' H g Hg x Hx. exact (answers_truthful is_space _ _ _ _ _ _ H g Hg x Hx). Qed.
Print Assumptions C02_answers_truthful.

(** when on-demand TLS is not enabled, handshakes never cause any issuance *)
Theorem C02_no_issue_without_on_demand : forall is_space w h own kids res w',
  handshake is_space w h = (own, kids, res, w') -> w_od w = None ->
  forall g, In g (own :: kids) -> forall s, ~ In (EIssue s) g.
Proof. exact no_issue_without_on_demand. Qed.
Print Assumptions C02_no_issue_without_on_demand.

(** both clauses for every handshake of every history: any sequence of handshakes interleaved with
    policy changes, storage deletions/additions by others (bundles stored under the first subject of
    their certificate), certificates ageing / being revoked / evicted ([op], [run]) *)
Theorem C02_every_history : forall is_space ops w o, Forall (op_wf) ops -> store_wf w ->
  In o (fst (run is_space w ops)) ->
  (od_on (ho_world o) = true ->
   forall g, In g (ho_own o :: ho_kids o) ->
   forall i x, nth_error g i = Some x ->
   (forall m, x = EIssue m -> qualifies is_space m = true /\ covered_by_yes m g i) /\
   (forall m, x = ELoad m -> exists n y, h_name (ho_hello o) = Some n /\ qualifies is_space y = true /\
      covered_by_yes y g i /\ load_ok (hit_key (ho_world o) (ho_hello o)) y m = true /\
      In y (cands n (hit_key (ho_world o) (ho_hello o))))) /\
  (w_od (ho_world o) = None ->
   forall g, In g (ho_own o :: ho_kids o) -> forall s, ~ In (EIssue s) g).
Proof.
  intros is_space ops w o OW W Ho. destruct (run_sound is_space ops w o Ho) as [w1 H].
  destruct (run_gated_ok is_space ops w OW W) as [_ WF]. rewrite Forall_forall in WF. specialize (WF o Ho).
  split.
  - intros D. exact (C02_gated is_space _ _ _ _ _ _ H D WF).
  - intros D. exact (no_issue_without_on_demand is_space _ _ _ _ _ _ H D).
Qed.
Print Assumptions C02_every_history.

(** concurrent handshakes: a handshake that waited for another one re-enters with loading
    disabled; it then causes no Issue and no Load, spawns nothing and leaves cache and storage
    alone — the effects of concurrent handshakes for a name are those of the worker *)
Theorem C02_waiter_effect_free : forall is_space fuel w h own kids res w',
  get_cert is_space fuel w h false = (own, kids, res, w') ->
  (forall x, In x own -> needs_gate x = false) /\ kids = [] /\
  w_cache w' = w_cache w /\ w_store w' = w_store w.
Proof.
  intros is_space fuel w h own kids res w' H.
  destruct (waiter_effect_free is_space _ _ _ _ _ _ _ H) as (A & B & C & D).
  split; [|auto]. intros x Hx. unfold noneed in A. rewrite forallb_forall in A.
  specialize (A x Hx). apply negb_true_iff in A. exact A.
Qed.
Print Assumptions C02_waiter_effect_free.

(** SubjectQualifiesForCert (the conjuncts are read from certificates.go on every run):
    exactly the non-blank names without leading or trailing dot, with '*' only if the name starts
    with "*." or is "*", and with none of the reject characters *)
Theorem C02_qualifies_spec : forall is_space s, qualifies is_space s = true <->
  (exists c, In c s /\ is_space c = false) /\
  ~ (exists r, s = 46 :: r) /\
  ~ (exists r, s = r ++ [46]) /\
  (In 42 s -> (exists r, s = 42 :: 46 :: r) \/ s = [42]) /\
  (forall c, In c s -> ~ In c reject_chars).
Proof. exact qualifies_spec. Qed.
Print Assumptions C02_qualifies_spec.

(** ... and it is the fixed, documented rule [qual_spec] by which the implementation's answers are
    judged in the correspondence check *)
Theorem C02_qualifies_is_documented_rule : forall is_space s,
  qualifies is_space s = qual_spec is_space s.
Proof. exact qualifies_is_spec. Qed.
Print Assumptions C02_qualifies_is_documented_rule.

(** the runtime monitor [spec_hs] that the correspondence check evaluates on the
    implementation's observed effects is a theorem of the model: on the observable part of the
    model's own effects it is always true *)
Theorem C02_monitor_holds_of_model : forall is_space w h own kids res w',
  handshake is_space w h = (own, kids, res, w') -> store_wf w ->
  spec_hs is_space (w_od w) (h_name h) (hit_key w h) (map (filter observable) (own :: kids)) = true.
Proof. exact spec_hs_model. Qed.
Print Assumptions C02_monitor_holds_of_model.

Theorem C02_monitor_every_history : forall is_space ops w, Forall op_wf ops -> store_wf w ->
  Forall (fun o => gated_ok is_space (od_on (ho_world o)) (h_name (ho_hello o))
                            (hit_key (ho_world o) (ho_hello o)) (ho_own o :: ho_kids o) = true)
         (fst (run is_space w ops)).
Proof. intros is_space ops w OW W. exact (proj1 (run_gated_ok is_space ops w OW W)). Qed.
Print Assumptions C02_monitor_every_history.

(** a handshake that runs alone returns without waiting: no goroutine of it ever sits in one of
    the three waiting selects of handshake.go (it could only be waiting for a channel it registered
    itself; the code recognises its own load and obtain channels [fixes 29c65de, a768045]).  This is
    the second clause of the monitor [Check.replay] evaluates on the implementation ([no_selfwait]);
    several handshakes at once are the subject of C13. *)
Theorem C02_lone_handshake_never_waits : forall is_space w h own kids res w',
  handshake is_space w h = (own, kids, res, w') -> no_selfwait (own :: kids) = true.
Proof. exact handshake_no_selfwait. Qed.
Print Assumptions C02_lone_handshake_never_waits.

(** every handshake ends with an error or a complete certificate, never with the empty certificate
    and a nil error (C03's clause; the on-demand paths are driven by this check only: third clause of
    the monitor [Check.replay] evaluates on the implementation) *)
Theorem C02_result_is_an_error_or_a_certificate : forall is_space w h own kids res w',
  handshake is_space w h = (own, kids, res, w') -> res <> REmpty.
Proof. exact handshake_result_not_empty. Qed.
Print Assumptions C02_result_is_an_error_or_a_certificate.

(** the literals of handshake.go that [gate]'s call sites, [almost_full] and the miss path of
    [get_cert] were modelled after are the ones in the source today (read by the translator on every
    run; a change breaks this proof) *)
Theorem C02_source_shape_is_the_modelled_one :
  hs_gate_require_args = [[false]; [true]; [true]] /\
  (hs_almost_full_num = 9 /\ hs_almost_full_den = 10)%nat /\
  hs_no_obtain_after_maintenance_error = true.
Proof. exact source_shape. Qed.
Print Assumptions C02_source_shape_is_the_modelled_one.

(** ** soundness of the whole monitor: the specification component of [Check.replay] (policy
    clause [spec_hs], no self-wait, an error or a complete certificate), evaluated on what the harness
    would record of a history that behaves exactly like the model, is true — for every world whose
    bundles are stored under their first subject and every history (handshakes interleaved with policy
    changes, storage and cache interference) *)
Theorem C02_monitor_sound_on_every_history : forall is_space ops w, Forall op_wf ops -> store_wf w ->
  snd (replay is_space w (self_wops is_space w ops)) = true.
Proof. exact monitor_sound. Qed.
Print Assumptions C02_monitor_sound_on_every_history.

(** ... and with its first component: on a history that behaves exactly like the model the check's
    verdict is "model and observation agree, specification holds" (both components of [replay]) *)
Theorem C02_check_accepts_every_model_history : forall is_space ops w, Forall op_wf ops -> store_wf w ->
  replay is_space w (self_wops is_space w ops) = (true, true).
Proof. exact model_agrees_with_itself. Qed.
Print Assumptions C02_check_accepts_every_model_history.

(** ** the policy a Config enforces (Handshake/Template.v: cfg.OnDemand is a pointer, Configs made
    from the template alias Default.OnDemand, Manage* records names in the OnDemandConfig pointed to) *)

(** with a DecisionFunc the implicit allowlist is irrelevant: the policy, and every answer of the gate,
    is the same whatever names have been recorded *)
Theorem C02_decision_func_makes_the_allowlist_irrelevant : forall is_space w f l1 l2 n req,
  policy_of_od (OdCfg (Some f) l1) = policy_of_od (OdCfg (Some f) l2) /\
  gate is_space (set_od w (Some (policy_of_od (OdCfg (Some f) l1)))) n req =
  gate is_space (set_od w (Some (policy_of_od (OdCfg (Some f) l2)))) n req.
Proof. intros. split; reflexivity. Qed.
Print Assumptions C02_decision_func_makes_the_allowlist_irrelevant.

(** a Config made from the template points to Default.OnDemand itself; Configs that point to the same
    OnDemandConfig enforce the same policy; and the names managed through ONE of them are on the list
    every OTHER one enforces, after any further sequence of New / Manage / Default changes *)
Theorem C02_template_configs_share_the_allowlist :
  (forall s, nth (length (t_cfgs s)) (t_cfgs (tstep s (TNew None))) None = t_default s) /\
  (forall s i j, nth i (t_cfgs s) None = nth j (t_cfgs s) None -> policy_of s i = policy_of s j) /\
  (forall s i j r names ops,
     nth_error (t_cfgs s) i = Some (Some r) -> nth_error (t_cfgs s) j = Some (Some r) ->
     (r < length (t_heap s))%nat ->
     exists od, nth_error (t_heap (trun (tstep s (TManage i names)) ops)) r = Some od /\
       policy_of (trun (tstep s (TManage i names)) ops) j = Some (policy_of_od od) /\
       forall n, In n names -> In n (od_allow od)).
Proof.
  split; [exact template_configs_alias_default|split; [exact aliased_configs_same_policy|]].
  intros s i j r names ops Hi Hj Hr. exact (managed_names_reach_every_aliased_config s i j r names ops Hi Hj Hr).
Qed.
Print Assumptions C02_template_configs_share_the_allowlist.

(** the statements of config.go / handshake.go that policy model rests on are the ones in the source
    today (translator item c02EmitC02PolicyShape; a change breaks this proof) *)
Theorem C02_policy_source_shape_is_the_modelled_one :
  hs_template_ondemand_aliased = true /\ hs_manage_records_allowlist = true /\ hs_decision_before_allowlist = true.
Proof. repeat split. Qed.
Print Assumptions C02_policy_source_shape_is_the_modelled_one.

(** non-vacuity: concrete worlds in which the hypotheses hold and the gated effects occur *)
Definition ex_name : name := [102; 111; 111; 46; 101; 120].   (* "foo.ex" *)
Definition ex_sp := tbl_space [].
(** first issuance: unknown name, decision function says yes *)
Example C02_ex_first_issuance :
  let w := World (Some (PDecision (fun _ _ => true))) 0 [] [] 0 1 in
  handshake ex_sp w (Hello (Some ex_name) None None MgrNone true false) =
    ([EDecision ex_name true; ELoad ex_name; ELoad (wild ex_name); EExists ex_name; EIssue ex_name; ELoad ex_name],
     [], RCert 1, World (w_od w) 0 [Cert 1 [ex_name] true false false false false None]
                        [(ex_name, Cert 1 [ex_name] true false false false false None)] 1 2).
Proof. vm_compute. reflexivity. Qed.
(** the witness of the fixed finding (class cached-due-storage-missing): cached, due, bundle gone,
    the policy now denies: the policy IS consulted, nothing is issued, the certificate is evicted *)
Example C02_ex_storage_missing_denied :
  let c := Cert 1 [ex_name] true true false false false None in
  let w := World (Some (PDecision (fun _ _ => false))) 0 [c] [] 0 2 in
  handshake ex_sp w (Hello (Some ex_name) (Some 1) None MgrNone true false) =
    ([EExists ex_name; EDecision ex_name false; EEvict 1], [], RCert 1, World (w_od w) 0 [] [] 1 2).
Proof. vm_compute. reflexivity. Qed.
(** renewal in the background: its own goroutine evaluates the policy before the Issue *)
Example C02_ex_background_renewal :
  let c := Cert 1 [ex_name] true true false false false None in
  let w := World (Some (PAllow [ex_name])) 0 [c] [(ex_name, c)] 0 2 in
  let '(own, kids, res, _) := handshake ex_sp w (Hello (Some ex_name) (Some 1) None MgrNone true false) in
  (own, kids, res) =
    ([EExists ex_name], [[EAllow ex_name true; ELoad ex_name; EIssue ex_name; ELoad ex_name]], RCert 1).
Proof. vm_compute. reflexivity. Qed.

(** on-demand off, cache almost full, the bundle vanishes between the load and the maintenance
    check (second witness of the fixed finding): the storage-missing branch is gated with
    requireOnDemand = true, so nothing is issued *)
Example C02_ex_vanish_od_off :
  let c := Cert 1 [ex_name] true true false false false None in
  let fill := map (fun i => Cert i [[120]] false false false false false None) [2;3;4;5;6;7;8;9;10] in
  let w := World None 10 fill [(ex_name, c)] 0 11 in
  let '(own, kids, res, _) := handshake ex_sp w (Hello (Some ex_name) None None MgrNone true true) in
  (own, kids, res) = ([ELoad ex_name; EExists ex_name; EEvict 1], [], RErr 3).
Proof. vm_compute. reflexivity. Qed.

(** the witness of finding C13-maintenance-failure-obtain (fixed), seen from C02: an expired
    certificate is in storage only, the decision function says yes at the first evaluation (cache
    miss) and no at the second (the renewal gate): the certificate is evicted, the handshake fails,
    and nothing is loaded or issued after the denial (before the fix the handshake went on to
    obtainOnDemandCertificate and read the bundle again) *)
Example C02_ex_loaded_expired_then_denied :
  let c := Cert 1 [ex_name] true true true false false None in
  let w := World (Some (PDecision (fun k _ => Nat.eqb k 0))) 0 [] [(ex_name, c)] 0 2 in
  let '(own, kids, res, w') := handshake ex_sp w (Hello (Some ex_name) None None MgrNone true false) in
  (own, kids, res, w_cache w') =
    ([EDecision ex_name true; ELoad ex_name; EExists ex_name; EDecision ex_name false; EEvict 1], [], RErr 3, []).
Proof. vm_compute. reflexivity. Qed.

(** on-demand off, nothing cached for the name, a certificate cached for FallbackServerName
    ("defaulted" by the cache lookup): the subject check, no storage access, the fallback certificate *)
Example C02_ex_fallback_certificate :
  let d := Cert 7 [[102]] false false false false false None in
  let w := World None 0 [d] [] 0 8 in
  handshake ex_sp w (Hello (Some ex_name) None (Some 7) MgrNone true false) = ([], [], RCert 7, w).
Proof. vm_compute. reflexivity. Qed.
(** ... but not when the policy refuses the name *)
Example C02_ex_fallback_not_after_denial :
  let d := Cert 7 [[102]] false false false false false None in
  let w := World (Some (PDecision (fun _ _ => false))) 0 [d] [] 0 8 in
  let '(own, kids, res, _) := handshake ex_sp w (Hello (Some ex_name) None (Some 7) MgrNone true false) in
  (own, kids, res) = ([EDecision ex_name false], [], RErr 2).
Proof. vm_compute. reflexivity. Qed.
(** an external manager (cfg.OnDemand.Managers) is asked before the policy; its certificate is
    served without any policy evaluation, storage access or issuance *)
Example C02_ex_manager_certificate :
  let w := World (Some (PDecision (fun _ _ => false))) 0 [] [] 0 2 in
  handshake ex_sp w (Hello (Some ex_name) None None (MgrCert 9) true false) = ([EManager ex_name], [], RCert 9, w).
Proof. vm_compute. reflexivity. Qed.
(** the managers yield nothing: the usual gated path follows *)
Example C02_ex_manager_empty_then_issuance :
  let w := World (Some (PAllow [])) 0 [] [] 0 1 in
  let '(own, kids, res, _) := handshake ex_sp w (Hello (Some ex_name) None None MgrEmpty true false) in
  (own, kids, res) =
    ([EManager ex_name; EAllow ex_name true; ELoad ex_name; ELoad (wild ex_name); EExists ex_name; EIssue ex_name; ELoad ex_name],
     [], RCert 1).
Proof. vm_compute. reflexivity. Qed.

(** the witness of the fixed finding C02-revoked-renewal-other-subject: a cached wildcard certificate
    is revoked, the handshake for foo.ex matches it; the policy permits foo.ex but not *.ex.  The
    policy is asked about *.ex, the subject forceRenew would renew: denied, evicted, nothing issued
    (before fix fba364d the policy was asked about foo.ex and the issuer about *.ex) *)
Example C02_ex_revoked_wildcard_other_subject :
  let wc := wild ex_name in
  let c := Cert 1 [wc] true false false true false None in
  let w := World (Some (PDecision (fun _ x => str_eqb x ex_name))) 0 [c] [(wc, c)] 0 2 in
  let '(own, kids, res, w') := handshake ex_sp w (Hello (Some ex_name) (Some 1) None MgrNone true false) in
  (own, kids, res, w_cache w') = ([], [[EDecision wc false; EEvict 1]], RCert 1, []).
Proof. vm_compute. reflexivity. Qed.
(** the hypotheses of [C02_gated] are satisfiable: that world is well-formed *)
Example C02_ex_store_wf :
  let wc := wild ex_name in
  let c := Cert 1 [wc] true false false true false None in
  store_wf (World None 0 [c] [(wc, c)] 0 2).
Proof.
  intros wc c k c'. unfold store_find; cbn [w_store assoc].
  destruct (str_eqb wc k) eqn:E; [|discriminate]. intros H; inversion H; subst.
  apply str_eqb_eq in E. exact E.
Qed.

(** the hypotheses of [C02_monitor_sound_on_every_history] and of the template theorem are satisfiable *)
Example C02_ex_monitor_sound_history :
  let c := Cert 1 [ex_name] true true true false false None in
  let w := World (Some (PDecision (fun k _ => Nat.eqb k 0))) 0 [] [(ex_name, c)] 0 2 in
  let ops := [OHandshake (Hello (Some ex_name) None None MgrNone true false); OStoreDel ex_name;
              OSetPolicy (Some (PAllow [ex_name])); OHandshake (Hello (Some ex_name) None None MgrNone true false)] in
  replay ex_sp w (self_wops ex_sp w ops) = (true, true).
Proof. vm_compute. reflexivity. Qed.
