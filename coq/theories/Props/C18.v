(** C18 — Storage cleaning removes only expired material and nothing else.

    [clean e o clk s0] is the model of certmagic.CleanStorage (Clean/Model.v): [e] = fault
    plan, cancellation point and back-end flavour, [o] = options, [clk] = the clock ([clk i] = what
    time.Now() shows when the run has made i Storage calls; the code reads it once for the interval
    check, once per staple and certificate it judges, once for the record; NOTHING is assumed about
    [clk]), [s0] = storage before. All statements hold for every storage content (any key tree, any
    values), every combination of options, every grace period and interval, every fault plan and
    cancellation point, every clock. [file s k] is the value of the terminal key k.
    [jt o clk s0 k] = deleting k is justified at one of the readings: exists i, justified o (clk i) s0 k. *)
From CM Require Import Lib.Str Lib.CleanSyntax Gen.Consts Clean.Model Clean.Proofs Clean.Prog Clean.Check Clean.SpecProofs Clean.Concurrent Clean.Interfere Clean.Effective Clean.EffectiveCerts Clean.Kill Clean.InterfereSeq Clean.ConcurrentKill Clean.ConcurrentForeign Clean.Final Clean.Final2 Clean.Final3 Clean.Final4.
From Coq Require Import String Ascii.
Open Scope Z_scope.

(** ** What may be deleted, spelled out: [justified o now s0 k] (the boolean used by the run-time
    monitor [spec_ok]) holds exactly if
    - staples are cleaned and k is (or lies under) a terminal key directly in ocsp/ whose value
      is unparseable or past NextUpdate, or
    - certificates are cleaned and k is (or lies under) X.crt, X.key or X.json for a file X.crt
      directly in a site folder certificates/<issuer>/<site>/ that parses as a certificate with
      now - expiresAt >= grace. *)
Theorem C18_justified_means_expired : forall o now s0 k,
  justified o now s0 k = true <-> may_delete o now s0 k.
Proof. exact justified_iff. Qed.
Print Assumptions C18_justified_means_expired.

(** ** deletes_only_expired / everything_else_unchanged / last_clean_only_write in one statement:
    afterwards every terminal key has its old value, or is gone and was justified, or is
    last_clean.json holding the record written by this run *)
Theorem C18_clean_post : forall e o clk s0 k,
  let s' := sto (snd (clean e o clk s0)) in
  (file s' k = file s0 k \/ (file s' k = None /\ exists i, justified o (clk i) s0 k = true)) \/
  (k = spec_last_clean /\ exists i, lookup s' k = Some (written (clk i) o)).
Proof. intros e o clk s0 k. exact (clean_post e o clk s0 k). Qed.
Print Assumptions C18_clean_post.

Theorem C18_deletes_only_expired : forall e o clk s0 k x,
  file s0 k = Some x -> file (sto (snd (clean e o clk s0))) k = None ->
  exists i, may_delete o (clk i) s0 k.
Proof.
  intros e o clk s0 k x H0 H1.
  destruct (clean_post e o clk s0 k) as [[E|[_ [i J]]]|[_ [i E]]]; [congruence | exists i; apply justified_iff; exact J |].
  unfold file in H1. rewrite E in H1. discriminate.
Qed.
Print Assumptions C18_deletes_only_expired.

(** with every reading of the clock at most t1 (e.g. the instant the run ended): expired /
    stale at t1 -- the comparisons are monotone in the clock *)
Theorem C18_deletes_only_expired_by_end : forall e o clk t1 s0 k x, (forall i, clk i <= t1) ->
  file s0 k = Some x -> file (sto (snd (clean e o clk s0))) k = None ->
  may_delete o t1 s0 k.
Proof.
  intros e o clk t1 s0 k x Hb H0 H1. apply justified_iff.
  destruct (clean_post e o clk s0 k) as [[E|[_ J]]|[_ [i E]]]; [congruence | exact (jt_bounded _ _ _ _ _ Hb J) |].
  unfold file in H1. rewrite E in H1. discriminate.
Qed.
Print Assumptions C18_deletes_only_expired.

Theorem C18_everything_else_unchanged : forall e o clk s0 k,
  (forall i, ~ may_delete o (clk i) s0 k) -> k <> spec_last_clean ->
  file (sto (snd (clean e o clk s0))) k = file s0 k.
Proof.
  intros e o clk s0 k Hn Hk.
  destruct (clean_post e o clk s0 k) as [[E|[_ [i J]]]|[E _]]; [exact E | | contradiction].
  exfalso. apply (Hn i). apply justified_iff. exact J.
Qed.
Print Assumptions C18_everything_else_unchanged.

Theorem C18_last_clean_only_write : forall e o clk s0 k x,
  file (sto (snd (clean e o clk s0))) k = Some x -> file (sto (snd (clean e o clk s0))) k <> file s0 k ->
  k = spec_last_clean /\ exists i, lookup (sto (snd (clean e o clk s0))) k = Some (written (clk i) o).
Proof.
  intros e o clk s0 k x H1 Hne.
  destruct (clean_post e o clk s0 k) as [[E|[E _]]|E]; [contradiction | congruence | exact E].
Qed.
Print Assumptions C18_last_clean_only_write.

(** ** never removes or alters ... *)
(** ... the assets of unexpired certificates (grace >= 0: not yet expired implies not expired for
    the grace period); also when X.crt is missing or unparseable *)
Theorem C18_live_assets_untouched : forall e o clk s0 base suf,
  site_assetb (base ++ spec_ext_crt) = true -> In suf asset_exts ->
  (forall i, match file s0 (base ++ spec_ext_crt) with
             | Some (_, c) => spec_expired (clk i) (grace o) c
             | None => false
             end = false) ->
  file (sto (snd (clean e o clk s0))) (base ++ suf) = file s0 (base ++ suf).
Proof. exact live_assets_untouched. Qed.
Print Assumptions C18_live_assets_untouched.

Theorem C18_unexpired_never_removed : forall e o clk s0 base suf v c na,
  0 <= grace o -> site_assetb (base ++ spec_ext_crt) = true -> In suf asset_exts ->
  file s0 (base ++ spec_ext_crt) = Some (v, c) -> as_cert c = Some na ->
  (forall i, clk i < expires_at na) ->
  file (sto (snd (clean e o clk s0))) (base ++ suf) = file s0 (base ++ suf).
Proof.
  intros e o clk s0 base suf v c na Hg Hb Hs Hf Hc Hlive.
  apply live_assets_untouched; [exact Hb | exact Hs|]. intros i. rewrite Hf. unfold spec_expired. rewrite Hc.
  apply Z.leb_gt. specialize (Hlive i). lia.
Qed.
Print Assumptions C18_unexpired_never_removed.

(** ... fresh staples *)
Theorem C18_fresh_staple_untouched : forall e o clk s0 k v c,
  child spec_ocsp k -> file s0 k = Some (v, c) -> (forall i, spec_stale (clk i) c = false) ->
  file (sto (snd (clean e o clk s0))) k = file s0 k.
Proof. exact fresh_staple_untouched. Qed.
Print Assumptions C18_fresh_staple_untouched.

(** ... account data, locks or any other key outside ocsp/ and certificates/ *)
Theorem C18_foreign_keys_untouched : forall e o clk s0 k,
  has_prefix ocsp_pfx k = false -> has_prefix certs_pfx k = false -> k <> spec_last_clean ->
  file (sto (snd (clean e o clk s0))) k = file s0 k.
Proof. exact foreign_keys_untouched. Qed.
Print Assumptions C18_foreign_keys_untouched.

(** ** does nothing if a cleaning was recorded more recently than the interval *)
Theorem C18_skips_when_recent : forall e o clk s0, (forall i, recent o (clk i) s0 = true) ->
  sto (snd (clean e o clk s0)) = s0 /\
  has_kind does_work (rev (lg (snd (clean e o clk s0)))) = false.
Proof. exact skip_when_recent. Qed.
Print Assumptions C18_skips_when_recent.

(** ** records when it ran *)
Theorem C18_records_run : forall e o clk s0, let log := rev (lg (snd (clean e o clk s0))) in
  fst (clean e o clk s0) = RNil -> stored_ok log = true \/ has_kind does_work log = false.
Proof. exact clean_records. Qed.
Print Assumptions C18_records_run.

Theorem C18_delete_then_record : forall e o clk s0, let log := rev (lg (snd (clean e o clk s0))) in
  has_kind (fun k => match k with KDelete => true | _ => false end) log = true ->
  has_kind (fun k => match k with KStore => true | _ => false end) log = true.
Proof. exact clean_delete_then_record. Qed.
Print Assumptions C18_delete_then_record.

(** records when it ran AND does nothing if recorded recently, across two cleanings (two cleaners, or the
    same one twice; own options, fault plans and clocks): if the first returned nil after doing work,
    a second one whose interval is positive and longer than the distance between any of its readings
    of the clock and any reading of the first does no work and leaves the storage as the first left it *)
Theorem C18_recorded_run_makes_next_skip : forall e1 o1 clk1 e2 o2 clk2 s0,
  fst (clean e1 o1 clk1 s0) = RNil ->
  has_kind does_work (rev (lg (snd (clean e1 o1 clk1 s0)))) = true ->
  0 < interval o2 -> (forall i j, clk2 i - clk1 j < interval o2) ->
  let s1 := sto (snd (clean e1 o1 clk1 s0)) in
  sto (snd (clean e2 o2 clk2 s1)) = s1 /\
  has_kind does_work (rev (lg (snd (clean e2 o2 clk2 s1)))) = false.
Proof. exact recorded_then_skip. Qed.
Print Assumptions C18_recorded_run_makes_next_skip.

(** ** runs under a cluster-wide lock *)
(** every storage call of a cleaning lies between taking and releasing the storage_clean lock;
    on every path (skip, abort, faults) the lock that was taken is released last *)
Theorem C18_runs_under_lock : forall e o clk s0,
  bracketedb (rev (lg (snd (clean e o clk s0)))) = true.
Proof. exact clean_bracketed. Qed.
Print Assumptions C18_runs_under_lock.

(** any number of cleaners, each running any number of cleanings, in any interleaving that a
    mutual-exclusion Locker admits: every storage call is made by the current lock holder, the
    lock is taken only when free, released only by its holder, and is free at the end *)
Theorem C18_cleaners_never_overlap : forall tr,
  (forall t, exists runs, proj t tr = thread_log runs) ->
  locker_ok None tr = true -> under_lock None tr = true.
Proof. exact cleaners_never_overlap. Qed.
Print Assumptions C18_cleaners_never_overlap.

(** consequently cleaners act one after the other; any sequence of cleanings (each with its own
    options, clock, faults) only ever deletes keys justified for one of them on the initial storage *)
Theorem C18_sequence_safe : forall runs s0 k, k <> spec_last_clean ->
  file (clean_seq runs s0) k = file s0 k \/
  (file (clean_seq runs s0) k = None /\
   exists r, In r runs /\ exists i, justified (r_opts r) (r_clk r i) s0 k = true).
Proof. exact clean_seq_post. Qed.
Print Assumptions C18_sequence_safe.

(** ** concurrent cleaners at call granularity (Clean/Concurrent.v): the body of a cleaning as a
    resumption over Storage calls is the model ... *)
Theorem C18_resumption_is_model : forall e clk o s,
  run e clk (clean_locked_prog o) s = clean_locked e o clk s.
Proof. exact run_clean_locked_prog. Qed.
Print Assumptions C18_resumption_is_model.

(** ... and for any number of cleaner threads (own options, clock, fault plan each), any initial
    storage and EVERY schedule of their individual Storage calls on the shared storage (Lock
    blocks while the lock is held): a thread is inside its critical section iff it holds the
    lock, and whenever the lock is free the storage is [clean_seq] of the completed cleanings in
    lock order -- concurrent cleaning is serialisable *)
Theorem C18_concurrent_serializable : forall s0 thr0 sched, init_ok thr0 ->
  let c := csteps (CS s0 None thr0) sched in
  exists done,
    Forall (fun r => exists t th0, thr0 t = Some th0 /\ r = run_of th0) done /\
    (cs_holder c = None -> cs_store c = clean_seq done s0) /\
    (forall t th p, cs_thr c t = Some th -> th_ph th = Locked p -> cs_holder c = Some t) /\
    (forall t, cs_holder c = Some t -> exists th p, cs_thr c t = Some th /\ th_ph th = Locked p).
Proof. exact concurrent_serial. Qed.
Print Assumptions C18_concurrent_serializable.

(** hence the property for concurrent cleaners: when all are finished, every key other than
    last_clean.json has its initial value or is gone and was justified for one of the cleaners *)
Theorem C18_concurrent_cleaners_safe : forall s0 thr0 sched, init_ok thr0 ->
  let c := csteps (CS s0 None thr0) sched in
  (forall t th, cs_thr c t = Some th -> exists r, th_ph th = Finished r) ->
  forall k, k <> spec_last_clean ->
  file (cs_store c) k = file s0 k \/
  (file (cs_store c) k = None /\
   exists t th0, thr0 t = Some th0 /\ exists i, justified (th_opts th0) (th_clk th0 i) s0 k = true).
Proof.
  intros s0 thr0 sched H0 c Hfin k Hk.
  destruct (concurrent_final s0 thr0 sched H0 Hfin) as (done & Hd & E0). unfold c. rewrite E0.
  destruct (clean_seq_post done s0 k Hk) as [E|[E (r & Hr & J)]]; [left; exact E|].
  right. split; [exact E|]. rewrite Forall_forall in Hd. destruct (Hd r Hr) as (t & th0 & Ht & ->).
  exists t, th0. split; [exact Ht | exact J].
Qed.
Print Assumptions C18_concurrent_cleaners_safe.

Theorem C18_no_deadlock : forall s0 thr0 sched, init_ok thr0 ->
  let c := csteps (CS s0 None thr0) sched in
  forall t th, cs_thr c t = Some th -> (forall r, th_ph th <> Finished r) ->
  exists t', cstep c t' <> c.
Proof. exact no_deadlock. Qed.
Print Assumptions C18_no_deadlock.

(** ** a cleaning while actors that are NOT cleaners use the storage (Clean/Interfere.v). The
    property's schedules are concurrent cleaners; an instance that obtains or renews a
    certificate does not take the storage_clean lock. What holds nevertheless:
    against ANY world -- arbitrary responses to the cleaner's calls: other writers between any
    two calls, a misbehaving back-end -- every Delete(k) a cleaning issues is warranted by what
    this very run has read before: k was listed in ocsp/ and loaded as an unparseable or stale
    staple; or k is X.crt|X.key|X.json for an X.crt listed in a listed site folder of a listed
    issuer and loaded as a certificate expired for the grace period; or k is a listed site
    folder that the two immediately preceding calls listed as empty and Stat'ed as non-terminal *)
Theorem C18_interference_deletes_warranted : forall o (W : Type) (wexec : act -> W -> resp * W) w,
  all_warranted o (fst (wrun W wexec (clean_locked_prog o) w [])).
Proof. exact deletes_warranted. Qed.
Print Assumptions C18_interference_deletes_warranted.

(** hence on a storage that honours the List contract, with any foreign operations (Store /
    Delete of anything, anywhere) applied just before any calls of the cleaner, for every
    storage content, fault plan and cancellation point: every Delete call of the cleaner
    addresses ocsp/<x>, certificates/<i>/<s>/<X>.crt|.key|.json (X.crt listed there), or a site
    folder certificates/<i>/<s> -- never account data, locks or any other key *)
Theorem C18_interference_deletes_in_namespace : forall e clk fs o s0 ev,
  In ev (lg (snd (cleani e fs o clk s0))) -> ev_kind ev = KDelete -> in_clean_namespace (ev_key ev).
Proof. exact cleani_deletes_in_namespace. Qed.
Print Assumptions C18_interference_deletes_in_namespace.

(** and at the level of the storage: a key outside ocsp/ and certificates/ (account data, locks,
    anything else) other than last_clean.json, whose own node no other actor changes, has after
    the cleaning the node it had before -- whatever the other actors do to other keys, at whatever
    moments, and whatever the content, faults, cancellation, clock *)
Theorem C18_interference_other_keys_untouched : forall e clk fs o s0 k,
  has_prefix ocsp_pfx k = false -> has_prefix certs_pfx k = false -> k <> spec_last_clean ->
  (forall i f, In (i, f) fs -> touches k f = false) ->
  lookup (sto (snd (cleani e fs o clk s0))) k = lookup s0 k.
Proof. intros e clk fs o s0 k H1 H2 H3 H4. exact (cleani_frame e clk fs o s0 k H1 H2 H3 H4). Qed.
Print Assumptions C18_interference_other_keys_untouched.

(** and for the assets of a live certificate: if X.crt holds a certificate that is not expired for the
    grace period at any reading of the clock, and no other actor writes or deletes X.crt, the asset
    in question (X.crt, X.key or X.json) or a key above them, then after the cleaning the asset has
    the node it had before -- whatever the others do meanwhile to other certificates (in the same
    issuer folder or not), to staples, to accounts, at whatever moments *)
Theorem C18_interference_live_assets_untouched : forall e clk fs o s0 base suf v c,
  site_assetb (base ++ spec_ext_crt) = true -> In suf asset_exts ->
  lookup s0 (base ++ spec_ext_crt) = Some (File v c) ->
  (forall i, spec_expired (clk i) (grace o) c = false) ->
  (forall i f, In (i, f) fs ->
     covers (fkey f) (base ++ spec_ext_crt) = false /\ covers (fkey f) (base ++ suf) = false) ->
  lookup (sto (snd (cleani e fs o clk s0))) (base ++ suf) = lookup s0 (base ++ suf).
Proof. exact cleani_live_frame. Qed.
Print Assumptions C18_interference_live_assets_untouched.

(** ** several actors at several instants, alongside several cleaners: a history is any number of cleanings (in the
    order in which the cleaners hold the lock; each with its own options, clock, fault plan) with any operations of
    other actors during each of them (at any of its calls, [ir_fs]) and between them ([ir_pre]). The two frame
    theorems hold for every such history. *)
Theorem C18_history_other_keys_untouched : forall k,
  has_prefix ocsp_pfx k = false -> has_prefix certs_pfx k = false -> k <> spec_last_clean ->
  forall runs s0,
  (forall r, In r runs -> (forall i f, In (i, f) (ir_fs r) -> touches k f = false) /\
                          (forall f, In f (ir_pre r) -> touches k f = false)) ->
  lookup (cleani_seq runs s0) k = lookup s0 k.
Proof. exact cleani_seq_frame. Qed.
Print Assumptions C18_history_other_keys_untouched.

Theorem C18_history_live_assets_untouched : forall base v c, site_assetb (base ++ spec_ext_crt) = true ->
  forall runs s0, lookup s0 (base ++ spec_ext_crt) = Some (File v c) ->
  (forall r, In r runs ->
     (forall i, spec_expired (ir_clk r i) (grace (ir_opts r)) c = false) /\
     (forall suf, In suf asset_exts ->
        (forall i f, In (i, f) (ir_fs r) -> covers (fkey f) (base ++ spec_ext_crt) = false /\ covers (fkey f) (base ++ suf) = false) /\
        (forall f, In f (ir_pre r) -> covers (fkey f) (base ++ spec_ext_crt) = false /\ covers (fkey f) (base ++ suf) = false))) ->
  forall suf, In suf asset_exts -> lookup (cleani_seq runs s0) (base ++ suf) = lookup s0 (base ++ suf).
Proof. exact cleani_seq_live. Qed.
Print Assumptions C18_history_live_assets_untouched.

(** without foreign operations the interfered cleaning is the model *)
Theorem C18_no_interference_is_model : forall e o clk s0, cleani e [] o clk s0 = clean e o clk s0.
Proof. exact cleani_nil. Qed.
Print Assumptions C18_no_interference_is_model.

(** ** the same, node by node (covers the directory nodes of the FileStorage flavour): a key
    keeps its node; or is gone and justified; or was a directory node certificates/<issuer>/<site>
    (certificates being cleaned) below which nothing is left; or is last_clean.json, written by a
    Store call of this run (which may have reported an error after taking effect) and not onto a directory *)
Theorem C18_clean_post_nodes : forall e o clk s0 k,
  let s' := snd (clean e o clk s0) in
  lookup (sto s') k = lookup s0 k \/
  (lookup (sto s') k = None /\ exists i, justified o (clk i) s0 k = true) \/
  (lookup (sto s') k = None /\ lookup s0 k = Some Dir /\ site_folderb k = true /\ do_certs o = true /\
   forall k', under k k' = true -> lookup (sto s') k' = None) \/
  (k = spec_last_clean /\ (exists i, lookup (sto s') k = Some (written (clk i) o)) /\ stored_any (lg s') = true /\
   lookup s0 k <> Some Dir).
Proof.
  intros e o clk s0 k. destruct (clean_post_nodes e o clk s0 k) as [[E|N J|N D Sf Ho G]|i E W St Nd]; eauto 10.
Qed.
Print Assumptions C18_clean_post_nodes.

(** ** not vacuous (effectiveness; not part of the property, which says "only"): a staple -- a terminal
    key directly in ocsp/ -- that is unparseable or past NextUpdate at every reading of the clock is
    gone, with everything below it, after a cleaning with staples on, no interval check, no storage
    fault and no cancellation (ocsp itself not being a file) *)
Theorem C18_stale_staples_removed : forall e o clk s0 a v c,
  no_faults e -> do_ocsp o = true -> interval o <= 0 ->
  (forall v' c', lookup s0 spec_ocsp <> Some (File v' c')) ->
  child spec_ocsp a -> file s0 a = Some (v, c) -> (forall i, spec_stale (clk i) c = true) ->
  forall k, covers a k = true -> lookup (sto (snd (clean e o clk s0))) k = None.
Proof. exact stale_staples_removed. Qed.
Print Assumptions C18_stale_staples_removed.

(** ** ... and the same for certificates: in a run with certificates on, no interval check, no storage fault and
    no cancellation, on a storage in which every X.crt directly in a site folder is a parseable certificate
    file ([crt_wf]; an unparseable one makes deleteExpiredCerts return at that point -- [ex_run_aborts_at_malformed])
    and certificates/, the issuer folder and the site folder are not files: X.crt, X.key and X.json
    ([trio]) of every certificate that is expired for the grace period at every reading of the clock are gone
    afterwards, with everything below them *)
Theorem C18_expired_cert_assets_removed : forall e o clk s0 ik sk a v c,
  no_faults e -> do_certs o = true -> interval o <= 0 -> crt_wf s0 ->
  notfile s0 spec_certs -> child spec_certs ik -> child ik sk -> notfile s0 ik -> notfile s0 sk ->
  child sk a -> seqb (path_ext a) spec_ext_crt = true -> file s0 a = Some (v, c) ->
  (forall i, spec_expired (clk i) (grace o) c = true) ->
  forall x, In x [a; trim_suffix spec_ext_crt a ++ spec_ext_key; trim_suffix spec_ext_crt a ++ spec_ext_json] ->
  forall k, covers x k = true -> lookup (sto (snd (clean e o clk s0))) k = None.
Proof. exact expired_cert_assets_removed. Qed.
Print Assumptions C18_expired_cert_assets_removed.

(** ... and a site folder in which everything is (or lies under) X.crt, X.key or X.json of such certificates IS
    removed: nothing is left at or below certificates/<issuer>/<site> (the emptied folder is deleted) *)
Theorem C18_expired_site_folder_removed : forall e o clk s0 ik sk,
  no_faults e -> do_certs o = true -> interval o <= 0 -> crt_wf s0 ->
  notfile s0 spec_certs -> child spec_certs ik -> child ik sk -> notfile s0 ik -> notfile s0 sk ->
  (forall k, under sk k = true -> lookup s0 k <> None ->
     exists a v c x, child sk a /\ seqb (path_ext a) spec_ext_crt = true /\ lookup s0 a = Some (File v c) /\
                     (forall i, spec_expired (clk i) (grace o) c = true) /\
                     In x [a; trim_suffix spec_ext_crt a ++ spec_ext_key; trim_suffix spec_ext_crt a ++ spec_ext_json] /\
                     covers x k = true) ->
  forall k, covers sk k = true -> lookup (sto (snd (clean e o clk s0))) k = None.
Proof. exact expired_site_folder_removed. Qed.
Print Assumptions C18_expired_site_folder_removed.

(** ** "expired longer ago than the grace period" in terms of the certificate's own NotAfter (an independent
    reading of the X.509 field), not of the code's [expiresAt]: what the cleaner may delete ([spec_expired],
    the clause of [justified]) is past its NotAfter by MORE than the grace period; and everything past it by
    the grace period plus one second qualifies *)
Theorem C18_expired_is_past_not_after : forall now gr c na, as_cert c = Some na ->
  (spec_expired now gr c = true -> gr < now - na) /\
  (gr + second <= now - na -> spec_expired now gr c = true).
Proof.
  intros now gr c na A. unfold spec_expired, expires_at. rewrite A.
  assert (S : 0 < second) by reflexivity.
  pose proof (Z.div_mod na second ltac:(lia)) as D. pose proof (Z.mod_pos_bound na second S) as B.
  rewrite Z.leb_le. split; intros H; nia.
Qed.
Print Assumptions C18_expired_is_past_not_after.

(** ** concurrent cleaners some of whom are killed, composed with the behaviour of the lock (Clean/ConcurrentKill.v): threads
    step call by call on the shared storage; a thread's process may die at any moment ([LKill]: no further call; a holder
    keeps the lock), and the lock of a DEAD holder expires ([LExpire]: FileStorage lock file stale after
    2 x lockFreshnessInterval, removed by the next contender -- C08_stale_recovers; a live holder's lock does not expire --
    C08_mutex_no_crash). EVERY schedule of calls, kills and expiries: a live cleaner is inside only while it holds the lock,
    the holder is inside or dead, and whenever the lock is free the storage is the sequential composition of the cleanings
    completed or cut short so far (a cleaning cut short at call n = the model under [with_kill e n]) *)
Theorem C18_concurrent_kill_serializable : forall s0 thr0 sched, kinit_ok thr0 ->
  let c := ksteps (KS s0 None thr0) sched in
  exists done,
    Forall (okrun thr0) done /\
    (ks_holder c = None -> ks_store c = clean_seq done s0) /\
    (forall t th p, ks_thr c t = Some th -> kt_ph th = KLocked p -> ks_holder c = Some t) /\
    (forall t, ks_holder c = Some t -> exists th, ks_thr c t = Some th /\
               ((exists p, kt_ph th = KLocked p) \/ kt_ph th = KDead)).
Proof. exact concurrent_kill_serial. Qed.
Print Assumptions C18_concurrent_kill_serializable.

(** hence, whoever dies whenever: with the lock free (all finished, or the dead holders' locks expired), every key other
    than last_clean.json has its initial value or is gone and justified for one of the cleaners *)
Theorem C18_concurrent_kill_safe : forall s0 thr0 sched k, kinit_ok thr0 -> k <> spec_last_clean ->
  let c := ksteps (KS s0 None thr0) sched in
  ks_holder c = None ->
  file (ks_store c) k = file s0 k \/
  (file (ks_store c) k = None /\
   exists t th0 i, thr0 t = Some th0 /\ justified (kt_opts th0) (kt_clk th0 i) s0 k = true).
Proof. exact concurrent_kill_safe. Qed.
Print Assumptions C18_concurrent_kill_safe.

(** ** everything at once (Clean/ConcurrentForeign.v): any number of cleaners stepping call by call, kills, lock expiries
    AND operations of other actors (no storage_clean lock) at any moment. No assumption on the schedule, none even on
    the lock. A key outside ocsp/ and certificates/ other than last_clean.json that none of the other actors' operations
    changes has, after ANY schedule, the node it had at the beginning ... *)
Theorem C18_every_schedule_other_keys_untouched : forall s0 q,
  has_prefix ocsp_pfx q = false -> has_prefix certs_pfx q = false -> q <> spec_last_clean ->
  forall thr0 sched,
  (forall t th, thr0 t = Some th -> kt_ph th = KFresh) ->
  (forall f, In (FOp f) sched -> touches q f = false) ->
  lookup (ks_store (kstepsf (KS s0 None thr0) sched)) q = lookup s0 q.
Proof. exact frame_all_schedules. Qed.
Print Assumptions C18_every_schedule_other_keys_untouched.

(** ... and so have X.crt, X.key, X.json of a certificate that is not expired for the grace period of any of the cleaners
    at any reading of their clocks, provided no other actor writes or deletes X.crt, the asset or a key above them --
    whatever the cleaners and the others do elsewhere, in whatever order, whoever dies *)
Theorem C18_every_schedule_live_assets_untouched : forall s0 base suf v c thr0,
  site_assetb (base ++ spec_ext_crt) = true -> In suf asset_exts ->
  lookup s0 (base ++ spec_ext_crt) = Some (File v c) ->
  (forall t th0, thr0 t = Some th0 -> forall i, spec_expired (kt_clk th0 i) (grace (kt_opts th0)) c = false) ->
  forall sched,
  (forall t th, thr0 t = Some th -> kt_ph th = KFresh) ->
  (forall f, In (FOp f) sched ->
     covers (fkey f) (base ++ spec_ext_crt) = false /\ covers (fkey f) (base ++ suf) = false) ->
  lookup (ks_store (kstepsf (KS s0 None thr0) sched)) (base ++ suf) = lookup s0 (base ++ suf).
Proof. exact live_all_schedules. Qed.
Print Assumptions C18_every_schedule_live_assets_untouched.

(** ** FINAL ROUND: clauses the monitor checks on the implementation, or that were added for seeded changes, as theorems
    about the model (Clean/Final.v) *)

(** "does nothing if a cleaning was recorded more recently than the interval" -- in particular when the record is dated in the
    FUTURE (clock skew between instances): at every reading, now - recorded < interval => storage untouched, no work *)
Theorem C18_record_within_interval_or_future_skips : forall e o clk s0 v c ts i0, 0 < interval o ->
  file s0 spec_last_clean = Some (v, c) -> as_clean c = Some (ts, i0) ->
  (forall i, clk i - ts < interval o) ->
  sto (snd (clean e o clk s0)) = s0 /\ has_kind does_work (rev (lg (snd (clean e o clk s0)))) = false.
Proof. exact recorded_within_interval_or_future_skips. Qed.
Print Assumptions C18_record_within_interval_or_future_skips.
Corollary C18_future_record_skips : forall e o clk s0 v c ts i0, 0 < interval o ->
  file s0 spec_last_clean = Some (v, c) -> as_clean c = Some (ts, i0) -> (forall i, clk i <= ts) ->
  sto (snd (clean e o clk s0)) = s0 /\ has_kind does_work (rev (lg (snd (clean e o clk s0)))) = false.
Proof. exact future_record_skips. Qed.
Print Assumptions C18_future_record_skips.

(** staples: NextUpdate ALONE decides -- whatever else the bytes read as (the identity of the value, a certificate, a record;
    status, ThisUpdate / midpoint, an embedded responder certificate are not part of the reading): not past NextUpdate at any
    reading => kept with its value under every fault plan; past it at every reading, or unparseable => gone in a fault-free run *)
Theorem C18_staple_fate_is_next_update : forall e o clk s0 a v ac ast acl, child spec_ocsp a ->
  file s0 a = Some (v, Cls ac ast acl) ->
  (forall nu, ast = Some nu -> (forall i, clk i <= nu) ->
     file (sto (snd (clean e o clk s0))) a = file s0 a) /\
  (no_faults e -> do_ocsp o = true -> interval o <= 0 -> notfile s0 spec_ocsp ->
   (ast = None \/ exists nu, ast = Some nu /\ forall i, nu < clk i) ->
   lookup (sto (snd (clean e o clk s0))) a = None).
Proof. exact staple_fate_is_next_update. Qed.
Print Assumptions C18_staple_fate_is_next_update.

(** certificates: the NotAfter of the certificate the file reads as (its FIRST PEM block -- the leaf, as certmagic stores
    bundles) alone decides, in terms of the X.509 field itself: not past it by more than the grace period at any reading =>
    X.crt, X.key, X.json keep their values under every fault plan, whatever else the file holds; past it by the grace period and
    a second at every reading => gone in a fault-free run *)
Theorem C18_cert_fate_is_not_after : forall e o clk s0 base v na ast acl,
  site_assetb (base ++ spec_ext_crt) = true ->
  file s0 (base ++ spec_ext_crt) = Some (v, Cls (Some na) ast acl) ->
  ((forall i, clk i - na <= grace o) ->
   forall suf, In suf asset_exts -> file (sto (snd (clean e o clk s0))) (base ++ suf) = file s0 (base ++ suf)) /\
  (forall ik sk, no_faults e -> do_certs o = true -> interval o <= 0 -> crt_wf s0 ->
   notfile s0 spec_certs -> child spec_certs ik -> child ik sk -> notfile s0 ik -> notfile s0 sk ->
   child sk (base ++ spec_ext_crt) ->
   (forall i, grace o + second <= clk i - na) ->
   forall suf, In suf asset_exts -> lookup (sto (snd (clean e o clk s0))) (base ++ suf) = None).
Proof. exact cert_fate_is_not_after. Qed.
Print Assumptions C18_cert_fate_is_not_after.

(** a Load error is not a reason to delete: against ANY world, every Delete of a cleaning comes after a SUCCESSFUL Load of the
    key that decided it (the staple itself; X.crt for X.crt, X.key, X.json: [related]) -- or is the Delete of a folder listed
    empty and Stat'ed as a folder *)
Theorem C18_deletes_follow_successful_loads : forall o (W : Type) (wexec : act -> W -> resp * W) w,
  let h := fst (wrun W wexec (clean_locked_prog o) w []) in
  forall k x, In (ADelete k, x) h ->
  (exists a v c, In (ALoad a, XLoad (LOk v c)) h /\ In k (related a)) \/ In (AStat k, XStat StatDir) h.
Proof. exact deletes_follow_successful_loads. Qed.
Print Assumptions C18_deletes_follow_successful_loads.

(** ... and on the storage: a key directly in ocsp/ that is not a file (a directory: Load fails; or nothing) keeps everything
    below it, under every fault plan *)
Theorem C18_not_a_file_under_ocsp_kept : forall e o clk s0 a k, child spec_ocsp a -> file s0 a = None ->
  covers a k = true -> file (sto (snd (clean e o clk s0))) k = file s0 k.
Proof. exact not_a_file_under_ocsp_kept. Qed.
Print Assumptions C18_not_a_file_under_ocsp_kept.

(** the monitor under interference, as far as the frame theorems reach: on the model's own observation of a cleaning with any
    foreign operations ([model_case_i]) the lock discipline holds, and the difference clause [diff_ok_f] holds for every key the
    two frame theorems speak about *)
Theorem C18_monitor_lock_discipline_under_interference : forall e fs o clk t0 t1 s0 t,
  under_lock None (lock_trace (model_case_i e fs o clk t0 t1 s0 t)) = true.
Proof. exact interference_lock_discipline. Qed.
Print Assumptions C18_monitor_lock_discipline_under_interference.
Theorem C18_monitor_sound_other_keys_under_interference : forall e fs o clk t0 t1 s0 t k,
  has_prefix ocsp_pfx k = false -> has_prefix certs_pfx k = false -> k <> spec_last_clean ->
  (forall i f, In (i, f) fs -> touches k f = false) ->
  diff_ok_f (model_case_i e fs o clk t0 t1 s0 t) (s0f (model_case_i e fs o clk t0 t1 s0 t)) k = true.
Proof. exact monitor_sound_other_keys. Qed.
Print Assumptions C18_monitor_sound_other_keys_under_interference.
Theorem C18_monitor_sound_live_assets_under_interference : forall e fs o clk t0 t1 s0 t base suf v c,
  site_assetb (base ++ spec_ext_crt) = true -> In suf asset_exts ->
  lookup s0 (base ++ spec_ext_crt) = Some (File v c) ->
  (forall i, spec_expired (clk i) (grace o) c = false) ->
  (forall i f, In (i, f) fs ->
     covers (fkey f) (base ++ spec_ext_crt) = false /\ covers (fkey f) (base ++ suf) = false) ->
  diff_ok_f (model_case_i e fs o clk t0 t1 s0 t) (s0f (model_case_i e fs o clk t0 t1 s0 t)) (base ++ suf) = true.
Proof. exact monitor_sound_live_assets. Qed.
Print Assumptions C18_monitor_sound_live_assets_under_interference.

(** the per-run clauses ([runs_ok]: a run that deletes goes on to store the record; a run that returns nil has stored it or done
    no work; a record more recent than the interval, or dated in the future, means no work) on the same observation, whatever the
    others do as long as they leave last_clean.json alone: every path through the work ends in the Store of the record *)
Theorem C18_monitor_runs_ok_under_interference : forall e fs o clk t0 t1 s0 t,
  (forall i, clk i <= t1) -> (forall i f, In (i, f) fs -> touches spec_last_clean f = false) ->
  runs_ok (model_case_i e fs o clk t0 t1 s0 t) (c_runs (model_case_i e fs o clk t0 t1 s0 t)) (rec0 s0) = true.
Proof. exact interference_runs_ok_untouched_record. Qed.
Print Assumptions C18_monitor_runs_ok_under_interference.

(** hence the monitor's verdict on the model under interference IS its difference clause: the only clause the model can fail is
    [diff_ok_f] on a key inside the cleaned namespaces that another actor wrote -- the check-then-delete window
    (C18_foreign_writer_refuted, known finding); everything else of [spec_ok] is proved for every foreign history *)
Theorem C18_monitor_verdict_under_interference_is_the_difference_clause : forall e fs o clk t0 t1 s0 t,
  (forall i, clk i <= t1) -> (forall i f, In (i, f) fs -> touches spec_last_clean f = false) ->
  let c := model_case_i e fs o clk t0 t1 s0 t in
  spec_ok c =
  match all_fops c with
  | [] => forallb (diff_ok c) (map fst (c_s0 c) ++ map fst (c_s1 c))
  | _ => forallb (diff_ok_f c (s0f c)) (map fst (c_s0 c) ++ map fst (s0f c) ++ map fst (c_s1 c))
  end.
Proof. exact interference_spec_ok_is_diff. Qed.
Print Assumptions C18_monitor_verdict_under_interference_is_the_difference_clause.

(** the monitor on a KILLED run (the clauses added with the kill: expiry event in [lock_trace], exemption in [runs_ok], replay of
    the first n calls): the observation of a cleaner that dies when its call n begins, inside the locked part -- the first n calls
    of the model's run under [with_kill e n], the storage it leaves -- satisfies the WHOLE monitor, for every clock in the bracket *)
Theorem C18_killed_run_satisfies_monitor : forall e n o clk t0 t1 s0 t, (forall i, t0 <= clk i <= t1) ->
  let log := rev (lg (snd (clean (with_kill e n) o clk s0))) in
  (1 <= n < List.length log)%nat -> (exists k, hd_error log = Some (Ev KLock k true)) ->
  spec_ok (killed_case e n o clk t0 t1 s0 t) = true.
Proof. intros e n o clk t0 t1 s0 t H log. exact (killed_satisfies_spec e n o clk t0 t1 s0 t H). Qed.
Print Assumptions C18_killed_run_satisfies_monitor.
Theorem C18_killed_run_replays : forall e n o now s0 t, kill_at e = None ->
  let st' := snd (clean (with_kill e n) o (fun _ => now) s0) in
  let c := Case (lfe e) s0 [RunRec t o (faults e) (efaults e) (cancel_at e) now now 9%N [] (pfaults e) (Some n)]
                (map (TEv t) (firstn n (rev (lg st')))) (sto st') in
  replay c (c_runs c) s0 = Some (sto st').
Proof. exact model_ok_refl_killed. Qed.
Print Assumptions C18_killed_run_replays.

(** ... and over the history the harness produces for every kill -- the dead cleaner's calls, the expiry of its lock, then the
    cleaning that follows on the storage it left: the lock discipline of the monitor holds *)
Theorem C18_killed_then_next_lock_discipline : forall e1 n o1 clk1 e2 o2 clk2 a0 a1 b0 b1 s0,
  let log1 := rev (lg (snd (clean (with_kill e1 n) o1 clk1 s0))) in
  (1 <= n < List.length log1)%nat -> (exists k, hd_error log1 = Some (Ev KLock k true)) ->
  under_lock None (lock_trace (killed_then_next_case e1 n o1 clk1 e2 o2 clk2 a0 a1 b0 b1 s0)) = true.
Proof. intros e1 n o1 clk1 e2 o2 clk2 a0 a1 b0 b1 s0 log1. exact (killed_then_next_lock_discipline e1 n o1 clk1 e2 o2 clk2 a0 a1 b0 b1 s0). Qed.
Print Assumptions C18_killed_then_next_lock_discipline.

(** what later cleanings DO finish after a death (Clean/Final3.v): a cleaning under any environment without partial Deletes -- in
    particular the model of a killed cleaner -- only removes whole subtrees and writes the record, so the hypotheses of the
    effectiveness theorem carry over to the storage it leaves ([clean_preserves]); the next fault-free cleaning removes X.crt, X.key,
    X.json of every certificate whose X.crt is STILL THERE and that is expired for the grace period at every reading of its clock
    (the counterpart of C18_orphans_after_kill_refuted at the end of this file: what is lost for good are the assets whose X.crt the
    dead cleaner had already deleted) *)
Theorem C18_next_cleaning_finishes_what_is_left : forall e1 n o1 clk1 e2 o2 clk2 s0 ik sk a v c,
  pfaults e1 = [] -> no_faults e2 -> do_certs o2 = true -> interval o2 <= 0 -> crt_wf s0 ->
  notfile s0 spec_certs -> child spec_certs ik -> child ik sk -> notfile s0 ik -> notfile s0 sk ->
  child sk a -> seqb (path_ext a) spec_ext_crt = true ->
  let s1 := sto (snd (clean (with_kill e1 n) o1 clk1 s0)) in
  file s1 a = Some (v, c) -> (forall i, spec_expired (clk2 i) (grace o2) c = true) ->
  forall x, In x [a; trim_suffix spec_ext_crt a ++ spec_ext_key; trim_suffix spec_ext_crt a ++ spec_ext_json] ->
  forall k, covers x k = true -> lookup (sto (snd (clean e2 o2 clk2 s1))) k = None.
Proof. exact next_cleaning_finishes_what_is_left. Qed.
Print Assumptions C18_next_cleaning_finishes_what_is_left.

(** "records when it ran" in the form the monitor uses it: a cleaning whose call log shows a SUCCESSFUL Store of the record leaves
    the record (a reading of its clock, its instance) in the storage; one that issued no Store leaves the record alone *)
Theorem C18_successful_store_leaves_the_record : forall e clk o s0,
  stored_ok (lg (snd (clean e o clk s0))) = true ->
  exists i, lookup (sto (snd (clean e o clk s0))) spec_last_clean = Some (written (clk i) o).
Proof. exact stored_ok_written. Qed.
Print Assumptions C18_successful_store_leaves_the_record.
Theorem C18_no_store_leaves_the_record_alone : forall e o clk s0,
  stored_any (lg (snd (clean e o clk s0))) = false ->
  lookup (sto (snd (clean e o clk s0))) spec_last_clean = lookup s0 spec_last_clean.
Proof. exact no_store_record_untouched. Qed.
Print Assumptions C18_no_store_leaves_the_record_alone.

(** the history form of the last sentence of the property as the monitor evaluates it ([runs_ok]: per run in lock order, carrying
    along a lower bound of the recorded time -- the start of the bracket of the last run with a successful Store; nothing once a
    Store reported an error, since it may or may not have taken effect): it holds of the model for any two cleanings one after
    the other, each with its own options, fault plan and clock within its bracket *)
Theorem C18_two_cleanings_satisfy_the_run_clauses : forall e1 o1 clk1 a0 a1 e2 o2 clk2 b0 b1 s0,
  (forall i, a0 <= clk1 i <= a1) -> (forall i, b0 <= clk2 i <= b1) ->
  runs_ok (seq2_case e1 o1 clk1 a0 a1 e2 o2 clk2 b0 b1 s0) (c_runs (seq2_case e1 o1 clk1 a0 a1 e2 o2 clk2 b0 b1 s0))
          (rec0 (c_s0 (seq2_case e1 o1 clk1 a0 a1 e2 o2 clk2 b0 b1 s0))) = true.
Proof. exact seq2_runs_ok. Qed.
Print Assumptions C18_two_cleanings_satisfy_the_run_clauses.

(** ** who cleans, read from the source on every run: nothing inside the package calls CleanStorage (there is no
    timer path in certmagic itself -- [Cache.maintainAssets] renews and staples only; the application, e.g. Caddy's
    cleanStorageRegularly, decides when to clean, with which storage and context), CleanStorage is the only user of
    deleteOldOCSPStaples and deleteExpiredCerts (so they always run under its storage_clean lock), and the only
    mutating call sites are two Deletes in each helper and the one Store of the record *)
Theorem C18_cleaning_only_through_CleanStorage :
  clean_users_CleanStorage = [] /\
  clean_users_deleteOldOCSPStaples = [spec_clean_storage_name] /\
  clean_users_deleteExpiredCerts = [spec_clean_storage_name] /\
  clean_sites_Delete = [0; 2; 2]%nat /\ clean_sites_Store = [1; 0; 0]%nat /\
  clean_sites_acquireLock = [1; 0; 0]%nat /\ clean_sites_releaseLock = [1; 0; 0]%nat /\
  clean_sites_Lock = [0; 0; 0]%nat /\ clean_sites_Unlock = [0; 0; 0]%nat.
Proof. exact consts_callers_ok. Qed.
Print Assumptions C18_cleaning_only_through_CleanStorage.

(** the file back-end's Delete is os.RemoveAll of the key's path -- recursive, as [remove] / [removep] model it -- and
    deleting a missing key is not an error *)
Theorem C18_file_delete_is_recursive :
  clean_fs_delete_fn = [111; 115; 46; 82; 101; 109; 111; 118; 101; 65; 108; 108]%N /\
  clean_fs_delete_arg = [115; 46; 70; 105; 108; 101; 110; 97; 109; 101; 40; 107; 101; 121; 41]%N /\
  clean_fs_delete_missing_ok = true.
Proof. exact consts_fs_delete_ok. Qed.
Print Assumptions C18_file_delete_is_recursive.

(** ** a cleaner that is KILLED while it holds the storage_clean lock (its process dies when its call number n
    begins; [cleank]: the resumption stops, nothing is released -- on FileStorage the lock file stays, goes stale
    after 2 x lockFreshnessInterval and is removed by the next cleaner, C08_stale_recovers): the storage it leaves is
    the storage the model [clean] leaves under the environment [with_kill e n] (all calls from number n on fail
    without effect), and its calls are the first calls of that run. Hence every theorem above, each of which holds
    for EVERY environment, describes what a killed cleaner leaves behind. *)
Theorem C18_killed_cleaner_is_model : forall e n clk, kill_at e = None -> forall o s0,
  sto (cleank e n o clk s0) = sto (snd (clean (with_kill e n) o clk s0)) /\
  exists rest, lg (snd (clean (with_kill e n) o clk s0)) = rest ++ lg (cleank e n o clk s0).
Proof. exact killed_is_model. Qed.
Print Assumptions C18_killed_cleaner_is_model.

(** ... and the cleaning that follows once the dead holder's lock has expired cleans that storage: after both,
    every key other than last_clean.json has its initial value or is gone and justified for one of the two *)
Theorem C18_killed_then_cleaned_safe : forall e1 n o1 clk1 e2 o2 clk2 s0 k,
  kill_at e1 = None -> k <> spec_last_clean ->
  let s1 := sto (cleank e1 n o1 clk1 s0) in
  let s2 := sto (snd (clean e2 o2 clk2 s1)) in
  file s2 k = file s0 k \/
  (file s2 k = None /\
   ((exists i, justified o1 (clk1 i) s0 k = true) \/ (exists i, justified o2 (clk2 i) s0 k = true))).
Proof. exact killed_then_cleaned_safe. Qed.
Print Assumptions C18_killed_then_cleaned_safe.

(** ** the tie to the source text (translator, every run): the literals and comparison operators
    ([consts_ok]) and the control-flow shape ([consts_shape_ok]) that harness/cmd/consts/c18.go reads
    from maintain.go are the ones the model is written with -- a changed literal, operator, step
    order or error branch makes this theorem (and, for the literals, every theorem above) fail *)
Theorem C18_source_text_is_modelled :
  (clean_ext_crt = spec_ext_crt /\ clean_trim_suffix = spec_ext_crt /\
   clean_related_suffixes = [spec_ext_key; spec_ext_json] /\
   clean_grace_cmp = CmpGe /\ clean_interval_cmp = CmpLt /\ clean_staple_cmp = CmpGt /\
   clean_lock_name = spec_lock /\ clean_storage_key = spec_last_clean /\
   prefix_certs = spec_certs /\ prefix_ocsp = spec_ocsp) /\
  (clean_steps = spec_steps /\
   clean_staple_load_error_aborts = false /\ clean_crt_errors_abort = [true; true; true] /\
   clean_folder_delete_error_aborts = true /\ clean_list_errors_abort = [true; false; false; false] /\
   clean_pem_type = [67; 69; 82; 84; 73; 70; 73; 67; 65; 84; 69]%N (* "CERTIFICATE" *) /\
   clean_folder_empty_cmp = CmpEq /\ clean_folder_guard = true /\
   clean_expires_trunc = second /\ clean_expires_add = second).
Proof. split; [exact consts_ok | exact consts_shape_ok]. Qed.
Print Assumptions C18_source_text_is_modelled.

(** ** the run-time monitor is the theorems' statement: for every input, the observation the
    model itself produces (its result, its call log as a one-cleaner trace, its final storage)
    passes [Check.spec_ok] -- the boolean that ./check evaluates on the implementation's
    observations -- and [Check.replay] (the model<->implementation comparison) accepts it *)
Theorem C18_model_satisfies_monitor : forall e o clk t0 t1 s0 t, (forall i, t0 <= clk i <= t1) ->
  spec_ok (model_case e o clk t0 t1 s0 t) = true.
Proof. exact model_satisfies_spec. Qed.
Print Assumptions C18_model_satisfies_monitor.

(** ** Examples: the hypotheses are satisfiable and the conclusions are not vacuous *)
Fixpoint s2k (s : string) : str :=
  match s with
  | EmptyString => []
  | String a r => N.of_nat (nat_of_ascii a) :: s2k r
  end.
Definition T : Z := 1790000000 * second.           (* "now" *)
Definition day : Z := 86400 * second.
Definition at_ (t : Z) : nat -> Z := fun _ => t.     (* a clock standing still *)
(** a clock advancing 3 ms per Storage call *)
Definition ticking (t : Z) : nat -> Z := fun i => t + Z.of_nat i * 3000000.
Definition plain : cls := Cls None None None.
Definition crt (na : Z) : cls := Cls (Some na) None None.
Definition stp (nu : Z) : cls := Cls None (Some nu) None.
Definition ex_store : store :=
  [ (s2k "certificates/iss/live.example/live.example.crt", File 0 (crt (T + 30 * day)));
    (s2k "certificates/iss/live.example/live.example.key", File 1 plain);
    (s2k "certificates/iss/live.example/live.example.json", File 2 plain);
    (s2k "certificates/iss/dead.example/dead.example.crt", File 3 (crt (T - 31 * day)));
    (s2k "certificates/iss/dead.example/dead.example.key", File 4 plain);
    (s2k "certificates/iss/dead.example/dead.example.json", File 2 plain);
    (s2k "certificates/iss/grace.example/grace.example.crt", File 5 (crt (T - 29 * day)));
    (s2k "certificates/iss/grace.example/grace.example.key", File 6 plain);
    (s2k "certificates/iss/bad.example/bad.example.crt", File 7 plain);
    (s2k "certificates/iss/bad.example/bad.example.key", File 8 plain);
    (s2k "certificates/iss/stray.txt", File 9 plain);
    (s2k "ocsp/a-fresh", File 10 (stp (T + day)));
    (s2k "ocsp/a-stale", File 11 (stp (T - day)));
    (s2k "ocsp/a-corrupt", File 12 plain);
    (s2k "acme/ca/users/u/u.key", File 13 plain);
    (s2k "locks/issue_cert_x.lock", File 14 plain);
    (s2k "last_clean.json", File 15 (Cls None None (Some (T - 2 * day, s2k "other")))) ].
Definition ex_env : env := Env [] [] None true [] None.
Definition ex_opts : opts := Opts (1 * day) true true (30 * day) (s2k "me").

(** what a cleaning does to it: the long-expired certificate's three assets and the two bad
    staples go, last_clean.json is rewritten, everything else stays.
    NB the unparseable bad.example.crt makes deleteExpiredCerts return an error at that point
    (sites are visited in sorted order: bad, dead, grace, live) -- so dead.example, which comes
    later, is NOT cleaned in this run; with bad.example removed it is. *)
Example ex_run_aborts_at_malformed :
  map fst (sto (snd (clean ex_env ex_opts (at_ T) ex_store))) =
  map s2k [ "last_clean.json";
            "certificates/iss/live.example/live.example.crt"; "certificates/iss/live.example/live.example.key";
            "certificates/iss/live.example/live.example.json";
            "certificates/iss/dead.example/dead.example.crt"; "certificates/iss/dead.example/dead.example.key";
            "certificates/iss/dead.example/dead.example.json";
            "certificates/iss/grace.example/grace.example.crt"; "certificates/iss/grace.example/grace.example.key";
            "certificates/iss/bad.example/bad.example.crt"; "certificates/iss/bad.example/bad.example.key";
            "certificates/iss/stray.txt"; "ocsp/a-fresh"; "acme/ca/users/u/u.key"; "locks/issue_cert_x.lock" ]%string.
Proof. vm_compute. reflexivity. Qed.

Definition ex_store2 : store :=
  filter (fun en => negb (has_prefix (s2k "certificates/iss/bad.example") (fst en))) ex_store.
Example ex_run_deletes_expired :
  map fst (sto (snd (clean ex_env ex_opts (at_ T) ex_store2))) =
  map s2k [ "last_clean.json";
            "certificates/iss/live.example/live.example.crt"; "certificates/iss/live.example/live.example.key";
            "certificates/iss/live.example/live.example.json";
            "certificates/iss/grace.example/grace.example.crt"; "certificates/iss/grace.example/grace.example.key";
            "certificates/iss/stray.txt"; "ocsp/a-fresh"; "acme/ca/users/u/u.key"; "locks/issue_cert_x.lock" ]%string
  /\ fst (clean ex_env ex_opts (at_ T) ex_store2) = RNil
  /\ lookup (sto (snd (clean ex_env ex_opts (at_ T) ex_store2))) spec_last_clean = Some (written T ex_opts).
Proof. vm_compute. repeat split; reflexivity. Qed.

(** hypotheses of C18_deletes_only_expired / may_delete are met by the deleted keys *)
Example ex_justified :
  justified ex_opts T ex_store2 (s2k "certificates/iss/dead.example/dead.example.key") = true /\
  justified ex_opts T ex_store2 (s2k "ocsp/a-corrupt") = true /\
  justified ex_opts T ex_store2 (s2k "certificates/iss/grace.example/grace.example.key") = false /\
  justified ex_opts T ex_store2 (s2k "certificates/iss/stray.txt") = false /\
  justified ex_opts T ex_store2 (s2k "ocsp/a-fresh") = false.
Proof. vm_compute. repeat split; reflexivity. Qed.

(** hypotheses of C18_unexpired_never_removed / C18_live_assets_untouched *)
Example ex_live_hyps :
  let base := s2k "certificates/iss/live.example/live.example" in
  site_assetb (base ++ spec_ext_crt) = true /\
  file ex_store (base ++ spec_ext_crt) = Some (0, crt (T + 30 * day)) /\ T < expires_at (T + 30 * day) /\
  0 <= grace ex_opts.
Proof. repeat split; vm_compute; first [reflexivity | discriminate]. Qed.
(** ... and of the "expired but within grace" and "unparseable" cases *)
Example ex_grace_hyps :
  match file ex_store (s2k "certificates/iss/grace.example/grace.example" ++ spec_ext_crt) with
  | Some (_, c) => spec_expired T (grace ex_opts) c | None => false end = false /\
  match file ex_store (s2k "certificates/iss/bad.example/bad.example" ++ spec_ext_crt) with
  | Some (_, c) => spec_expired T (grace ex_opts) c | None => false end = false.
Proof. vm_compute. split; reflexivity. Qed.

Example ex_fresh_staple_hyps :
  child spec_ocsp (s2k "ocsp/a-fresh") /\ spec_stale T (stp (T + day)) = false.
Proof. split; [exists (s2k "a-fresh"); split; reflexivity | reflexivity]. Qed.

Example ex_foreign_hyps :
  has_prefix ocsp_pfx (s2k "acme/ca/users/u/u.key") = false /\
  has_prefix certs_pfx (s2k "acme/ca/users/u/u.key") = false /\
  has_prefix certs_pfx (s2k "locks/issue_cert_x.lock") = false /\
  has_prefix certs_pfx (s2k "certificates.txt") = false.
Proof. vm_compute. repeat split; reflexivity. Qed.

(** hypothesis of C18_skips_when_recent: the same storage, cleaned 2 days ago, interval 3 days *)
Example ex_recent : recent (Opts (3 * day) true true 0 []) T ex_store = true /\
                    recent ex_opts T ex_store = false.
Proof. vm_compute. split; reflexivity. Qed.

(** hypotheses of C18_cleaners_never_overlap: two cleaners, the second gets the lock after the first *)
Definition ex_trace : list tev :=
  map (TEv 0) (rev (lg (snd (clean ex_env ex_opts (at_ T) ex_store2)))) ++
  map (TEv 1) (rev (lg (snd (clean ex_env ex_opts (at_ (T + 1)) (sto (snd (clean ex_env ex_opts (at_ T) ex_store2))))))).
Example ex_trace_hyps :
  locker_ok None ex_trace = true /\ under_lock None ex_trace = true /\
  proj 0 ex_trace = thread_log [(Run ex_env ex_opts (at_ T), ex_store2)] /\ (List.length ex_trace > 20)%nat.
Proof. vm_compute. repeat split; try reflexivity. repeat constructor. Qed.

(** hypotheses of C18_recorded_run_makes_next_skip for these two cleanings *)
Example ex_recorded_hyps :
  fst (clean ex_env ex_opts (at_ T) ex_store2) = RNil /\
  has_kind does_work (rev (lg (snd (clean ex_env ex_opts (at_ T) ex_store2)))) = true /\
  0 < interval ex_opts /\ (forall i j : nat, at_ (T + 1) i - at_ T j < interval ex_opts).
Proof. repeat split; try (vm_compute; reflexivity). Qed.

(** the second of them skips (recorded by the first) *)
Example ex_second_skips :
  has_kind does_work (proj 1 ex_trace) = false /\ has_kind mutates (proj 0 ex_trace) = true.
Proof. vm_compute. split; reflexivity. Qed.

(** three concurrent cleaners on the example storage under a round-robin schedule: thread 0 gets
    the lock and cleans, 1 and 2 are blocked meanwhile, then skip (recorded by thread 0) *)
Definition ex_thr0 : nat -> option thr :=
  fun t => if (t <? 3)%nat then Some (Thr ex_env ex_opts (at_ (T + Z.of_nat t)) Fresh []) else None.
Definition ex_sched : list nat := List.concat (List.repeat [0; 1; 2]%nat 60).
Definition is_finished (c : cstate) (t : nat) : bool :=
  match cs_thr c t with Some th => match th_ph th with Finished _ => true | _ => false end | None => false end.
Definition ex_c : cstate := csteps (CS ex_store2 None ex_thr0) ex_sched.
Definition ex_c1 : cstate := csteps (CS ex_store2 None ex_thr0) (firstn 30 ex_sched).
Example ex_concurrent_init : init_ok ex_thr0.
Proof.
  intros t th. unfold ex_thr0. destruct (t <? 3)%nat; [|discriminate]. intros H.
  (* NB [injection H] on this equation does not terminate in reasonable time (it normalises the
     clock term); [congruence] does *)
  assert (E : th = Thr ex_env ex_opts (at_ (T + Z.of_nat t)) Fresh []) by congruence.
  rewrite E. split; reflexivity.
Qed.
Example ex_concurrent_end :
  (is_finished ex_c 0%nat, is_finished ex_c 1%nat, is_finished ex_c 2%nat, cs_holder ex_c) = (true, true, true, None).
Proof. vm_compute. reflexivity. Qed.
Example ex_concurrent_store :
  map fst (cs_store ex_c) = map fst (sto (snd (clean ex_env ex_opts (at_ T) ex_store2))).
Proof. vm_compute. reflexivity. Qed.
(** part-way through, thread 0 is inside and the others wait *)
Example ex_concurrent_mid :
  (cs_holder ex_c1, is_finished ex_c1 1%nat, is_finished ex_c1 2%nat) = (Some 0%nat, false, false).
Proof. vm_compute. reflexivity. Qed.

(** ** Limit, stated (outside the property's schedules: the other actor is not a cleaner): the
    folder removal is not atomic with the emptiness test. FileStorage flavour; the site folder of
    a long-expired certificate is emptied (calls 5-7), listed empty (8), Stat'ed (9); just before
    call 10 = Delete(site folder) another instance stores a fresh, unexpired certificate into that
    folder; Delete is recursive: the fresh certificate is gone. *)
Definition ex_fs_store : store :=
  [ (s2k "certificates", Dir); (s2k "certificates/iss", Dir); (s2k "certificates/iss/dead.example", Dir);
    (s2k "certificates/iss/dead.example/dead.example.crt", File 3 (crt (T - 31 * day)));
    (s2k "certificates/iss/dead.example/dead.example.key", File 4 plain);
    (s2k "certificates/iss/dead.example/dead.example.json", File 2 plain);
    (s2k "acme/ca/users/u/u.key", File 13 plain) ].
Definition ex_renewed : key := s2k "certificates/iss/dead.example/dead.example.crt".
Definition ex_opts0 : opts := Opts 0 false true (30 * day) (s2k "me").
Theorem C18_foreign_writer_refuted : exists e fs o clk s0 k v c na,
  fs = [(10%nat, FPut k (File v c))] /\ as_cert c = Some na /\ (forall i, clk i < expires_at na) /\ 0 <= grace o /\
  fst (cleani e fs o clk s0) = RNil /\
  file (sto (snd (cleani e fs o clk s0))) k = None.
Proof.
  exists ex_env, [(10%nat, FPut ex_renewed (File 77 (crt (T + 90 * day))))], ex_opts0, (at_ T), ex_fs_store,
         ex_renewed, 77, (crt (T + 90 * day)), (T + 90 * day).
  split; [reflexivity|]. split; [reflexivity|]. split; [intros i; reflexivity|].
  vm_compute. repeat split; try reflexivity; discriminate.
Qed.
Print Assumptions C18_foreign_writer_refuted.

(** the same write two calls earlier (before the second listing) is seen and survives; and the
    Delete calls of the refuting run are all in the cleaned namespaces *)
Example ex_foreign_writer_seen :
  file (sto (snd (cleani ex_env [(8%nat, FPut ex_renewed (File 77 (crt (T + 90 * day))))] ex_opts0 (at_ T) ex_fs_store))) ex_renewed
  = Some (77, crt (T + 90 * day)).
Proof. vm_compute. reflexivity. Qed.
(** hypotheses of C18_interference_other_keys_untouched for the account key in the refuting run *)
Example ex_frame_hyps :
  let k := s2k "acme/ca/users/u/u.key" in
  has_prefix ocsp_pfx k = false /\ has_prefix certs_pfx k = false /\ k <> spec_last_clean /\
  touches k (FPut ex_renewed (File 77 (crt (T + 90 * day)))) = false /\
  lookup ex_fs_store k = Some (File 13 plain).
Proof. vm_compute. repeat split; try reflexivity. discriminate. Qed.
(** hypotheses of C18_interference_live_assets_untouched: a live certificate next to the dying one,
    the other actor renewing the dying one in the window; the live key file is where it was *)
Definition ex_fs_store2 : store :=
  ex_fs_store ++
  [ (s2k "certificates/iss/live.example", Dir);
    (s2k "certificates/iss/live.example/live.example.crt", File 30 (crt (T + 30 * day)));
    (s2k "certificates/iss/live.example/live.example.key", File 31 plain) ].
Example ex_live_frame_hyps :
  let base := s2k "certificates/iss/live.example/live.example" in
  let f := FPut ex_renewed (File 77 (crt (T + 90 * day))) in
  site_assetb (base ++ spec_ext_crt) = true /\
  lookup ex_fs_store2 (base ++ spec_ext_crt) = Some (File 30 (crt (T + 30 * day))) /\
  spec_expired T (grace ex_opts0) (crt (T + 30 * day)) = false /\
  covers (fkey f) (base ++ spec_ext_crt) = false /\ covers (fkey f) (base ++ spec_ext_key) = false /\
  lookup (sto (snd (cleani ex_env [(10%nat, f)] ex_opts0 (at_ T) ex_fs_store2))) (base ++ spec_ext_key)
    = Some (File 31 plain).
Proof. vm_compute. repeat split; reflexivity. Qed.
Example ex_foreign_writer_calls :
  map (fun ev => (opk_code (ev_kind ev), ev_ok ev))
      (rev (lg (snd (cleani ex_env [(10%nat, FPut ex_renewed (File 77 (crt (T + 90 * day))))] ex_opts0 (at_ T) ex_fs_store))))
  = [(0, true); (3, true); (3, true); (3, true); (2, true); (5, true); (5, true); (5, true);
     (3, true); (4, true); (5, true); (6, true); (1, true)]%N.
Proof. vm_compute. reflexivity. Qed.

(** C18_interference_deletes_warranted is not vacuous: the history of a cleaning (here in the
    honest world, W = the model's storage) contains Deletes -- a stale staple, the three assets of
    the expired certificate, the emptied site folder -- and each is warranted *)
Definition ex_opts1 : opts := Opts 0 true true (30 * day) (s2k "me").
Definition ex_hist : hist :=
  fst (wrun st (exec ex_env (ticking T)) (clean_locked_prog ex_opts1)
            (St ((s2k "ocsp/a-stale", File 11 (stp (T - day))) :: ex_fs_store) []) []).
Definition is_delete (x : act * resp) : bool := match fst x with ADelete _ => true | _ => false end.
Example ex_history_has_deletes :
  List.length (filter is_delete ex_hist) = 5%nat /\ List.length ex_hist = 19%nat.
Proof. vm_compute. split; reflexivity. Qed.
Example ex_history_warranted : all_warranted ex_opts1 ex_hist.
Proof. exact (deletes_warranted ex_opts1 st (exec ex_env (ticking T)) _). Qed.

(** the clock is read where the code reads it: a staple whose NextUpdate lies 5 ms after the start of
    the run survives under a clock that stands still and is deleted under one that advances 3 ms per
    call (it is judged after the 3rd call); C18_deletes_only_expired names that reading *)
Definition ex_tick_store : store := [ (s2k "ocsp/a-edge", File 21 (stp (T + 5000000))) ].
Example ex_clock_is_read_per_judgement :
  file (sto (snd (clean ex_env ex_opts1 (at_ T) ex_tick_store))) (s2k "ocsp/a-edge") = Some (21, stp (T + 5000000)) /\
  file (sto (snd (clean ex_env ex_opts1 (ticking T) ex_tick_store))) (s2k "ocsp/a-edge") = None /\
  justified ex_opts1 (ticking T 3) ex_tick_store (s2k "ocsp/a-edge") = true /\
  justified ex_opts1 (ticking T 1) ex_tick_store (s2k "ocsp/a-edge") = false.
Proof. vm_compute. repeat split; reflexivity. Qed.

(** a call that takes effect and then reports an error (a time-out after the back-end did the work):
    the Delete of the emptied site folder (call 10) removes it and deleteExpiredCerts returns all the
    same; the Store of the record (call 11) writes it and CleanStorage reports the error -- the
    theorems above cover these runs (the only effects are still justified deletions and the record) *)
Example ex_effect_then_error :
  let e1 := Env [] [10%nat] None true [] None in
  let e2 := Env [] [11%nat] None true [] None in
  lookup (sto (snd (clean e1 ex_opts0 (at_ T) ex_fs_store))) (s2k "certificates/iss/dead.example") = None /\
  fst (clean e1 ex_opts0 (at_ T) ex_fs_store) = RNil /\
  fst (clean e2 ex_opts0 (at_ T) ex_fs_store) = RErrStore /\
  lookup (sto (snd (clean e2 ex_opts0 (at_ T) ex_fs_store))) spec_last_clean = Some (written T ex_opts0).
Proof. vm_compute. repeat split; reflexivity. Qed.

(** ** Limits, stated: a NEGATIVE grace period makes the comparison
    [time.Since(expiresAt) >= grace] true for certificates that are not expired yet; the
    hypothesis [0 <= grace] of C18_unexpired_never_removed cannot be dropped. *)
Theorem C18_negative_grace_refuted : exists e o clk s0 k v c na,
  grace o < 0 /\ file s0 k = Some (v, c) /\ as_cert c = Some na /\ (forall i, clk i < expires_at na) /\
  file (sto (snd (clean e o clk s0))) k = None.
Proof.
  exists ex_env, (Opts 0 false true (- (60 * day)) []), (at_ T), ex_store2,
         (s2k "certificates/iss/live.example/live.example.crt"), 0, (crt (T + 30 * day)), (T + 30 * day).
  split; [reflexivity|]. split; [reflexivity|]. split; [reflexivity|]. split; [intros i; reflexivity|].
  vm_compute. reflexivity.
Qed.
Print Assumptions C18_negative_grace_refuted.

(** hypotheses of the effectiveness theorems for certificates are met by the example storage without the
    malformed site (computable sufficient condition [crt_wfb] for [crt_wf]): the site folder of the long-expired
    certificate is gone after the run *)
Definition ex_opts_ni : opts := Opts 0 true true (30 * day) (s2k "me").
Example ex_dead_folder_removed : forall k, covers (s2k "certificates/iss/dead.example") k = true ->
  lookup (sto (snd (clean ex_env ex_opts_ni (at_ T) ex_store2))) k = None.
Proof.
  apply (C18_expired_site_folder_removed ex_env ex_opts_ni (at_ T) ex_store2 (s2k "certificates/iss")).
  - repeat split.
  - reflexivity.
  - vm_compute. discriminate.
  - apply crt_wfb_sound. vm_compute. reflexivity.
  - intros v c. vm_compute. discriminate.
  - exists (s2k "iss"). split; reflexivity.
  - exists (s2k "dead.example"). split; reflexivity.
  - intros v c. vm_compute. discriminate.
  - intros v c. vm_compute. discriminate.
  - intros k U Lk.
    exists (s2k "certificates/iss/dead.example/dead.example.crt"), 3, (crt (T - 31 * day)).
    destruct (lookup ex_store2 k) as [n|] eqn:L; [|congruence]. apply lookup_in in L.
    vm_compute in L.
    repeat (destruct L as [<-|L]; [first [discriminate U | idtac]|]); try contradiction.
    + eexists. repeat split; [exists (s2k "dead.example.crt"); split; reflexivity | left; reflexivity | reflexivity].
    + eexists. repeat split; [exists (s2k "dead.example.crt"); split; reflexivity | right; left; reflexivity | reflexivity].
    + eexists. repeat split; [exists (s2k "dead.example.crt"); split; reflexivity | right; right; left; reflexivity | reflexivity].
Qed.

(** a Delete that takes effect in part (os.RemoveAll removes some of what the key covers, then fails): X.key is a
    folder; the Delete of it (call 7 on this storage) removes inner/a.pem, leaves inner/b.pem and reports an error.
    The run goes on (X.json is deleted), the site folder is not empty and stays; nothing else is touched.
    All theorems above hold for such runs: [pfaults] is part of the environment they quantify over. *)
Definition ex_keydir_store : store :=
  [ (s2k "certificates/iss/dead.example/dead.example.crt", File 3 (crt (T - 31 * day)));
    (s2k "certificates/iss/dead.example/dead.example.key/inner/a.pem", File 4 plain);
    (s2k "certificates/iss/dead.example/dead.example.key/inner/b.pem", File 5 plain);
    (s2k "certificates/iss/dead.example/dead.example.json", File 2 plain);
    (s2k "acme/ca/users/u/u.key", File 13 plain) ].
Example ex_partial_delete :
  let e := Env [] [] None true [(7%nat, [s2k "certificates/iss/dead.example/dead.example.key/inner/b.pem"])] None in
  map fst (sto (snd (clean e ex_opts_ni (at_ T) ex_keydir_store))) =
  map s2k [ "last_clean.json"; "certificates/iss/dead.example/dead.example.key/inner/b.pem"; "acme/ca/users/u/u.key" ]%string
  /\ fst (clean e ex_opts_ni (at_ T) ex_keydir_store) = RNil.
Proof. vm_compute. split; reflexivity. Qed.

(** a cleaner killed when its call number 12 begins (after Delete of X.crt, before Delete of X.key) leaves X.key and X.json
    behind, holds the lock for ever, has issued 12 calls; the next cleaning removes nothing more of that site (X.crt
    is gone, nothing says the orphans are expired) but everything it does is justified *)
Example ex_killed :
  map fst (sto (cleank ex_env 12 ex_opts_ni (at_ T) ex_store2)) =
  map fst (sto (snd (clean (with_kill ex_env 12) ex_opts_ni (at_ T) ex_store2))) /\
  List.length (lg (cleank ex_env 12 ex_opts_ni (at_ T) ex_store2)) = 12%nat /\
  lookup (sto (cleank ex_env 12 ex_opts_ni (at_ T) ex_store2)) (s2k "certificates/iss/dead.example/dead.example.crt") = None /\
  lookup (sto (cleank ex_env 12 ex_opts_ni (at_ T) ex_store2)) (s2k "certificates/iss/dead.example/dead.example.key") <> None /\
  kill_at ex_env = None.
Proof. vm_compute. split; [reflexivity|]. split; [reflexivity|]. split; [reflexivity|]. split; [discriminate | reflexivity]. Qed.

(** a history with two cleaners and three other actors (a renewal into the dead site during the first cleaning, a
    note file and the deletion of a staple between the cleanings, a new account during the second): the hypotheses
    of the two history theorems are met for the account key and the live certificate, which survive *)
Definition ex_history : list irun :=
  [ IRun ex_env [(10%nat, FPut ex_renewed (File 77 (crt (T + 90 * day))))] ex_opts0 (at_ T) [];
    IRun ex_env [(3%nat, FPut (s2k "acme/ca/users/new/new.key") (File 78 plain))] ex_opts_ni (ticking T)
         [FPut (s2k "certificates/iss/dead.example/note.txt") (File 79 plain); FDel (s2k "ocsp/a-stale")] ].
Example ex_history_hyps :
  let k := s2k "acme/ca/users/u/u.key" in
  let base := s2k "certificates/iss/live.example/live.example" in
  (forall r, In r ex_history -> (forall i f, In (i, f) (ir_fs r) -> touches k f = false) /\
                                (forall f, In f (ir_pre r) -> touches k f = false)) /\
  lookup (cleani_seq ex_history ex_fs_store2) k = Some (File 13 plain) /\
  lookup (cleani_seq ex_history ex_fs_store2) (base ++ spec_ext_key) = Some (File 31 plain) /\
  lookup (cleani_seq ex_history ex_fs_store2) (s2k "acme/ca/users/new/new.key") = Some (File 78 plain).
Proof.
  split.
  - intros r [<-|[<-|[]]]; split.
    + intros i f [E|[]]. injection E; intros <- _. reflexivity.
    + intros f [].
    + intros i f [E|[]]. injection E; intros <- _. reflexivity.
    + intros f [<-|[<-|[]]]; reflexivity.
  - vm_compute. repeat split; reflexivity.
Qed.

(** three cleaners; the first dies after 20 steps (X.crt of the dead site deleted, X.key / X.json not), the others wait;
    its lock expires; the second cleans what it finds and records, then the third (no interval) *)
Definition ex_kthr0 : nat -> option kthr :=
  fun t => if (t <? 3)%nat then Some (KThr ex_env ex_opts_ni (at_ T) KFresh []) else None.
Definition ex_ksched : list klabel :=
  List.repeat (LStep 0%nat) 20 ++ [LStep 1%nat; LStep 2%nat; LKill 0%nat; LStep 1%nat; LStep 0%nat; LExpire] ++
  List.concat (List.repeat [LStep 1%nat; LStep 2%nat] 90).
Example ex_kinit : kinit_ok ex_kthr0.
Proof.
  intros t th. unfold ex_kthr0. destruct (t <? 3)%nat; [|discriminate]. intros H.
  assert (E : th = KThr ex_env ex_opts_ni (at_ T) KFresh []) by congruence. rewrite E. repeat split.
Qed.
Example ex_kill_schedule :
  let c := ksteps (KS ex_store2 None ex_kthr0) ex_ksched in
  ks_holder c = None /\
  lookup (ks_store c) (s2k "certificates/iss/dead.example/dead.example.crt") = None /\
  lookup (ks_store c) (s2k "certificates/iss/dead.example/dead.example.key") <> None /\
  lookup (ks_store c) (s2k "ocsp/a-stale") = None /\
  lookup (ks_store c) (s2k "certificates/iss/live.example/live.example.key") <> None /\
  match ks_thr c 0%nat with Some th => match kt_ph th with KDead => true | _ => false end | None => false end = true /\
  match ks_thr c 1%nat with Some th => match kt_ph th with KFinished RNil => true | _ => false end | None => false end = true.
Proof. vm_compute. split; [reflexivity|]. split; [reflexivity|]. split; [discriminate|]. split; [reflexivity|]. split; [discriminate|]. split; reflexivity. Qed.

(** a schedule with everything: three cleaners, a renewal into the dead site and a new account by other actors while the
    first cleaner works, the first cleaner killed, its lock expiring, the others cleaning: the account key of the
    beginning and the live certificate's key file are where they were (hypotheses of the two every-schedule theorems) *)
Definition ex_fsched : list flabel :=
  map FL (List.repeat (LStep 0%nat) 15) ++
  [FOp (FPut ex_renewed (File 77 (crt (T + 90 * day)))); FOp (FPut (s2k "acme/ca/users/new/new.key") (File 78 plain))] ++
  map FL (List.repeat (LStep 0%nat) 5 ++ [LStep 1%nat; LKill 0%nat; LStep 2%nat; LExpire]) ++
  map FL (List.concat (List.repeat [LStep 1%nat; LStep 2%nat] 90)).
Example ex_every_schedule_hyps :
  let q := s2k "acme/ca/users/u/u.key" in
  let base := s2k "certificates/iss/live.example/live.example" in
  (forall f, In (FOp f) ex_fsched -> touches q f = false) /\
  (forall f, In (FOp f) ex_fsched ->
     covers (fkey f) (base ++ spec_ext_crt) = false /\ covers (fkey f) (base ++ spec_ext_key) = false) /\
  (forall t th0, ex_kthr0 t = Some th0 -> forall i, spec_expired (kt_clk th0 i) (grace (kt_opts th0)) (crt (T + 30 * day)) = false) /\
  lookup (ks_store (kstepsf (KS ex_store2 None ex_kthr0) ex_fsched)) q = lookup ex_store2 q /\
  lookup (ks_store (kstepsf (KS ex_store2 None ex_kthr0) ex_fsched)) (base ++ spec_ext_key) = lookup ex_store2 (base ++ spec_ext_key) /\
  lookup ex_store2 (base ++ spec_ext_key) <> None /\
  ks_holder (kstepsf (KS ex_store2 None ex_kthr0) ex_fsched) = None.
Proof.
  assert (Ops : forall f, In (FOp f) ex_fsched ->
            f = FPut ex_renewed (File 77 (crt (T + 90 * day))) \/ f = FPut (s2k "acme/ca/users/new/new.key") (File 78 plain)).
  { intros f H. unfold ex_fsched in H. repeat (apply in_app_or in H; destruct H as [H|H]);
      try (apply in_map_iff in H; destruct H as [l [E _]]; discriminate).
    destruct H as [E|[E|[]]]; injection E; auto. }
  split; [intros f H; destruct (Ops f H) as [->| ->]; reflexivity|].
  split; [intros f H; destruct (Ops f H) as [->| ->]; split; reflexivity|].
  split.
  - intros t th0. unfold ex_kthr0. destruct (t <? 3)%nat; [|discriminate]. intros H.
    assert (E : th0 = KThr ex_env ex_opts_ni (at_ T) KFresh []) by congruence. rewrite E. intros i. reflexivity.
  - vm_compute. split; [reflexivity|]. split; [reflexivity|]. split; [discriminate | reflexivity].
Qed.

(** the hypotheses of C18_expired_cert_assets_removed on the same storage: X.key of the long-expired certificate is gone *)
Example ex_dead_assets_removed :
  lookup (sto (snd (clean ex_env ex_opts_ni (at_ T) ex_store2))) (s2k "certificates/iss/dead.example/dead.example.key") = None.
Proof.
  apply (C18_expired_cert_assets_removed ex_env ex_opts_ni (at_ T) ex_store2 (s2k "certificates/iss")
           (s2k "certificates/iss/dead.example") (s2k "certificates/iss/dead.example/dead.example.crt") 3 (crt (T - 31 * day)))
    with (x := s2k "certificates/iss/dead.example/dead.example.key").
  - repeat split.
  - reflexivity.
  - vm_compute. discriminate.
  - apply crt_wfb_sound. vm_compute. reflexivity.
  - intros v c. vm_compute. discriminate.
  - exists (s2k "iss"). split; reflexivity.
  - exists (s2k "dead.example"). split; reflexivity.
  - intros v c. vm_compute. discriminate.
  - intros v c. vm_compute. discriminate.
  - exists (s2k "dead.example.crt"). split; reflexivity.
  - reflexivity.
  - reflexivity.
  - intros i. reflexivity.
  - right; left; reflexivity.
  - vm_compute. reflexivity.
Qed.
(** C18_expired_is_past_not_after on a certificate with NotAfter in the middle of a second *)
Example ex_past_not_after :
  let c := crt (T - 30 * day + 500000000) in
  spec_expired T (30 * day) c = false /\ spec_expired (T + second) (30 * day) c = true.
Proof. vm_compute. split; reflexivity. Qed.

(** final round: satisfiable hypotheses *)
Example ex_future_record : (* the record of ex_store is dated T - 2 d; a cleaner whose clock shows T - 3 d *)
  sto (snd (clean ex_env ex_opts (at_ (T - 3 * day)) ex_store)) = ex_store.
Proof.
  apply (C18_future_record_skips ex_env ex_opts (at_ (T - 3 * day)) ex_store 15
           (Cls None None (Some (T - 2 * day, s2k "other"))) (T - 2 * day) (s2k "other")).
  - reflexivity.
  - reflexivity.
  - reflexivity.
  - intros i. vm_compute. discriminate.
Qed.
Example ex_staple_fate :
  file (sto (snd (clean ex_env ex_opts_ni (at_ T) ex_store))) (s2k "ocsp/a-fresh") = file ex_store (s2k "ocsp/a-fresh") /\
  lookup (sto (snd (clean ex_env ex_opts_ni (at_ T) ex_store))) (s2k "ocsp/a-stale") = None.
Proof.
  split.
  - apply (proj1 (C18_staple_fate_is_next_update ex_env ex_opts_ni (at_ T) ex_store (s2k "ocsp/a-fresh") 10 None (Some (T + day)) None
                    ltac:(exists (s2k "a-fresh"); split; reflexivity) eq_refl) (T + day) eq_refl).
    intros i. vm_compute. discriminate.
  - apply (proj2 (C18_staple_fate_is_next_update ex_env ex_opts_ni (at_ T) ex_store (s2k "ocsp/a-stale") 11 None (Some (T - day)) None
                    ltac:(exists (s2k "a-stale"); split; reflexivity) eq_refl)).
    + repeat split.
    + reflexivity.
    + vm_compute. discriminate.
    + intros v c. vm_compute. discriminate.
    + right. exists (T - day). split; [reflexivity | intros i; reflexivity].
Qed.
Example ex_cert_fate_hyps :
  let base := s2k "certificates/iss/live.example/live.example" in
  site_assetb (base ++ spec_ext_crt) = true /\
  file ex_store (base ++ spec_ext_crt) = Some (0, Cls (Some (T + 30 * day)) None None) /\
  (forall i, at_ T i - (T + 30 * day) <= grace ex_opts) /\
  file (sto (snd (clean ex_env ex_opts (at_ T) ex_store))) (base ++ spec_ext_key) = file ex_store (base ++ spec_ext_key).
Proof. split; [reflexivity|]. split; [reflexivity|]. split; [intros i; vm_compute; discriminate | vm_compute; reflexivity]. Qed.
Definition ex_ocsp_dir_store : store :=
  [ (s2k "ocsp/d-1/inner", File 1 (stp (T - day))); (s2k "ocsp/a-stale", File 2 (stp (T - day))) ].
Example ex_not_a_file_kept :
  child spec_ocsp (s2k "ocsp/d-1") /\ file ex_ocsp_dir_store (s2k "ocsp/d-1") = None /\
  covers (s2k "ocsp/d-1") (s2k "ocsp/d-1/inner") = true /\
  map fst (sto (snd (clean ex_env ex_opts_ni (at_ T) ex_ocsp_dir_store))) = [spec_last_clean; s2k "ocsp/d-1/inner"].
Proof. split; [exists (s2k "d-1"); split; reflexivity|]. vm_compute. repeat split; reflexivity. Qed.
Example ex_killed_monitor_hyps :
  let log := rev (lg (snd (clean (with_kill ex_env 12) ex_opts_ni (at_ T) ex_store2))) in
  (1 <= 12 < List.length log)%nat /\ hd_error log = Some (Ev KLock spec_lock true) /\
  spec_ok (killed_case ex_env 12 ex_opts_ni (at_ T) T T ex_store2 0) = true.
Proof. vm_compute. repeat split; try reflexivity; apply Nat.leb_le; reflexivity. Qed.

(** the monitor on the model under interference: a renewal stored before the cleaner's second listing of the folder (call 8)
    passes; the same renewal just before the Delete of the folder (call 10) is lost and the monitor says so -- through its
    difference clause, the only one that can fail (the others are theorems) *)
Example ex_monitor_under_interference :
  touches spec_last_clean (FPut ex_renewed (File 77 (crt (T + 90 * day)))) = false /\
  spec_ok (model_case_i ex_env [(8%nat, FPut ex_renewed (File 77 (crt (T + 90 * day))))] ex_opts0 (at_ T) T T ex_fs_store 0) = true /\
  spec_ok (model_case_i ex_env [(10%nat, FPut ex_renewed (File 77 (crt (T + 90 * day))))] ex_opts0 (at_ T) T T ex_fs_store 0) = false.
Proof. vm_compute. repeat split; reflexivity. Qed.

(** what does NOT hold (and what the code really does): "whatever a dead cleaner left undone, later cleanings finish". The assets
    are deleted in the order X.crt, X.key, X.json; a cleaner that dies after Delete(X.crt) leaves X.key and X.json, and no later
    cleaning -- fault-free, as often as one likes -- looks at a site without X.crt: the private key of a long-expired certificate
    stays for good (witness: the example storage, death when call 12 begins, two complete cleanings afterwards) *)
Theorem C18_orphans_after_kill_refuted : exists e n o clk s0 k,
  kill_at e = None /\ no_faults e /\
  (exists v c na, file s0 (k ++ spec_ext_crt) = Some (v, c) /\ as_cert c = Some na /\ forall i, spec_expired (clk i) (grace o) c = true) /\
  let s1 := sto (cleank e n o clk s0) in
  let s2 := sto (snd (clean e o clk s1)) in
  let s3 := sto (snd (clean e o clk s2)) in
  lookup s1 (k ++ spec_ext_crt) = None /\ lookup s3 (k ++ spec_ext_key) <> None /\ lookup s3 (k ++ spec_ext_key) = lookup s0 (k ++ spec_ext_key).
Proof.
  exists ex_env, 12%nat, ex_opts_ni, (at_ T), ex_store2, (s2k "certificates/iss/dead.example/dead.example").
  split; [reflexivity|]. split; [repeat split|]. split.
  - exists 3, (crt (T - 31 * day)), (T - 31 * day). split; [reflexivity|]. split; [reflexivity | intros i; reflexivity].
  - vm_compute. split; [reflexivity|]. split; [discriminate | reflexivity].
Qed.
Print Assumptions C18_orphans_after_kill_refuted.


(** ... whereas a cleaner that dies BEFORE it deleted X.crt (here: when its call 9 begins) leaves nothing the next one cannot finish:
    hypotheses of C18_next_cleaning_finishes_what_is_left, and X.key of the dead site is gone after the follow-up *)
Example ex_next_cleaning_finishes :
  let s1 := sto (snd (clean (with_kill ex_env 9) ex_opts_ni (at_ T) ex_store2)) in
  pfaults ex_env = [] /\ crt_wfb ex_store2 = true /\
  file s1 (s2k "certificates/iss/dead.example/dead.example.crt") = Some (3, crt (T - 31 * day)) /\
  lookup (sto (snd (clean ex_env ex_opts_ni (at_ T) s1))) (s2k "certificates/iss/dead.example/dead.example.key") = None.
Proof. vm_compute. repeat split; reflexivity. Qed.

(** hypotheses of C18_two_cleanings_satisfy_the_run_clauses / C18_successful_store_leaves_the_record on the example storage: the first cleaning stores the record successfully; both clocks lie in their brackets *)
Example ex_two_cleanings :
  stored_ok (lg (snd (clean ex_env ex_opts (at_ T) ex_store2))) = true /\
  (forall i, T <= at_ T i <= T) /\ (forall i, T + second <= at_ (T + second) i <= T + second).
Proof. split; [vm_compute; reflexivity|]. split; intros i; unfold at_; lia. Qed.
