(** C18 — storage cleaning removes only expired material and nothing else (placeholder, filled below). *)
From CM Require Import Lib.Str Gen.Consts Clean.Model.
Theorem C18_placeholder : True. Proof. exact I. Qed.
Print Assumptions C18_placeholder.
