(** C07 — No crash or storage fault during obtain/renew leaves storage unrecoverable.
    [plan] = an ARBITRARY set of failing Storage-call indices ([p_fail : nat -> bool]) plus an
    optional crash point ([p_crash]): single faults, fault sequences, storage outages, faults in the
    rollback's own Deletes, and process death after any call are all instances.
    Recovery = the Locker's staleness rule ([break_lock]) and a fault-free manage on a fresh
    instance. [stuck st cfg d] = "the bundle every load picks has a key that does not match its
    certificate" (Model.v). *)
From Coq Require Import List NArith ZArith Bool.
From CM Require Import Bundle.Model Bundle.Proofs Bundle.Faults Bundle.RecoverRev Bundle.Check Bundle.Sound Gen.Consts.
Import ListNotations.
Open Scope N_scope.

(** whatever the plan, obtain / renew / manage leave the certificate files as they were, or with
    exactly one directory in one of the seven torn states of one interrupted save *)
Theorem C07_faulted_effect : forall pl cfg sp orc h w,
  is_op7 h = true -> k_ocsp (w_core w) = [] ->
  eff7 cfg sp (w_core w) (w_core (snd (run_hop pl cfg sp orc h w))).
Proof. exact faulted_effect. Qed.
Print Assumptions C07_faulted_effect.

(** recoverable, for every reachable state x every operation x every plan — outside the stuck class:
    the fresh instance ends up serving a certificate that is not due, names the subject, has a
    matching key and is the stored bundle every later load picks *)
Theorem C07_recoverable_partial : forall pl cfg sp orc h orc_r w0,
  reach6 cfg sp (w_core w0) -> k_ocsp (w_core w0) = [] -> canonical sp -> (1 <= n_iss cfg)%nat ->
  is_op7 h = true ->
  let w1 := snd (run_hop pl cfg sp orc h w0) in
  stuck (w_st w1) cfg (s_save sp) = false ->
  all_up cfg orc_r (w_st w1) (s_save sp) ->
  exists mc c', evals (manage no_faults cfg sp orc_r) (w_core (break_lock w1)) (Ok mc) c' /\
                served_ok cfg sp mc c'.
Proof. intros pl cfg sp orc h orc_r w0 HR. apply recoverable_after_fault. apply reach6_inv, HR. Qed.
Print Assumptions C07_recoverable_partial.

(** ... even from ANY well-typed storage, however it came about, as long as it is not stuck *)
Theorem C07_recoverable_from_any_storage : forall cfg sp orc c,
  Rec7 cfg sp c -> canonical sp -> all_up cfg orc (k_st c) (s_save sp) ->
  stuck (k_st c) cfg (s_save sp) = false ->
  exists mc c', evals (manage no_faults cfg sp orc) c (Ok mc) c' /\ served_ok cfg sp mc c'.
Proof.
  intros cfg sp orc c R HC HU HS. destruct (recoverable cfg sp orc c R HC HU HS) as (mc & c' & HM & HOK).
  exists mc, c'. split; [|exact HOK].
  generalize (evals_manage cfg sp orc c (r_typed _ _ _ R) (r_unlocked _ _ _ R)). rewrite HM. auto.
Qed.
Print Assumptions C07_recoverable_from_any_storage.

(** exactly which plans are bad: the stuck state arises only when the new key was stored, the new
    certificate was not, the key was not rolled back, and the directory held an older certificate
    (with its metadata) for a different key *)
Theorem C07_stuck_only_by_torn_key_store : forall pl cfg sp orc h w0,
  reach6 cfg sp (w_core w0) -> k_ocsp (w_core w0) = [] -> is_op7 h = true ->
  let w1 := snd (run_hop pl cfg sp orc h w0) in
  stuck (w_st w1) cfg (s_save sp) = true ->
  exists i k x m, In i (issuers cfg) /\ key_origin cfg sp (w_core w0) k /\
    dir_crt (w_st w0) i (s_save sp) = Some x /\ dir_meta (w_st w0) i (s_save sp) = Some m /\ c_pub x <> k /\
    w_st w1 = sput (w_st w0) (i, s_save sp, FKey) (VKey k).
Proof.
  intros pl cfg sp orc h w0 HR HO Hop w1 HS. apply reach6_inv in HR.
  apply (stuck_char cfg sp (w_core w0) (w_core w1)); [| apply faulted_effect; assumption | exact HS].
  intros i [[[j k] x] m] Hi Hb. destruct (inv_bundle_good _ _ _ _ _ _ _ _ _ HR Hb) as (_ & _ & Hp & _).
  cbn. apply N.eqb_eq, Hp.
Qed.
Print Assumptions C07_stuck_only_by_torn_key_store.

(** consequently: with key reuse (one key, each certificate next to it) NO plan gets stuck ... *)
Theorem C07_never_stuck_with_reused_key : forall pl cfg sp orc h w0,
  reuse cfg = true -> s_pre sp = s_save sp ->
  crt_has_key (w_st w0) cfg (s_save sp) -> all_same_key (w_st w0) ->
  is_op7 h = true -> k_ocsp (w_core w0) = [] ->
  stuck (w_st (snd (run_hop pl cfg sp orc h w0))) cfg (s_save sp) = false.
Proof.
  intros pl cfg sp orc h w0 HR HP HK HS Hop HO.
  apply (never_stuck_with_reuse cfg sp (w_core w0)); auto. apply faulted_effect; assumption.
Qed.
Print Assumptions C07_never_stuck_with_reused_key.

(** ... and no plan gets a first obtain stuck (no certificate in any issuer's directory yet) *)
Theorem C07_never_stuck_without_old_certificate : forall pl cfg sp orc h w0,
  (forall i, In i (issuers cfg) -> dir_crt (w_st w0) i (s_save sp) = None) ->
  is_op7 h = true -> k_ocsp (w_core w0) = [] ->
  stuck (w_st (snd (run_hop pl cfg sp orc h w0))) cfg (s_save sp) = false.
Proof.
  intros pl cfg sp orc h w0 HN Hop HO.
  apply (never_stuck_without_old_cert cfg sp (w_core w0)); auto. apply faulted_effect; assumption.
Qed.
Print Assumptions C07_never_stuck_without_old_certificate.

(** fault kind (b) of the property, in full: a plan is [calm] when the process does not die and no
    two consecutive Storage calls fail — every single failing call (any index k: [single_error k])
    and every set of failing calls without neighbours. Under a calm plan the rollback Delete that
    follows a failed Store succeeds, and NO operation from any reachable state gets stuck ... *)
Theorem C07_storage_errors_never_stuck : forall pl cfg sp orc h w0,
  calm pl -> reach6 cfg sp (w_core w0) -> k_ocsp (w_core w0) = [] -> is_op7 h = true ->
  stuck (w_st (snd (run_hop pl cfg sp orc h w0))) cfg (s_save sp) = false.
Proof. intros pl cfg sp orc h w0 HC HR. apply calm_never_stuck; [exact HC | apply reach6_inv, HR]. Qed.
Print Assumptions C07_storage_errors_never_stuck.

(** ... so recovery after storage errors needs no exception: the fresh instance ends up serving a
    certificate that is not due, names the subject and has its matching key *)
Theorem C07_recoverable_after_storage_errors : forall pl cfg sp orc h orc_r w0,
  calm pl -> reach6 cfg sp (w_core w0) -> k_ocsp (w_core w0) = [] -> canonical sp -> (1 <= n_iss cfg)%nat ->
  is_op7 h = true ->
  let w1 := snd (run_hop pl cfg sp orc h w0) in
  all_up cfg orc_r (w_st w1) (s_save sp) ->
  exists mc c', evals (manage no_faults cfg sp orc_r) (w_core (break_lock w1)) (Ok mc) c' /\
                served_ok cfg sp mc c'.
Proof.
  intros pl cfg sp orc h orc_r w0 HC HR. apply recoverable_after_storage_errors; [exact HC | apply reach6_inv, HR].
Qed.
Print Assumptions C07_recoverable_after_storage_errors.

Theorem C07_single_error_is_calm : forall k, calm (single_error k).
Proof. exact calm_single_error. Qed.
Print Assumptions C07_single_error_is_calm.

(** with revocations pending (no hypothesis on [k_ocsp]): manage may first quarantine the key of a
    certificate revoked for key compromise and then obtain, or force a renewal (forceRenew). The
    quarantine ([quar]: the .key deleted and/or a .key.compromised written) never creates a bundle, so
    both results carry over: calm plans never get stuck ... *)
Theorem C07_storage_errors_never_stuck_any_revocation : forall pl cfg sp orc h w0,
  calm pl -> reach6 cfg sp (w_core w0) -> is_op7 h = true ->
  stuck (w_st (snd (run_hop pl cfg sp orc h w0))) cfg (s_save sp) = false.
Proof. intros pl cfg sp orc h w0 HC HR. apply calm_never_stuck_rev; [exact HC | apply reach6_inv, HR]. Qed.
Print Assumptions C07_storage_errors_never_stuck_any_revocation.

(** ... and under any plan the only stuck outcome is still the Store of a new .key next to an older
    certificate for a different key, on the storage before the operation or after the quarantine *)
Theorem C07_stuck_only_by_torn_key_store_any_revocation : forall pl cfg sp orc h w0,
  reach6 cfg sp (w_core w0) -> is_op7 h = true ->
  let w1 := snd (run_hop pl cfg sp orc h w0) in
  stuck (w_st w1) cfg (s_save sp) = true ->
  exists st1 q i k x m, quar (w_st w0) q (s_save sp) st1 /\ In i (issuers cfg) /\
    dir_crt (w_st w0) i (s_save sp) = Some x /\ dir_meta (w_st w0) i (s_save sp) = Some m /\ c_pub x <> k /\
    w_st w1 = sput st1 (i, s_save sp, FKey) (VKey k).
Proof.
  intros pl cfg sp orc h w0 HR Hop w1 HS. apply reach6_inv in HR.
  apply (stuck_char_rev cfg sp (w_core w0) (w_core w1)); [| apply faulted_effect_rev; assumption | exact HS].
  intros i [[[j k] x] m] Hi Hb. destruct (inv_bundle_good _ _ _ _ _ _ _ _ _ HR Hb) as (_ & _ & Hp & _).
  cbn. apply N.eqb_eq, Hp.
Qed.
Print Assumptions C07_stuck_only_by_torn_key_store_any_revocation.

(** recoverable with revocations pending (no hypothesis on [k_ocsp]), one issuer: the fresh instance
    replaces the revoked certificate (after key compromise: with a new key, the old one quarantined) or
    renews / serves as before, and ends up serving a non-due certificate for the subject with its
    matching key - outside the stuck class. Missing for the full statement: the stuck class (refuted
    below) and several issuers, where the replacement after key compromise is C06's known finding. *)
Theorem C07_recoverable_with_revocations_partial : forall pl cfg sp orc h orc_r w0,
  reach6 cfg sp (w_core w0) -> canonical sp -> n_iss cfg = 1%nat -> is_op7 h = true ->
  let w1 := snd (run_hop pl cfg sp orc h w0) in
  stuck (w_st w1) cfg (s_save sp) = false ->
  all_up cfg orc_r (w_st w1) (s_save sp) ->
  exists mc c', evals (manage no_faults cfg sp orc_r) (w_core (break_lock w1)) (Ok mc) c' /\
                served_ok cfg sp mc c'.
Proof. exact recoverable_after_fault_rev. Qed.
Print Assumptions C07_recoverable_with_revocations_partial.

(** the refuted class is permanent: on a stuck storage every later manage fails with the key
    mismatch and obtain is a no-op, whatever the issuers would answer; nothing changes *)
Theorem C07_stuck_is_permanent : forall cfg sp orc c,
  typed (k_st c) -> k_locked c = false -> canonical sp -> stuck (k_st c) cfg (s_save sp) = true ->
  evals (manage no_faults cfg sp orc) c (Fail EMismatch) c /\
  evals (obtain no_faults cfg sp orc) c (Ok tt) c.
Proof.
  intros cfg sp orc c T HL HC HS. destruct (stuck_is_permanent cfg sp orc c T HC HS) as [HM HOb]. split.
  - generalize (evals_manage cfg sp orc c T HL). rewrite HM. auto.
  - generalize (evals_obtain cfg sp orc c T HL). rewrite HOb. auto.
Qed.
Print Assumptions C07_stuck_is_permanent.

(** * the check's monitor and the theorems say the same thing
    [Check.spec7_core] is the recovery clause that [check_line7] evaluates on the IMPLEMENTATION's
    observation. Evaluated on the model's own observation of the recovery ([Check.recover]) it is true
    under exactly the hypotheses of [C07_recoverable_partial] ... *)
Theorem C07_monitor_sound : forall pl cfg sp orc h orc_r w0,
  reach6 cfg sp (w_core w0) -> k_ocsp (w_core w0) = [] -> canonical sp -> (1 <= n_iss cfg)%nat ->
  is_op7 h = true ->
  let w1 := snd (run_hop pl cfg sp orc h w0) in
  stuck (w_st w1) cfg (s_save sp) = false ->
  all_up cfg orc_r (w_st w1) (s_save sp) ->
  spec7_core cfg sp (fst (recover cfg sp orc_r w1)) (negb (stuck (w_st w1) cfg (s_load sp))) = true.
Proof. exact monitor_sound_core. Qed.
Print Assumptions C07_monitor_sound.

(** ... and false on every stuck storage, whatever the issuers answer and whatever the twin did *)
Theorem C07_monitor_rejects_stuck : forall cfg sp orc w tw,
  typed (w_st w) -> canonical sp -> stuck (w_st w) cfg (s_save sp) = true ->
  spec7_core cfg sp (fst (recover cfg sp orc w)) tw = false.
Proof. exact monitor_rejects_stuck. Qed.
Print Assumptions C07_monitor_rejects_stuck.

(** the full statement is false: renewal with a fresh key to the same issuer, process death right
    after Storage call 11 (the Store of the new .key): the bundle is "complete" but the key does not
    match the leaf *)
Definition w7_cfg := Config 1 false false.
Definition w7_sp := Subject 0 0 0 0.
Definition w7_w0 : world :=
  clear_log (snd (run_hop no_faults w7_cfg w7_sp (Oracle [Some (10%Z, VDue)] []) HManage empty_world)).
Definition w7_plan : plan := Plan (fun _ => false) (Some 11%nat).
Definition w7_w1 : world := snd (run_hop w7_plan w7_cfg w7_sp (Oracle [Some (20%Z, VFresh)] []) HManage w7_w0).
Lemma w7_reach : reach6 w7_cfg w7_sp (w_core w7_w0).
Proof.
  eapply reach6_step; [apply reach6_empty|].
  generalize (evals_run_hop w7_cfg w7_sp (Oracle [Some (10%Z, VDue)] []) HManage empty_core typed_nil eq_refl).
  intros H. exact H.
Qed.
Theorem C07_recoverable_refuted_renew_fresh_key :
  exists pl cfg sp orc h w0,
    reach6 cfg sp (w_core w0) /\ k_ocsp (w_core w0) = [] /\ canonical sp /\ is_op7 h = true /\
    let w1 := snd (run_hop pl cfg sp orc h w0) in
    fst (run_hop pl cfg sp orc h w0) = Dead /\
    stuck (w_st w1) cfg (s_save sp) = true /\
    forall orc_r, evals (manage no_faults cfg sp orc_r) (w_core (break_lock w1)) (Fail EMismatch) (w_core (break_lock w1)) /\
                  evals (obtain no_faults cfg sp orc_r) (w_core (break_lock w1)) (Ok tt) (w_core (break_lock w1)).
Proof.
  exists w7_plan, w7_cfg, w7_sp, (Oracle [Some (20%Z, VFresh)] []), HManage, w7_w0.
  split; [exact w7_reach|]. split; [vm_compute; reflexivity|]. split; [split; reflexivity|]. split; [reflexivity|].
  cbv zeta. set (w1 := snd (run_hop w7_plan w7_cfg w7_sp (Oracle [Some (20%Z, VFresh)] []) HManage w7_w0)).
  split; [vm_compute; reflexivity|]. split; [vm_compute; reflexivity|].
  intros orc_r. apply C07_stuck_is_permanent.
  - assert (E : eff7 w7_cfg w7_sp (w_core w7_w0) (w_core w1)) by (unfold w1; apply faulted_effect; vm_compute; reflexivity).
    assert (T0 : typed (k_st (w_core w7_w0))) by (apply (i_typed _ _ _ (reach6_inv _ _ _ w7_reach))).
    apply typed_break_lock.
    destruct E as [(E & _)|(_ & _ & _ & i & k & x & _ & _ & _ & HT)].
    + rewrite E. exact T0.
    + eapply torn_typed; eauto.
  - reflexivity.
  - split; reflexivity.
  - vm_compute. reflexivity.
Qed.
Print Assumptions C07_recoverable_refuted_renew_fresh_key.

(** ... and with SEVERAL issuers the statement is false (this is C06's known finding seen from the recovery):
    issuers [A; B], key reuse; B holds an older certificate that is due, A a newer one that was revoked for
    key compromise. The fresh instance quarantines A's key, its obtain is a no-op because B's bundle is
    complete, and it ends up serving B's DUE certificate - on the compromised key - although both issuers
    would have answered. *)
Definition w7m_cfg := Config 2 true false.
Definition w7m_a := snd (run_hop_pure w7m_cfg w7_sp (Oracle [None; Some (10%Z, VDue)] []) HManage empty_core).
Definition w7m_b := snd (run_hop_pure w7m_cfg w7_sp (Oracle [Some (20%Z, VFresh); None] []) (HRenew true) w7m_a).
Definition w7m_c := snd (run_hop_pure w7m_cfg w7_sp (Oracle [] []) (HRevokeEnv 0 true) w7m_b).
Lemma w7m_reach : reach6 w7m_cfg w7_sp w7m_c.
Proof.
  assert (Ra : reach6 w7m_cfg w7_sp w7m_a).
  { eapply reach6_step; [apply reach6_empty|]. apply evals_run_hop; [apply typed_nil | reflexivity]. }
  assert (Rb : reach6 w7m_cfg w7_sp w7m_b).
  { eapply reach6_step; [exact Ra|]. apply evals_run_hop; [apply (i_typed _ _ _ (reach6_inv _ _ _ Ra)) | apply (i_unlocked _ _ _ (reach6_inv _ _ _ Ra))]. }
  eapply reach6_step; [exact Rb|]. apply evals_run_hop; [apply (i_typed _ _ _ (reach6_inv _ _ _ Rb)) | apply (i_unlocked _ _ _ (reach6_inv _ _ _ Rb))].
Qed.
Theorem C07_recoverable_with_revocations_refuted_two_issuers :
  exists cfg sp c orc mc c',
    reach6 cfg sp c /\ canonical sp /\ n_iss cfg = 2%nat /\ stuck (k_st c) cfg (s_save sp) = false /\
    (forall i, In i (issuers cfg) -> nth i (o_out orc) None = Some (30%Z, VFresh)) /\
    evals (manage no_faults cfg sp orc) c (Ok mc) c' /\
    is_due (m_c mc) = true /\ k_nser c' = k_nser c /\ dir_comp (k_st c') 0 0 = Some (m_k mc).
Proof.
  pose proof (reach6_inv _ _ _ w7m_reach) as I.
  exists w7m_cfg, w7_sp, w7m_c, (Oracle [Some (30%Z, VFresh); Some (30%Z, VFresh)] []).
  generalize (evals_manage w7m_cfg w7_sp (Oracle [Some (30%Z, VFresh); Some (30%Z, VFresh)] []) w7m_c (i_typed _ _ _ I) (i_unlocked _ _ _ I)).
  remember (manage_pure w7m_cfg w7_sp (Oracle [Some (30%Z, VFresh); Some (30%Z, VFresh)] []) w7m_c) as mp eqn:Emp.
  vm_compute in Emp. subst mp. cbn [fst snd]. intros HM.
  eexists _, _. split; [exact w7m_reach|]. split; [split; reflexivity|]. split; [reflexivity|].
  split; [vm_compute; reflexivity|]. split; [intros i [<-|[<-|[]]]; reflexivity|].
  split; [exact HM|]. repeat split; vm_compute; reflexivity.
Qed.
Print Assumptions C07_recoverable_with_revocations_refuted_two_issuers.


(** the same program and crash point with key reuse recovers (hypotheses of the theorems are met
    by non-trivial states) *)
Definition w7r_cfg := Config 1 true false.
Definition w7r_w0 : world :=
  clear_log (snd (run_hop no_faults w7r_cfg w7_sp (Oracle [Some (10%Z, VDue)] []) HManage empty_world)).
Definition w7r_w1 : world := snd (run_hop w7_plan w7r_cfg w7_sp (Oracle [Some (20%Z, VFresh)] []) HManage w7r_w0).
Example C07_reuse_witness_recovers :
  crt_has_key (w_st w7r_w0) w7r_cfg 0 /\ all_same_key (w_st w7r_w0) /\
  stuck (w_st w7r_w1) w7r_cfg 0 = false /\
  exists mc w2, manage no_faults w7r_cfg w7_sp (Oracle [Some (30%Z, VFresh)] []) (break_lock w7r_w1) = (Ok mc, w2) /\
                c_ser (m_c mc) = 2 /\ m_k mc = 0.
Proof.
  split; [|split; [|split]].
  - intros i x [<-|[]]. vm_compute. intros [= <-]. reflexivity.
  - apply (all_same_key_of_keys _ 0). vm_compute. intros k [<-|[]]. reflexivity.
  - vm_compute. reflexivity.
  - vm_compute. eexists. eexists. split; [reflexivity|]. split; reflexivity.
Qed.
Example C07_all_up_satisfiable :
  all_up w7_cfg (Oracle [Some (30%Z, VFresh)] []) (w_st w7_w0) 0 /\ Rec7 w7_cfg w7_sp (w_core w7_w0).
Proof.
  split.
  - split; [|intros H; discriminate H]. intros i [<-|[]]. exists 30%Z. split; [reflexivity|].
    intros j x. remember (w_st w7_w0) as st eqn:Est. vm_compute in Est. subst st.
    unfold dir_crt. intros Hx. apply sget_in in Hx || (destruct (sget _ _) as [[?|y|?]|] eqn:E in Hx; try discriminate;
      injection Hx as <-; apply sget_in in E; destruct E as [H|[H|[H|[]]]]; try discriminate; injection H as _ <-; reflexivity).
  - pose proof (reach6_inv _ _ _ w7_reach) as I. constructor.
    + apply (i_typed _ _ _ I). + apply (i_unlocked _ _ _ I). + reflexivity.
    + intros i x H. apply (i_crt _ _ _ I _ _ _ H). + cbn; auto.
Qed.

(** the calm twin of the refuted witness: same renewal with a fresh key, but instead of the process
    dying after the Store of the new .key, the Store of the new .crt (call 12) fails: the rollback
    deletes the key, the old certificate loses its key, and the fresh instance re-obtains *)
Definition w7c_w1 : world := snd (run_hop (single_error 12) w7_cfg w7_sp (Oracle [Some (20%Z, VFresh)] []) HManage w7_w0).
Example C07_single_error_witness_recovers :
  fst (run_hop (single_error 12) w7_cfg w7_sp (Oracle [Some (20%Z, VFresh)] []) HManage w7_w0) = Fail EInjected /\
  dir_key (w_st w7c_w1) 0 0 = None /\ stuck (w_st w7c_w1) w7_cfg 0 = false /\
  exists mc w2, manage no_faults w7_cfg w7_sp (Oracle [Some (30%Z, VFresh)] []) (break_lock w7c_w1) = (Ok mc, w2) /\
                c_ser (m_c mc) = 2 /\ m_k mc = 2.
Proof. vm_compute. repeat split. eexists. eexists. repeat split. Qed.

(** * the statement order of the source, re-read by the translator on every run ([Gen.Consts]),
    against the order in which the MODEL performs its Storage calls: (operation, file kind) of every
    call on a certificate file, from the model's own log *)
Definition c07_file_ops (w : world) : list (Z * Z) :=
  flat_map (fun e => match e with LOp k (TFile (_, _, fk)) _ => [(okind_code k, fkind_code fk)] | _ => [] end) (rev (w_log w)).
Definition c07_x : cert := Cert 7 0 10%Z VFresh 0.
Definition c07_full : world := World (set_st empty_core (put_bundle [] 0 0 7 c07_x [0])) 0 [].
Theorem C07_source_order_matches_model :
  (* saveCertResource + storeTx: Store .key, .crt, .json in this order ... *)
  map snd (c07_file_ops (snd (save no_faults 0 0 7 c07_x [0] empty_world))) = c07_save_order /\
  c07_save_via_storetx = true /\ c07_storetx_shape = true /\
  (* ... and when the last Store fails the roll-back Deletes the keys already written in reverse
     order (.crt, then .key); when the second fails, the .key *)
  c07_file_ops (snd (save (single_error 2) 0 0 7 c07_x [0] empty_world)) = [(0, 0); (0, 1); (0, 2); (2, 1); (2, 0)]%Z /\
  c07_file_ops (snd (save (single_error 1) 0 0 7 c07_x [0] empty_world)) = [(0, 0); (0, 1); (2, 0)]%Z /\
  (* the completeness test of the restart path: Exists .crt, .key, .json; the load: .key, .crt, .json *)
  map snd (c07_file_ops (snd (has_res no_faults 0 0 c07_full))) = c07_has_order /\
  map snd (c07_file_ops (snd (load_res no_faults 0 0 c07_full))) = c07_load_order.
Proof. vm_compute. repeat split. Qed.
Print Assumptions C07_source_order_matches_model.

(** key reuse does not protect a replacement after key compromise: the old key 0 is quarantined, a new
    key 1 is generated, and process death right after its Store (call 16) leaves key 1 next to the
    certificate for key 0 - stuck, although ReusePrivateKeys is on *)
Definition w7k_w0 : world :=
  clear_log (snd (run_hop no_faults w7r_cfg w7_sp (Oracle [] []) (HRevokeEnv 0 true)
    (clear_log (snd (run_hop no_faults w7r_cfg w7_sp (Oracle [Some (10%Z, VFresh)] []) HManage empty_world))))).
Example C07_keycompromise_with_reuse_gets_stuck :
  let r := run_hop (Plan (fun _ => false) (Some 16%nat)) w7r_cfg w7_sp (Oracle [Some (20%Z, VFresh)] []) HManage w7k_w0 in
  k_ocsp (w_core w7k_w0) = [(0, true)] /\ fst r = Dead /\ stuck (w_st (snd r)) w7r_cfg 0 = true /\
  dir_key (w_st (snd r)) 0 0 = Some 1 /\ dir_comp (w_st (snd r)) 0 0 = Some 0.
Proof. vm_compute. repeat split. Qed.

(** hypotheses of [C07_recoverable_with_revocations_partial] on a non-trivial state: the replacement after
    key compromise (key reuse on) whose Store of the new .crt (call 17) fails: rolled back, not stuck, and the
    fresh instance - which still sees the revocation - replaces the certificate with yet another new key *)
Example C07_keycompromise_single_error_recovers :
  let r := run_hop (single_error 17) w7r_cfg w7_sp (Oracle [Some (20%Z, VFresh)] []) HManage w7k_w0 in
  stuck (w_st (snd r)) w7r_cfg 0 = false /\
  exists mc w2, manage no_faults w7r_cfg w7_sp (Oracle [Some (30%Z, VFresh)] []) (break_lock (snd r)) = (Ok mc, w2) /\
                c_ser (m_c mc) = 2 /\ m_k mc <> 0.
Proof. vm_compute. split; [reflexivity|]. eexists. eexists. split; [reflexivity|]. split; [reflexivity | discriminate]. Qed.
