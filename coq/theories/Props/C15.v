(** C15 placeholder — replaced once Challenge/Proofs.v is in place. *)
From CM Require Import Lib.Str Challenge.Model.
