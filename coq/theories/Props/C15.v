(** C15 — Challenge material goes only to the matching validation request, on any node.
    Statements only; proofs are in Challenge/Proofs.v.

    Vocabulary (Challenge/Model.v): a history [ops] of Present / CleanUp calls (by this process
    through the full solver stack [WLocal], by another instance sharing the storage [WRemote],
    by this process through a non-distributed solver [WMem]) and storage faults [Tamper];
    [run ops] is the resulting challenge memory + token store, [pending ops] the challenges
    presented and not yet cleaned up.  [http_handle] = HTTPChallengeHandler ([Some body]: the
    challenge handler answered; [None]: the wrapped handler ran), [alpn_get] = the TLS-ALPN
    branch of GetCertificate.  [sf] = KeyBuilder.Safe, [feq] = simple case folding of two code
    points (strings.EqualFold), [issuers] = the issuer keys of Config.Issuers: all arbitrary. *)
From CM Require Import Lib.Str Gen.Consts Safe.Model Challenge.Assoc Challenge.Model Challenge.Proofs Challenge.RevProofs Challenge.MoreProofs Challenge.Tie.

(** Key authorization is written only for GET of exactly <base>/<token> with a Host that folds to
    the identifier of a challenge that is pending, and it is that challenge's key authorization.
    Holds for every history, storage faults included. *)
Theorem C15_http_only_exact : forall sf feq issuers ops disabled load_fault r body,
  http_handle sf feq issuers disabled load_fault (run sf issuers ops) r = Some body ->
  disabled = false /\ h_method r = m_get /\
  exists w j c, In (w, j, c) (pending ops) /\
    h_path r = acme_http_challenge_base_path ++ [c_slash] ++ c_token c /\
    equal_fold feq (challenge_host (h_host r)) (c_ident c) = true /\
    body = c_keyauth c.
Proof. exact http_only_exact. Qed.
Print Assumptions C15_http_only_exact.

(** every other request goes to the application's handler (in any state whatsoever) *)
Theorem C15_http_other_requests_untouched : forall sf feq issuers disabled load_fault s r,
  disabled = true \/ h_method r <> m_get \/ has_prefix acme_http_challenge_base_path (h_path r) = false ->
  http_handle sf feq issuers disabled load_fault s r = None.
Proof. exact http_other_requests_untouched. Qed.
Print Assumptions C15_http_other_requests_untouched.

(** The challenge certificate is returned only to a ClientHello offering exactly [acme-tls/1]
    with a non-empty server name that is (memory) or folds to (storage) the key of a pending
    challenge: the identifier, or the reverse-lookup name of an IP identifier. *)
Theorem C15_alpn_only_acme : forall sf feq issuers ops load_fault sni protos c,
  alpn_get sf feq issuers load_fault (run sf issuers ops) sni protos = AChal c ->
  protos = [acme_tls1_protocol] /\ sni <> [] /\
  (exists w j, In (w, j, c) (pending ops)) /\
  (sni = challenge_key c \/ equal_fold feq (challenge_key c) sni = true).
Proof. exact alpn_only_acme. Qed.
Print Assumptions C15_alpn_only_acme.

Theorem C15_alpn_other_hellos_untouched : forall sf feq issuers load_fault s sni protos,
  sni = [] \/ protos <> [acme_tls1_protocol] ->
  alpn_get sf feq issuers load_fault s sni protos = ANormal.
Proof. exact alpn_other_hellos_untouched. Qed.
Print Assumptions C15_alpn_other_hellos_untouched.

(** Nothing is handed out for a challenge that is not pending (never presented or cleaned up). *)
Theorem C15_not_served_unless_pending : forall sf feq issuers ops disabled load_fault r ka,
  (forall w j c, In (w, j, c) (pending ops) -> c_keyauth c <> ka) ->
  http_handle sf feq issuers disabled load_fault (run sf issuers ops) r <> Some ka.
Proof. exact not_served_unless_pending. Qed.
Print Assumptions C15_not_served_unless_pending.

Theorem C15_cert_not_presented_unless_pending : forall sf feq issuers ops load_fault sni protos c,
  (forall w j, ~ In (w, j, c) (pending ops)) ->
  alpn_get sf feq issuers load_fault (run sf issuers ops) sni protos <> AChal c.
Proof. exact cert_not_presented_unless_pending. Qed.
Print Assumptions C15_cert_not_presented_unless_pending.

Theorem C15_cleaned_not_pending : forall ops w j c, ~ In (w, j, c) (pending (ops ++ [Clean w j c])).
Proof. exact cleaned_not_pending. Qed.
Print Assumptions C15_cleaned_not_pending.

(** Any node answers while the challenge is pending.  Discipline [wf]: no storage tampering, no
    two pending challenges with the same sanitized key (orders are serialised per identifier,
    C01), CleanUp only of what was presented, storing issuers are configured issuers.
    [finds w h c]: the spelling [h] is exactly the challenge key, or — when the challenge is in
    storage — has the same sanitized form and folds to the key. *)
Theorem C15_http_answered_while_pending : forall sf feq issuers, (forall x, feq x x = true) ->
  forall ops w j c r,
  wf sf issuers ops = true -> In (w, j, c) (pending ops) ->
  http_matches feq r c = true -> finds sf feq w (challenge_host (h_host r)) c = true ->
  http_handle sf feq issuers false false (run sf issuers ops) r = Some (c_keyauth c).
Proof. exact http_answered_while_pending. Qed.
Print Assumptions C15_http_answered_while_pending.

Theorem C15_alpn_answered_while_pending : forall sf feq issuers, (forall x, feq x x = true) ->
  forall ops w j c sni,
  wf sf issuers ops = true -> In (w, j, c) (pending ops) -> sni <> [] ->
  finds sf feq w sni c = true ->
  alpn_get sf feq issuers false (run sf issuers ops) sni [acme_tls1_protocol] = AChal c.
Proof. exact alpn_answered_while_pending. Qed.
Print Assumptions C15_alpn_answered_while_pending.

(** the same without model vocabulary in the hypotheses: the CA's request, Host spelled as the
    identifier, is answered whoever ([w]) presented the challenge *)
Theorem C15_any_node_answers_while_pending : forall sf feq issuers, (forall x, feq x x = true) ->
  forall ops w j c r,
  wf sf issuers ops = true -> In (w, j, c) (pending ops) ->
  h_method r = m_get ->
  h_path r = acme_http_challenge_base_path ++ [c_slash] ++ c_token c ->
  challenge_host (h_host r) = c_ident c -> challenge_key c = c_ident c ->
  http_handle sf feq issuers false false (run sf issuers ops) r = Some (c_keyauth c).
Proof. exact any_node_answers_while_pending. Qed.
Print Assumptions C15_any_node_answers_while_pending.

Theorem C15_any_node_presents_cert_while_pending : forall sf feq issuers, (forall x, feq x x = true) ->
  forall ops w j c,
  wf sf issuers ops = true -> In (w, j, c) (pending ops) -> challenge_key c <> [] ->
  alpn_get sf feq issuers false (run sf issuers ops) (challenge_key c) [acme_tls1_protocol] = AChal c.
Proof. exact any_node_presents_cert_while_pending. Qed.
Print Assumptions C15_any_node_presents_cert_while_pending.

(** the boolean specification evaluated by the check on the implementation's observations is
    exactly what the theorems above say: it holds of the model's own answer *)
Theorem C15_http_spec_holds : forall sf feq issuers, (forall x, feq x x = true) ->
  forall ops disabled load_fault r,
  http_spec sf feq issuers ops disabled load_fault r
    (http_handle sf feq issuers disabled load_fault (run sf issuers ops) r) = true.
Proof. exact http_spec_holds. Qed.
Print Assumptions C15_http_spec_holds.

Theorem C15_alpn_spec_holds : forall sf feq issuers, (forall x, feq x x = true) ->
  forall ops load_fault sni protos,
  alpn_spec sf feq issuers ops load_fault sni protos
    (alpn_get sf feq issuers load_fault (run sf issuers ops) sni protos) = true.
Proof. exact alpn_spec_holds. Qed.
Print Assumptions C15_alpn_spec_holds.

(** a Host without colon is compared as it is *)
Theorem C15_challenge_host_plain : forall h, contains c_colon h = false -> challenge_host h = h.
Proof. exact challenge_host_plain. Qed.
Print Assumptions C15_challenge_host_plain.

(** the Host forms of the property text, for every host [h] and port [p] ([plain]: no colon and
    no bracket; [nobr]: no bracket): "h:p", "[h]" (an IPv6 literal without port — the form an
    ACME server sends when validating an IPv6 identifier on port 80), "[h]:p" all denote [h] *)
Theorem C15_challenge_host_port : forall h p, plain h -> plain p ->
  challenge_host (h ++ c_colon :: p) = h.
Proof. exact challenge_host_port. Qed.
Print Assumptions C15_challenge_host_port.

Theorem C15_challenge_host_bracket : forall h, nobr h -> contains c_colon h = true ->
  challenge_host (c_lbr :: h ++ [c_rbr]) = h.
Proof. exact challenge_host_bracket. Qed.
Print Assumptions C15_challenge_host_bracket.

Theorem C15_challenge_host_bracket_port : forall h p, nobr h -> plain p ->
  challenge_host (c_lbr :: h ++ c_rbr :: c_colon :: p) = h.
Proof. exact challenge_host_bracket_port. Qed.
Print Assumptions C15_challenge_host_bracket_port.

(** on ASCII (no folding pairs beyond letter case) "folds to" is equality up to letter case *)
Theorem C15_equal_fold_ascii : forall a b,
  equal_fold (tbl_feq []) a b = true <-> map ascii_lower a = map ascii_lower b.
Proof. exact equal_fold_ascii. Qed.
Print Assumptions C15_equal_fold_ascii.

(** * Non-vacuity and worked instances *)
Definition ex_sf := safe (tbl_lower []) (tbl_space []).
Definition ex_feq := tbl_feq [].
(* "ca-one.test-dir", "ca-two.test-acme-directory" *)
Definition ex_issuers : list str :=
  [[99;97;45;111;110;101;46;116;101;115;116;45;100;105;114];
   [99;97;45;116;119;111;46;116;101;115;116;45;97;99;109;101;45;100;105;114;101;99;116;111;114;121]].
(* http-01 for "a.example", token "tok", key authorization "tok.thumb" *)
Definition ex_c : chal := Chal THttp [116;111;107] [116;111;107;46;116;104;117;109;98] false
                               [97;46;101;120;97;109;112;108;101] None.
(* tls-alpn-01 for the IP 192.0.2.7, key "7.2.0.192.in-addr.arpa" *)
Definition ex_ip : chal := Chal TTlsAlpn [116;50] [116;50;46;116;104] true [49;57;50;46;48;46;50;46;55]
  (Some [55;46;50;46;48;46;49;57;50;46;105;110;45;97;100;100;114;46;97;114;112;97;46]).
Definition ex_ops : list cop := [Present WRemote 1 ex_c; Present WLocal 0 ex_ip].
(* GET /.well-known/acme-challenge/tok, Host "A.Example:80" *)
Definition ex_req : hreq :=
  HReq m_get (acme_http_challenge_base_path ++ [c_slash] ++ [116;111;107]) [65;46;69;120;97;109;112;108;101;58;56;48].

Example C15_feq_refl : forall x, ex_feq x x = true.
Proof. intros x. unfold ex_feq, tbl_feq. rewrite N.eqb_refl. reflexivity. Qed.

(** hypotheses of the "answered while pending" theorems are met by a history with a challenge
    presented by another instance and one presented locally; the request differs in case and
    carries a port *)
Example C15_hypotheses_satisfiable :
  wf ex_sf ex_issuers ex_ops = true /\
  In (WRemote, 1%nat, ex_c) (pending ex_ops) /\
  http_matches ex_feq ex_req ex_c = true /\
  finds ex_sf ex_feq WRemote (challenge_host (h_host ex_req)) ex_c = true /\
  http_handle ex_sf ex_feq ex_issuers false false (run ex_sf ex_issuers ex_ops) ex_req = Some (c_keyauth ex_c) /\
  alpn_get ex_sf ex_feq ex_issuers false (run ex_sf ex_issuers ex_ops) (challenge_key ex_ip) [acme_tls1_protocol] = AChal ex_ip /\
  (* after clean-up by the remote instance: passed to the application *)
  http_handle ex_sf ex_feq ex_issuers false false (run ex_sf ex_issuers (ex_ops ++ [Clean WRemote 1 ex_c])) ex_req = None.
Proof. vm_compute. repeat split; try reflexivity. right; left; reflexivity. Qed.

(** hostOnly / challengeHost on the Host forms of the property text *)
Example C15_host_forms :
  let s := fun l => challenge_host l in
  s [91;58;58;49;93] = [58;58;49] /\                       (* "[::1]"      -> "::1" (fixed: 5887f0d) *)
  s [91;58;58;49;93;58;56;48] = [58;58;49] /\              (* "[::1]:80"   -> "::1" *)
  s [58;58;49] = [58;58;49] /\                             (* "::1"        -> "::1" *)
  s [97;46;98;58;56;48] = [97;46;98] /\                    (* "a.b:80"     -> "a.b" *)
  s [97;46;98;58] = [97;46;98] /\                          (* "a.b:"       -> "a.b" *)
  s [97;46;98;58;56;48;58;56;48] = [97;46;98;58;56;48;58;56;48] /\  (* "a.b:80:80" unchanged *)
  s [91;97;46;98;93] = [91;97;46;98;93] /\                 (* "[a.b]" unchanged: no colon inside *)
  host_only [91;58;58;49;93] = [91;58;58;49;93].           (* hostOnly("[::1]") = "[::1]" *)
Proof. vm_compute. repeat split; reflexivity. Qed.

(** the sanitized-key collision that used to leak the certificate: with the identifier check
    (fixed: d859c14) SNI "a.example#" finds nothing although its storage key is that of "a.example" *)
Example C15_safe_collision_closed :
  let sni := [97;46;101;120;97;109;112;108;101;35] in
  ex_sf sni = ex_sf (c_ident ex_c) /\
  alpn_get ex_sf ex_feq ex_issuers false (run ex_sf ex_issuers ex_ops) sni [acme_tls1_protocol] = AErr.
Proof. vm_compute. split; reflexivity. Qed.

(** * The key of an IP identifier under TLS-ALPN-01 (RFC 8738: the SNI is the reverse-mapping name)
    [rev_name] models dns.ReverseAddr on the address bytes (4: IPv4 / IPv4-mapped, 16: IPv6); the
    harness validates it against the library on every run.  Different addresses never share a
    reverse-mapping name, hence never a challenge key: together with [C15_alpn_only_acme] the
    challenge certificate of one address is never presented for another. *)
Theorem C15_reverse_name_injective : forall b1 b2 n, bytes b1 -> bytes b2 ->
  rev_name b1 = Some n -> rev_name b2 = Some n -> b1 = b2.
Proof. exact rev_name_injective. Qed.
Print Assumptions C15_reverse_name_injective.

Theorem C15_ip_challenge_key_injective : forall c1 c2 b1 b2,
  c_type c1 = TTlsAlpn -> c_type c2 = TTlsAlpn -> c_is_ip c1 = true -> c_is_ip c2 = true ->
  bytes b1 -> bytes b2 -> c_rev c1 = rev_name b1 -> c_rev c2 = rev_name b2 ->
  c_rev c1 <> None -> c_rev c2 <> None ->
  challenge_key c1 = challenge_key c2 -> b1 = b2.
Proof. exact ip_challenge_key_injective. Qed.
Print Assumptions C15_ip_challenge_key_injective.

(** 192.0.2.7 -> 7.2.0.192.in-addr.arpa. ; 2001:db8::7 -> 7.0.0...0.8.b.d.0.1.0.0.2.ip6.arpa. ; the
    hypotheses of the two theorems are satisfiable *)
Example C15_reverse_names :
  rev_name [192; 0; 2; 7] = Some [55;46;50;46;48;46;49;57;50;46;105;110;45;97;100;100;114;46;97;114;112;97;46] /\
  option_map (@length N) (rev_name [32;1;13;184;0;0;0;0;0;0;0;0;0;0;0;7]) = Some 73%nat /\
  option_map (firstn 4) (rev_name [32;1;13;184;0;0;0;0;0;0;0;0;0;0;0;7]) = Some [55;46;48;46] /\
  bytes [192; 0; 2; 7] /\ rev_name [192; 0; 2] = None /\
  challenge_key (Chal TTlsAlpn [116] [107] true [49] (rev_name [192; 0; 2; 7])) =
    [55;46;50;46;48;46;49;57;50;46;105;110;45;97;100;100;114;46;97;114;112;97].
Proof. vm_compute. repeat split; try reflexivity. repeat constructor. Qed.

(** * Clauses the monitor exercises through particular histories, for all histories *)

(** a clean-up ends the challenge whatever its embedded solver reports (the model's [Clean] has no
    outcome: token Delete failing, wrapped CleanUp failing, context cancelled — the memory entry and
    the token of the cleaned challenge are gone; scenarios `*-cleaned-faulty`) *)
Theorem C15_clean_forgets : forall sf issuers s w j c,
  (has_mem w = true -> aget str_eqb (challenge_key c) (mem (step sf issuers s (Clean w j c))) = None) /\
  (has_store w = true ->
     aget skey_eqb (tkey sf (ikof issuers j) (challenge_key c)) (store (step sf issuers s (Clean w j c))) = None).
Proof. exact clean_forgets. Qed.
Print Assumptions C15_clean_forgets.

(** requests served in the middle of a history — answered or not, before or after a Present —
    never change the state, the pending challenges, or what any later request gets (no memoizing
    of answers, no negative caching of misses; scenarios `*-asked*`, `asked-then-*`) *)
Theorem C15_asks_never_matter : forall sf feq issuers ops,
  run sf issuers (filter not_ask ops) = run sf issuers ops /\ pending (filter not_ask ops) = pending ops /\
  wf sf issuers (filter not_ask ops) = wf sf issuers ops /\
  (forall disabled lf r, http_handle sf feq issuers disabled lf (run sf issuers ops) r =
                         http_handle sf feq issuers disabled lf (run sf issuers (filter not_ask ops)) r) /\
  (forall lf sni protos, alpn_get sf feq issuers lf (run sf issuers ops) sni protos =
                         alpn_get sf feq issuers lf (run sf issuers (filter not_ask ops)) sni protos).
Proof. exact asks_never_matter. Qed.
Print Assumptions C15_asks_never_matter.

Theorem C15_ask_before_present : forall sf issuers ops1 ops2,
  run sf issuers (ops1 ++ Ask :: ops2) = run sf issuers (ops1 ++ ops2).
Proof. exact ask_before_present. Qed.
Print Assumptions C15_ask_before_present.

(** an acme-tls/1 hello WITHOUT a server name is not a challenge handshake, in any state: it gets
    the application's certificate path *)
Theorem C15_no_sni_hello_normal : forall sf feq issuers lf s protos,
  alpn_get sf feq issuers lf s [] protos = ANormal.
Proof. exact no_sni_hello_normal. Qed.
Print Assumptions C15_no_sni_hello_normal.

(** instance: a challenge presented elsewhere AFTER this node was asked about it (and found
    nothing) is answered; a challenge cleaned up after having been served is not *)
Example C15_ask_instances :
  let c := Chal THttp [116] [116;46;107] false [97;46;116] None in
  let r := HReq m_get (resource_path c) [97;46;116] in
  let sf := safe (tbl_lower []) (tbl_space []) in
  http_handle sf (tbl_feq []) [[99]] false false (run sf [[99]] [Ask; Present WRemote 0 c]) r = Some [116;46;107] /\
  http_handle sf (tbl_feq []) [[99]] false false (run sf [[99]] [Present WRemote 0 c; Ask; Clean WRemote 0 c]) r = None /\
  alpn_get sf (tbl_feq []) [[99]] false (run sf [[99]] [Present WLocal 0 c]) [] [acme_tls1_protocol] = ANormal.
Proof. vm_compute. repeat split; reflexivity. Qed.
