(** C01 -- Certificate orders for a name are serialized and never repeated cluster-wide.
    Statements over the Issuance LTS (any number of threads, every schedule, every fault plan);
    proofs in Issuance/*.v.  Each theorem is followed by [Print Assumptions]. *)
From Coq Require Import List Bool Arith Lia NArith.
From CM Require Import Gen.Consts Issuance.Model Issuance.Proofs Issuance.Invariants Issuance.OwnFault
  Issuance.NoReissueTL Issuance.NoReissue Issuance.AgreeTL Issuance.Agree Issuance.Refuted Issuance.Check Issuance.SpecLink Issuance.Takeover Issuance.ManageTL Issuance.ManageTakeover Issuance.FreshTL Issuance.Fresh Issuance.Examples Issuance.Final Issuance.FinalTakeover.
Import ListNotations.
Close Scope N_scope.
Open Scope nat_scope.

(** invariant behind F1: a request inside the locked region (re-check ... deferred release) owns
    its lock key in the lock table -- every reachable state, every fault plan *)
Theorem C01_lock_protects_region : forall cs st s, reachable cs st s ->
  forall t th, thread_at s t th -> locked (tpc th) = true -> lks (sh s) (c_lk (cfg th)) = Some t.
Proof. intros cs st s Hr. exact (I_lock_reachable cs st s Hr). Qed.
Print Assumptions C01_lock_protects_region.

(** F1 (partial with respect to "in any spelling": hypothesis [agree_on_lock]): if the requests
    for one identifier agree on the lock key, at most one of them is between the entry and the
    exit of Issuer.Issue, in every reachable state of every thread set, schedule and fault plan *)
Theorem C01_issue_spans_disjoint_partial : forall cs st s t1 t2 th1 th2,
  agree_on_lock cs -> reachable cs st s ->
  thread_at s t1 th1 -> thread_at s t2 th2 ->
  in_span th1 = true -> in_span th2 = true -> c_idn (cfg th1) = c_idn (cfg th2) -> t1 = t2.
Proof. exact issue_spans_disjoint. Qed.
Print Assumptions C01_issue_spans_disjoint_partial.

(** the same statement in the form the check evaluates on the implementation's trace: the span
    monitor S1 of Issuance/Check.v accepts every trace of the model *)
Theorem C01_model_traces_pass_span_monitor : forall cs st es s,
  agree_on_lock cs -> runs any_label (init_state cs st) es s -> spans_ok_ev [] es = true.
Proof. exact model_spans_ok. Qed.
Print Assumptions C01_model_traces_pass_span_monitor.

(** R: without the hypothesis the statement is false of the faithful model: Unicode and
    punycode spellings of one name take different locks *)
Theorem C01_issue_spans_disjoint_refuted_spelling :
  exists cs st s t1 t2 th1 th2,
    reachable cs st s /\ thread_at s t1 th1 /\ thread_at s t2 th2 /\
    in_span th1 = true /\ in_span th2 = true /\ c_idn (cfg th1) = c_idn (cfg th2) /\ t1 <> t2.
Proof. exact issue_spans_disjoint_refuted_spelling. Qed.
Print Assumptions C01_issue_spans_disjoint_refuted_spelling.

(** F2 (partial: canonical spellings [canon0], existence checks not falsified [truthful]): once a
    run contains a completed save (Store of the metadata, the last of the three) of a
    certificate that is not due, then along every continuation -- any schedule, any faults other
    than on Exists calls -- no request that touches that storage name enters the issuer, and
    storage keeps exactly that certificate with its key and metadata *)
Theorem C01_no_reissue_after_save_partial : forall cs st n L s l s1 t th es s2,
  canon0 n L cs -> reachable cs st s ->
  step s l = Some (s1, Ev t (OStore (SK n KMeta)) 0) ->
  thread_at s t th -> cert_prog (cfg th) -> c_issdue (cfg th) = false ->
  runs (truthful n) s1 es s2 ->
  exists ce, nc th = Some ce /\ c_due ce = false /\
    sto (sh s2) (SK n KCrt) = Some (VCrt ce) /\ sto (sh s2) (SK n KKey) <> None /\ sto (sh s2) (SK n KMeta) <> None /\
    Forall (fun e => forall i, e_op e = OIssS i -> forall c, nth_error cs (e_tid e) = Some c -> ~ touches n c) es.
Proof. exact no_reissue_after_save. Qed.
Print Assumptions C01_no_reissue_after_save_partial.

(** ... and the same from the start: storage that already holds a complete bundle whose
    certificate is not due -- no request that touches the name ever enters the issuer *)
Theorem C01_no_issue_on_fresh_storage_partial : forall cs st n L ce es s,
  canon0 n L cs ->
  st (SK n KKey) <> None -> st (SK n KCrt) = Some (VCrt ce) -> st (SK n KMeta) <> None -> c_due ce = false ->
  runs (truthful n) (init_state cs st) es s ->
  sto (sh s) (SK n KCrt) = Some (VCrt ce) /\
  Forall (fun e => forall i, e_op e = OIssS i -> forall c, nth_error cs (e_tid e) = Some c -> ~ touches n c) es.
Proof. exact no_issue_on_fresh_storage. Qed.
Print Assumptions C01_no_issue_on_fresh_storage_partial.

(** R: with a Unicode spelling the pre-check looks under Safe(name) while the save went under the
    punycode name: the second ObtainCertSync issues again, without any fault *)
Theorem C01_no_reissue_refuted_spelling :
  exists cs st ls s es t c,
    run (init_state cs st) ls = Some (s, es) /\
    Forall (fun l => l_fault l = FNone) ls /\
    nth_error cs t = Some c /\ c_force c = false /\
    exists n i j,
      nth_error es i = Some (Ev 0 (OStore (SK n KMeta)) 0) /\ nth_error es j = Some (Ev t (OIssS (c_idn c)) 0) /\
      i < j /\ c_vk c = n.
Proof. exact no_reissue_refuted_spelling. Qed.
Print Assumptions C01_no_reissue_refuted_spelling.

(** F3 (partial: canonical spellings; requests on the name are not cancelled and their existence
    checks not falsified; no unlocked load of ManageSync overlaps a save [ok3]; stated for callers
    whose cached certificate is not due -- that this is always so for callers without a fault of
    their own is C01_callers_agree_not_due_partial below): every ManageSync caller that returned successfully holds
    in its cache exactly the certificate that storage holds, hence all of them the same one *)
Theorem C01_callers_agree_partial : forall cs st n L es s,
  canon0 n L cs -> runs (ok3 n) (init_state cs st) es s ->
  forall t th ce, thread_at s t th -> touches n (cfg th) -> c_prog (cfg th) = PManage ->
    tpc th = PDone ROk -> seen th = Some ce -> c_due ce = false ->
    sto (sh s) (SK n KCrt) = Some (VCrt ce).
Proof. exact callers_agree. Qed.
Print Assumptions C01_callers_agree_partial.

(* a consequence of the theorem above (same assumptions; stated as a Remark so that the costly
   Print Assumptions traversal is not repeated) *)
Remark C01_callers_agree_pairwise_partial : forall cs st n L es s t1 th1 ce1 t2 th2 ce2,
  canon0 n L cs -> runs (ok3 n) (init_state cs st) es s ->
  thread_at s t1 th1 -> touches n (cfg th1) -> c_prog (cfg th1) = PManage -> tpc th1 = PDone ROk ->
  seen th1 = Some ce1 -> c_due ce1 = false ->
  thread_at s t2 th2 -> touches n (cfg th2) -> c_prog (cfg th2) = PManage -> tpc th2 = PDone ROk ->
  seen th2 = Some ce2 -> c_due ce2 = false ->
  ce1 = ce2.
Proof.
  intros cs st n L es s t1 th1 ce1 t2 th2 ce2 H0 R A1 A2 A3 A4 A5 A6 B1 B2 B3 B4 B5 B6.
  pose proof (C01_callers_agree_partial _ _ _ _ _ _ H0 R _ _ _ A1 A2 A3 A4 A5 A6) as X.
  pose proof (C01_callers_agree_partial _ _ _ _ _ _ H0 R _ _ _ B1 B2 B3 B4 B5 B6) as Y.
  congruence.
Qed.

(** F3, all clauses, for callers without a fault of their own (partial: canonical spellings; the
    restrictions [ok3] and [okm]: requests on the name not cancelled, existence checks not
    falsified, no fault inside a save, no unlocked ManageSync load overlapping a save; issuers do
    not hand out certificates that are already due; the stored key matches the stored certificate
    at the start): every ManageSync caller that returned successfully holds exactly the stored
    certificate, and that certificate is not due -- after its own obtain or renewal, after
    waiting for somebody else's, or on first sight *)
Theorem C01_callers_agree_not_due_partial : forall cs st n L es s,
  canon0 n L cs -> (forall c, In c cs -> touches n c -> c_issdue c = false) -> stored_match st n ->
  runs (ok3m n) (init_state cs st) es s ->
  forall t th, thread_at s t th -> touches n (cfg th) -> c_prog (cfg th) = PManage ->
    tpc th = PDone ROk -> flt th = false ->
    exists ce, seen th = Some ce /\ c_due ce = false /\ sto (sh s) (SK n KCrt) = Some (VCrt ce).
Proof. exact callers_agree_not_due. Qed.
Print Assumptions C01_callers_agree_not_due_partial.

(** ... hence any two of them hold the same certificate, which is not due *)
Remark C01_callers_agree_not_due_pairwise_partial : forall cs st n L es s t1 th1 t2 th2,
  canon0 n L cs -> (forall c, In c cs -> touches n c -> c_issdue c = false) -> stored_match st n ->
  runs (ok3m n) (init_state cs st) es s ->
  thread_at s t1 th1 -> touches n (cfg th1) -> c_prog (cfg th1) = PManage -> tpc th1 = PDone ROk -> flt th1 = false ->
  thread_at s t2 th2 -> touches n (cfg th2) -> c_prog (cfg th2) = PManage -> tpc th2 = PDone ROk -> flt th2 = false ->
  exists ce, seen th1 = Some ce /\ seen th2 = Some ce /\ c_due ce = false.
Proof.
  intros cs st n L es s t1 th1 t2 th2 H0 Hnd Hsm R A1 A2 A3 A4 A5 B1 B2 B3 B4 B5.
  destruct (C01_callers_agree_not_due_partial _ _ _ _ _ _ H0 Hnd Hsm R _ _ A1 A2 A3 A4 A5) as (c1 & S1 & D1 & X1).
  destruct (C01_callers_agree_not_due_partial _ _ _ _ _ _ H0 Hnd Hsm R _ _ B1 B2 B3 B4 B5) as (c2 & S2 & D2 & X2).
  rewrite X1 in X2. inversion X2; subst. eauto.
Qed.

(** the hypotheses are met by a run over a due bundle: the first caller renews while the second
    one, which has seen the due certificate, queues for the lock; it then finds the renewal done,
    reloads; both end with the new certificate after exactly one issuance *)
Example C01_callers_agree_not_due_nontrivial :
  let cs := [manage_canon; manage_canon] in
  canon0 0 0 cs /\ (forall c, In c cs -> touches 0 c -> c_issdue c = false) /\ stored_match due_bundle 0 /\
  exists s es th0 th1 ce,
    runs (ok3m 0) (init_state cs due_bundle) es s /\
    thread_at s 0 th0 /\ thread_at s 1 th1 /\ tpc th0 = PDone ROk /\ tpc th1 = PDone ROk /\
    flt th0 = false /\ flt th1 = false /\ seen th0 = Some ce /\ seen th1 = Some ce /\ c_due ce = false /\
    length (filter (fun e => match e_op e with OIssS _ => true | _ => false end) es) = 1.
Proof. exact ex_callers_agree_not_due_nontrivial. Qed.

(** the restriction [ok3] is met by non-trivial runs: the second caller arrives, finds nothing,
    queues for the lock while the first one issues and saves, then takes its turn, finds the
    certificate under the lock and loads it *)
Example C01_callers_agree_nontrivial :
  exists s es th0 th1 ce,
    runs (ok3 0) (init_state [manage_canon; manage_canon] no_sto) es s /\
    thread_at s 0 th0 /\ thread_at s 1 th1 /\ tpc th0 = PDone ROk /\ tpc th1 = PDone ROk /\
    seen th0 = Some ce /\ seen th1 = Some ce /\ c_due ce = false /\
    length (filter (fun e => match e_op e with OIssS _ => true | _ => false end) es) = 1.
Proof. exact ex_callers_agree_nontrivial. Qed.

(** F4a: as long as no Unlock call itself fails, every reachable state with an unfinished
    request has a step that needs no fault (a waiter is blocked only while a live holder can move) *)
Theorem C01_deadlock_free : forall cs st es s,
  runs unlock_ok (init_state cs st) es s ->
  (exists t th, thread_at s t th /\ final_pc (tpc th) = false) ->
  exists l s' e, l_fault l = FNone /\ step s l = Some (s', e).
Proof. exact deadlock_free. Qed.
Print Assumptions C01_deadlock_free.

(** F4b: every run of programs without a retry loop (sync obtain / renew, ManageSync, ARI update)
    is finite, whatever the schedule and the faults: at most 180 steps per request *)
Theorem C01_sync_runs_bounded : forall cs st es s,
  (forall c, In c cs -> finite_prog c = true) ->
  runs any_label (init_state cs st) es s -> length es <= 180 * length cs.
Proof. exact finite_runs_bounded. Qed.
Print Assumptions C01_sync_runs_bounded.

(** F4c for obtain (sync and async), full: whatever the other requests do and however they fail,
    a request to obtain returns an error (or panics) only if a fault was injected into one of its
    own operations -- a leader's failure is never the cause of a waiting obtain's error *)
Theorem C01_obtain_fails_only_by_own_fault : forall cs st s t th a r,
  reachable cs st s -> thread_at s t th -> c_prog (cfg th) = PObtain a ->
  tpc th = PDone r -> r <> ROk -> flt th = true.
Proof. exact obtain_fails_only_by_own_fault. Qed.
Print Assumptions C01_obtain_fails_only_by_own_fault.

(** F4c for renewals (partial: the run contains no failing Store inside a save under that storage
    name -- the excluded class is refuted below): storage holds the bundle from the start; whatever
    the other requests are (any number, any kind, any spelling, forced or not), however they are
    scheduled and however they fail -- issuer errors, event callbacks, cancellations, panics, also
    in the request that holds the turn -- a request to renew (sync or async) returns an error or
    panics only if a fault was injected into one of its own operations: a waiting renewal takes
    over from a failed leader *)
Theorem C01_renew_fails_only_by_own_fault_partial : forall cs st n es s,
  bundle_complete st n -> runs (save_ok n) (init_state cs st) es s ->
  forall t th a r, thread_at s t th -> c_prog (cfg th) = PRenew a -> c_vk (cfg th) = n ->
    tpc th = PDone r -> r <> ROk -> flt th = true.
Proof. exact renew_fails_only_by_own_fault. Qed.
Print Assumptions C01_renew_fails_only_by_own_fault_partial.

(** the hypotheses are met by a run in which the leader fails inside the issuer while a second
    renewal waits for the lock; the waiter then takes its turn, issues and succeeds *)
Example C01_takeover_nontrivial :
  exists s es th0 th1,
    runs (save_ok 0) (init_state [renew_canon; renew_canon] due_bundle) es s /\ bundle_complete due_bundle 0 /\
    thread_at s 0 th0 /\ thread_at s 1 th1 /\ tpc th0 = PDone RErr /\ flt th0 = true /\
    tpc th1 = PDone ROk /\ flt th1 = false /\
    length (filter (fun e => match e_op e with OIssS _ => true | _ => false end) es) = 2.
Proof. exact ex_takeover_nontrivial. Qed.

(** F4c for ManageSync (partial: canonical spellings; no fault of any kind inside the Stores of a
    save of the bundle; no unlocked load of ManageSync overlapping a save [okm] -- the two excluded
    classes are exactly the known findings, refuted below): the stored key belongs to the stored
    certificate from the start (or a part is missing); whatever the other requests on the name do
    and however they fail -- in the issuer, in callbacks, by cancellation or panic, also while they
    hold the turn -- a ManageSync caller returns an error only if a fault was injected into one of
    its own operations: it waits, takes its turn, obtains or renews or finds the certificate *)
Theorem C01_manage_fails_only_by_own_fault_partial : forall cs st n L es s,
  canon0 n L cs -> stored_match st n -> runs (okm n) (init_state cs st) es s ->
  forall t th r, thread_at s t th -> touches n (cfg th) -> c_prog (cfg th) = PManage ->
    tpc th = PDone r -> r <> ROk -> flt th = true.
Proof. exact manage_fails_only_by_own_fault. Qed.
Print Assumptions C01_manage_fails_only_by_own_fault_partial.

(** the hypotheses are met by a run in which the leader (ObtainCertSync) panics inside the issuer
    while a ManageSync caller waits for the lock; the waiter takes over, issues, saves, loads *)
Example C01_manage_takeover_nontrivial :
  let cs := [TCfg (PObtain false) 0 0 0 0 false false false false; manage_canon] in
  canon0 0 0 cs /\ stored_match no_sto 0 /\
  exists s es th0 th1 ce,
    runs (okm 0) (init_state cs no_sto) es s /\
    thread_at s 0 th0 /\ thread_at s 1 th1 /\ tpc th0 = PDone RPanic /\ flt th0 = true /\
    tpc th1 = PDone ROk /\ flt th1 = false /\ seen th1 = Some ce /\ sto (sh s) (SK 0 KCrt) = Some (VCrt ce).
Proof. exact ex_manage_takeover_nontrivial. Qed.

(** R: for ManageSync the same statement is false: its first load runs outside the issue lock *)
Theorem C01_manage_load_races_renew_save_refuted :
  exists cs st ls s es th,
    run (init_state cs st) ls = Some (s, es) /\ Forall (fun l => l_fault l = FNone) ls /\
    (forall c, In c cs -> on_key 0 0 c) /\
    thread_at s 1 th /\ c_prog (cfg th) = PManage /\ tpc th = PDone RErr /\ flt th = false.
Proof. exact manage_load_races_renew_save_refuted. Qed.
Print Assumptions C01_manage_load_races_renew_save_refuted.

(** R: and for a waiting renewal when the leader's save hits a storage fault (storeTx's rollback
    deletes the new key after the old one was overwritten) *)
Theorem C01_takeover_refuted_save_fault :
  exists cs st ls s es th,
    run (init_state cs st) ls = Some (s, es) /\
    (forall c, In c cs -> on_key 0 0 c) /\
    thread_at s 1 th /\ tpc th = PDone RErr /\ flt th = false.
Proof. exact takeover_refuted_save_fault. Qed.
Print Assumptions C01_takeover_refuted_save_fault.

(** the hypotheses are satisfiable by non-trivial reachable states: two ManageSync callers with the
    canonical spelling, the first inside the issuer, the second waiting for the lock *)
Example C01_hypotheses_nontrivial :
  let cs := [manage_canon; manage_canon] in
  agree_on_lock cs /\ canon0 0 0 cs /\
  exists s th1 th2, reachable cs no_sto s /\ thread_at s 0 th1 /\ thread_at s 1 th2 /\
    in_span th1 = true /\ tpc th2 = PLockWait.
Proof. exact ex_hypotheses_nontrivial. Qed.

(** leader crash: the instance holding the turn dies at any point of any run; once the Locker's
    staleness rule has freed its lock ([crash_stale]) a request that was waiting for that lock
    acquires it with its next step ... *)
Theorem C01_waiter_takes_over_after_crash : forall s t th w thw,
  I_lock s -> thread_at s t th -> locked (tpc th) = true ->
  thread_at s w thw -> w <> t -> tpc thw = PLockWait -> c_lk (cfg thw) = c_lk (cfg th) ->
  exists s' e, step (crash_stale s t) (Label w FNone true) = Some (s', e) /\
    e_op e = OAcq (c_lk (cfg thw)) /\ e_out e = 0 /\ lks (sh s') (c_lk (cfg thw)) = Some w.
Proof. exact waiter_takes_over_after_crash. Qed.
Print Assumptions C01_waiter_takes_over_after_crash.

(** ... and along every continuation (any schedule, any faults) issue spans under one lock key stay
    disjoint: F1 survives the crash of a leader *)
Theorem C01_spans_disjoint_after_crash : forall s t es s' t1 th1 t2 th2,
  I_lock s -> runs any_label (crash_stale s t) es s' ->
  thread_at s' t1 th1 -> thread_at s' t2 th2 -> in_span th1 = true -> in_span th2 = true ->
  c_lk (cfg th1) = c_lk (cfg th2) -> t1 = t2.
Proof. exact spans_disjoint_after_crash. Qed.
Print Assumptions C01_spans_disjoint_after_crash.

(** ... and nobody hangs behind the dead leader *)
Theorem C01_no_hang_after_crash : forall cs st es0 s t es s',
  runs unlock_ok (init_state cs st) es0 s -> runs unlock_ok (crash_stale s t) es s' ->
  (exists u th, thread_at s' u th /\ final_pc (tpc th) = false) ->
  exists l s'' e, l_fault l = FNone /\ step s' l = Some (s'', e).
Proof. exact no_hang_after_crash. Qed.
Print Assumptions C01_no_hang_after_crash.

(** ... and the crash is never the cause of a follower's failure (F4c for obtain across a crash):
    every other request to obtain errs or panics only through a fault of its own *)
Theorem C01_obtain_follower_fails_only_by_own_fault_after_crash : forall cs st s t es s' u th a r,
  reachable cs st s -> runs any_label (crash_stale s t) es s' ->
  u <> t -> thread_at s' u th -> c_prog (cfg th) = PObtain a -> tpc th = PDone r -> r <> ROk -> flt th = true.
Proof. exact obtain_follower_fails_only_by_own_fault_after_crash. Qed.
Print Assumptions C01_obtain_follower_fails_only_by_own_fault_after_crash.

(** witness: the leader dies inside the issuer, the waiting follower acquires, issues, saves, succeeds *)
Example C01_takeover_after_crash_nontrivial :
  exists s es s1 es1 th1,
    run (init_state [obtain_lockA; obtain_lockA] no_sto) (sched (rep 6 0 ++ rep 2 1)) = Some (s, es) /\
    run (crash_stale s 0) (sched (rep 10 1)) = Some (s1, es1) /\
    thread_at s1 1 th1 /\ tpc th1 = PDone ROk /\ flt th1 = false /\
    sto (sh s1) (SK 0 KCrt) <> None /\ lks (sh s1) 0 = None.
Proof. exact ex_takeover_after_crash. Qed.

(** R: a lock key that depends on the issuer list (name + preferred issuer) is refuted: configs that
    agree on storage names and identifier but not on the lock key are inside the issuer together *)
Theorem C01_issuer_dependent_lock_key_refuted :
  exists s es th1 th2,
    run (init_state [obtain_lockA; obtain_lockB] no_sto) (sched (rep 6 0 ++ rep 6 1)) = Some (s, es) /\
    thread_at s 0 th1 /\ thread_at s 1 th2 /\ in_span th1 = true /\ in_span th2 = true /\
    c_idn (cfg th1) = c_idn (cfg th2) /\ c_pk (cfg th1) = c_pk (cfg th2) /\ c_vk (cfg th1) = c_vk (cfg th2).
Proof. exact issuer_dependent_lock_key_refuted. Qed.
Print Assumptions C01_issuer_dependent_lock_key_refuted.

(** tie to the source (translator T, re-read on every run): the statement order the program
    counters follow -- obtainCert: pre-check, checkStorage, acquireLock, and inside the attempt
    closure the re-check before cert_obtaining and the save; renewCert: checkStorage, acquireLock,
    and inside the closure load, managedCertNeedsRenewal, cert_obtaining, save -- and the lock key
    "issue_cert" + "_" + name *)
Theorem C01_source_order_matches_model :
  c01_obtain_precheck_lock_recheck_order = true /\ c01_renew_lock_load_decide_order = true /\
  c01_lock_key_is_op_underscore_name = true /\
  c01_cert_issue_lock_op = [105; 115; 115; 117; 101; 95; 99; 101; 114; 116]%N.
Proof. repeat split; reflexivity. Qed.
Print Assumptions C01_source_order_matches_model.

