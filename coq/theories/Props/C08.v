(** C08 — File locks exclude each other while holders live and recover after a crash. *)
From CM Require Import FileLock.Model.
