(** C08 — File locks exclude each other while holders live and recover after a crash.
    Only statements, each closed by [exact] (or a few lines instantiating the repository's
    configuration), with [Print Assumptions] beneath.

    The model ([FileLock.Model]) is instantiated with [cfg_repo d]: every constant and the
    two code-shape flags come from Gen.Consts, regenerated from filestorage.go on every run;
    [d] is the heartbeat latency bound of the timing hypothesis H-live, any value with
    interval + d <= factor * interval. *)
From Coq Require Import List ZArith Bool Lia.
From CM Require Import Lib.Str Lib.SafeSteps Gen.Consts Safe.Model Safe.KeysProofs.
From CM Require Import FileLock.Model FileLock.Check FileLock.Proofs FileLock.Refuted FileLock.Extra.
Import ListNotations.
Open Scope Z_scope.

Definition H_live (d : Z) : Prop := 0 <= d /\ d <= (lock_stale_factor - 1) * lock_freshness_interval.

(* re-checked on the regenerated constants: the heartbeat compares Created (the fix), the
   interval is positive, and the staleness factor leaves room for a latency *)
Lemma repo_checks d : checks (cfg_repo d) = true.
Proof. reflexivity. Qed.
(* ... and an empty lock file counts as stale only when it was not modified within
   factor * interval (the second fix to the empty-file rule) *)
Lemma repo_guard d : guard (cfg_repo d) = true.
Proof. reflexivity. Qed.
Lemma repo_good d : H_live d -> good_cfg (cfg_repo d).
Proof.
  unfold H_live, good_cfg, cfg_repo, cfg_repo_eps. cbn [interval delta factor eps].
  unfold lock_stale_factor, lock_freshness_interval. lia.
Qed.

(** The statement-level shape of the lock code that the labels of the LTS are built on,
    re-read from filestorage.go by the translator on every run: the create is O_EXCL and
    starts the heartbeat; the heartbeat sleeps lockFreshnessInterval, then opens, compares
    Created, truncates, writes, syncs in this order; Unlock removes the lock file by name;
    every select in Lock returns ctx.Err() on ctx.Done(); the stale branch removes the file
    by name and retries; staleness is judged on Updated, or Created when Updated is zero; the
    empty-read count is reset by a successful read and an empty file is given up only when
    its modification time is older than the staleness threshold. *)
Theorem C08_code_shape_as_modelled :
  lock_create_is_excl = true /\ lock_create_starts_heartbeat = true /\
  lock_hb_period = lock_freshness_interval /\
  lock_hb_open_truncate_write_sync = true /\ lock_hb_check_before_truncate = true /\
  lock_unlock_removes_lock_file = true /\
  (lock_selects_with_ctx = lock_selects /\ 0 < lock_selects) /\
  lock_stale_branch_removes_and_retries = true /\ lock_uses_one_file_name = true /\
  lock_stale_ref_updated_else_created = true /\ lock_empty_count_resets = true /\
  lock_empty_mtime_guard = true /\ lock_empty_mtime_factor = lock_stale_factor /\
  lock_undecodable_as_empty = true.
Proof. repeat split; reflexivity. Qed.
Print Assumptions C08_code_shape_as_modelled.

(** Mutual exclusion.  For any number of threads in any number of processes and every
    interleaving of their steps, as long as every holder is alive - no process is killed
    while one of its threads has created or holds the lock file ([live_ok]); kills of waiters
    and of processes that released earlier are allowed - and live processes are not stalled
    (H-live, built into [LTick]: a heartbeat runs within [d] of its due time, a creator
    writes its metadata within [d] of the create, a heartbeat rewrites the file within eps
    (0 here) of truncating it): at most one thread holds the lock, however long it is held.
    No hypothesis about empty reads is needed any more: with the modification-time guard a
    waiter never gives up on the empty file of a live owner ([GapInv]). *)
Theorem C08_mutex_no_crash : forall d, H_live d -> forall s t1 t2 i1 i2,
  reach (cfg_repo d) (live_ok (cfg_repo d)) init s ->
  cs s t1 = CHolding i1 -> cs s t2 = CHolding i2 -> t1 = t2.
Proof. intros d Hd. exact (mutex_no_crash (cfg_repo d) (repo_checks d) (repo_guard d) (repo_good d Hd)). Qed.
Print Assumptions C08_mutex_no_crash.

(** A waiter acquires only after the holder has released: a create succeeds only in a
    state where nobody holds, and a holder stops holding only by its own Unlock. *)
Theorem C08_waiter_after_release : forall d, H_live d -> forall s t s' ec i,
  reach (cfg_repo d) (live_ok (cfg_repo d)) init s ->
  step (cfg_repo d) s (LTryCreate t) = Some s' -> cs s' t = CCreated ec i ->
  forall t' j, cs s t' <> CHolding j.
Proof. intros d Hd. exact (waiter_after_release (cfg_repo d) (repo_checks d) (repo_guard d) (repo_good d Hd)). Qed.
Print Assumptions C08_waiter_after_release.

(** While every owner lives no Lock call ever judges the lock file stale or removes it ... *)
Theorem C08_stale_removal_needs_dead_owner : forall d, H_live d -> forall s t ec,
  reach (cfg_repo d) (live_ok (cfg_repo d)) init s -> cs s t <> CStale ec.
Proof. intros d Hd. exact (stale_removal_needs_dead_owner (cfg_repo d) (repo_checks d) (repo_guard d) (repo_good d Hd)). Qed.
Print Assumptions C08_stale_removal_needs_dead_owner.

(** ... but after a holder's death the documented race exists (repaired code, heartbeats on
    time): two waiters both judge the dead file stale; the first removes it, creates its own
    and holds; the second's os.Remove of the NAME then removes the first one's live file, and
    it holds too.  Mutual exclusion among the live contenders is lost after a recovery. The
    window is the few microseconds between a waiter's read and its remove; the comment above
    FileStorage accepts it ("imperfect mutual exclusion if locks become stale"). *)
Theorem C08_mutex_after_crash_refuted_stale_race :
  exists s i1 i2, run cfg_resets init stale_race_run = Some s /\
    cs s 0%nat = CDead /\ cs s 1%nat = CHolding i1 /\ cs s 2%nat = CHolding i2 /\ i1 <> i2.
Proof. exact mutex_after_crash_refuted_stale_race. Qed.
Print Assumptions C08_mutex_after_crash_refuted_stale_race.

Theorem C08_holder_leaves_only_by_unlock : forall c s l s' t i, step c s l = Some s' ->
  cs s t = CHolding i -> cs s' t <> CHolding i -> l = LUnlock t \/ exists p, l = LKill p.
Proof. exact holder_leaves_only_by_unlock. Qed.
Print Assumptions C08_holder_leaves_only_by_unlock.

(** A free lock is obtained at once, and a released lock stays free until the next Lock
    call takes it (no old heartbeat, waiter or kill makes a lock file appear). *)
Theorem C08_free_lock_obtained_at_once : forall c s t ec,
  file s = None -> cs s t = CTry ec -> lastcreate s < now s ->
  exists s2, run c s [LTryCreate t; LWriteMeta t] = Some s2 /\ cs s2 t = CHolding (nexti s) /\
             file s2 = Some (nexti s) /\ now s2 = now s.
Proof. exact free_lock_obtained_at_once. Qed.
Print Assumptions C08_free_lock_obtained_at_once.

Theorem C08_only_create_makes_lock_file : forall c s l s', step c s l = Some s' ->
  file s = None -> file s' <> None -> exists t, l = LTryCreate t.
Proof. exact only_create_makes_lock_file. Qed.
Print Assumptions C08_only_create_makes_lock_file.

(** A blocked acquisition returns at once with the context's error when cancelled; and a
    Lock call waits nowhere else than in the select. *)
Theorem C08_cancel_prompt : forall c s t ec until, cs s t = CSleep ec until ->
  exists s', step c s (LCancel t) = Some s' /\ cs s' t = CFailed ErrCtx /\ now s' = now s.
Proof. exact cancel_prompt. Qed.
Print Assumptions C08_cancel_prompt.

Theorem C08_lock_call_waits_only_in_select : forall c s t,
  match cs s t with
  | CTry _ => exists s', step c s (LTryCreate t) = Some s'
  | CExists _ => exists s', step c s (LOpenRead t) = Some s'
  | CStale _ => exists s', step c s (LRemove t) = Some s'
  | CCreated _ _ => lastcreate s < now s -> exists s', step c s (LWriteMeta t) = Some s'
  | _ => True
  end.
Proof. exact lock_call_waits_only_in_select. Qed.
Print Assumptions C08_lock_call_waits_only_in_select.

(** Recovery (for the code with the heartbeat fix).  The holder's process is killed in
    ANY reachable state (any history: kills, give-ups, other lock cycles, old heartbeats
    still around).  In every later state in which the dead holder's lock file is still in
    place and more than factor * interval has passed since the kill, the file is unchanged
    and any waiter at the top of its loop obtains the lock by its own next four steps,
    in no time.  Waiters loop at least every fileLockPollInterval. *)
Theorem C08_stale_recovers : forall d, H_live d -> forall s0 t i cr u s ls s' w ec,
  reach (cfg_repo d) any_label init s0 ->
  cs s0 t = CHolding i -> file s0 = Some i -> content s0 i = FMeta cr (Some u) ->
  step (cfg_repo d) s0 (LKill (cproc s0 t)) = Some s ->
  run (cfg_repo d) s ls = Some s' -> file s' = Some i ->
  lock_stale_factor * lock_freshness_interval < now s' - now s0 ->
  cs s' w = CTry ec ->
  content s' i = FMeta cr (Some u) /\
  exists s4 ec', run (cfg_repo d) s' [LTryCreate w; LOpenRead w; LRemove w; LTryCreate w] = Some s4 /\
                 cs s4 w = CCreated ec' (nexti s') /\ file s4 = Some (nexti s') /\ now s4 = now s'.
Proof.
  intros d Hd s0 t i cr u s ls s' w ec R.
  apply (stale_recovers (cfg_repo d) (repo_checks d) (repo_good d Hd)).
  exact (HBInv_reach (cfg_repo d) (repo_checks d) (repo_good d Hd) any_label s0 R).
Qed.
Print Assumptions C08_stale_recovers.

(** ... and when the holder died while the file was empty - killed between the O_EXCL
    create and the metadata write ([owner]: CCreated), or in a heartbeat's truncate gap -
    it stays empty with its modification time frozen, and a read by a waiter that has
    counted to the retry limit treats it as stale as soon as more than factor * interval
    has passed since that modification (before, the waiter looks again every 250 ms) *)
Theorem C08_empty_recovers : forall d, H_live d -> forall s0 t i s ls s',
  reach (cfg_repo d) any_label init s0 ->
  owner s0 t i -> file s0 = Some i -> content s0 i = FEmpty ->
  step (cfg_repo d) s0 (LKill (cproc s0 t)) = Some s ->
  run (cfg_repo d) s ls = Some s' -> file s' = Some i ->
  content s' i = FEmpty /\ mtime s' i = mtime s0 i /\
  forall w ec, cs s' w = CExists ec ->
    exists s1, step (cfg_repo d) s' (LOpenRead w) = Some s1 /\
      cs s1 w = if (S ec <? retries (cfg_repo d))%nat ||
                   negb (lock_stale_factor * lock_freshness_interval <? now s' - mtime s0 i)
                then CSleep (S ec) (now s' + esleep (cfg_repo d)) else CStale (S ec).
Proof.
  intros d Hd s0 t i s ls s' R.
  apply (empty_recovers (cfg_repo d) (repo_checks d) (repo_good d Hd)).
  exact (HBInv_reach (cfg_repo d) (repo_checks d) (repo_good d Hd) any_label s0 R).
Qed.
Print Assumptions C08_empty_recovers.

(** A lock file whose contents cannot be decoded (cut off in the middle of a write, corrupt)
    is handled like an empty one: every read counts, and past the retry limit it is treated
    as stale once it has not been modified for factor * interval - Lock no longer returns an
    error that nobody can recover from. *)
Theorem C08_undecodable_like_empty : forall d s w ec i,
  file s = Some i -> content s i = FGarbage -> cs s w = CExists ec ->
  exists s1, step (cfg_repo d) s (LOpenRead w) = Some s1 /\
    cs s1 w = if (S ec <? retries (cfg_repo d))%nat ||
                 negb (lock_stale_factor * lock_freshness_interval <? now s - mtime s i)
              then CSleep (S ec) (now s + esleep (cfg_repo d)) else CStale (S ec).
Proof.
  intros d s w ec i Hf Hc Hw. cbn [step]. rewrite Hw, Hf, Hc. cbn [undec cfg_repo cfg_repo_eps].
  change lock_undecodable_as_empty with true. cbn iota.
  match goal with |- context [if ?b then _ else _] => destruct b eqn:E end;
    eexists; (split; [reflexivity|]); cbn [cs set_cs]; rewrite upd_eq;
    cbn [guard retries factor interval cfg_repo cfg_repo_eps] in E |- *;
    change (lock_empty_mtime_guard && (lock_empty_mtime_factor =? lock_stale_factor)) with true in E;
    cbn [andb] in E; rewrite E; reflexivity.
Qed.
Print Assumptions C08_undecodable_like_empty.

(** The bounded time: in every state of every run (kills included) a Lock call that sleeps is
    due to look at the lock file again within max(fileLockPollInterval, empty-retry sleep) =
    the poll interval of the repository.  With the two theorems above: a persistent waiter
    is at the top of its loop within one poll interval of the file becoming stale
    (factor * interval after the holder's death), resp. reads an empty file at least every
    empty-retry sleep, and then obtains the lock by its own next steps. *)
Theorem C08_waiter_looks_again_within_poll : forall d s t ec u,
  reach (cfg_repo d) any_label init s -> cs s t = CSleep ec u ->
  u <= now s + file_lock_poll_interval.
Proof.
  intros d s t ec u R H. exact (SleepInv_reach (cfg_repo d) any_label s R t ec u H).
Qed.
Print Assumptions C08_waiter_looks_again_within_poll.

(** Without the fix the statement is false: the zombie heartbeat. *)
Theorem C08_stale_recovers_refuted_zombie :
  exists s0, run cfg_nofix init zombie_prefix = Some s0 /\
    cs s0 1%nat = CDead /\ (exists ec u, cs s0 2%nat = CSleep ec u) /\
    forall n, exists s i cr u, run cfg_nofix s0 (zombie_rounds n) = Some s /\
      now s = now s0 + Z.of_nat n * (5 * sec) /\ cs s 1%nat = CDead /\
      file s = Some i /\ content s i = FMeta cr u /\ is_stale cfg_nofix (now s) cr u = false.
Proof. exact stale_recovers_refuted_zombie. Qed.
Print Assumptions C08_stale_recovers_refuted_zombie.

(** For the code before the emptyCount fix ([cfg_asis]: the count is cumulative over the
    whole Lock call) the hypothesis "no waiter gives up on an empty live file" is violated
    by harmless-looking runs: eight gap reads spread over a 40 s hold, with successful
    reads in between, heartbeats on time, nobody killed, end with two holders.  With the
    fix ([cfg_resets]: a successful decode resets the count) the same schedule is
    harmless (Example [empty_count_run_with_reset] in FileLock.Refuted). *)
Theorem C08_mutex_refuted_empty_count :
  exists s i1 i2, run cfg_asis init empty_count_run = Some s /\
    (forall p, ~ In (LKill p) empty_count_run) /\
    cs s 0%nat = CHolding i1 /\ cs s 1%nat = CHolding i2 /\ i1 <> i2.
Proof. exact mutex_refuted_empty_count. Qed.
Print Assumptions C08_mutex_refuted_empty_count.

(** Why the modification-time guard: for the code with the first two fixes only
    ([cfg_resets]: no guard, healthy disk) mutual exclusion needed the extra hypothesis "no
    waiter gives up on an empty live file", and that can fail without anybody being dead:
    eight processes take and release the lock 250 ms apart and a waiter reads the file each
    time between a taker's O_EXCL create and its metadata write - eight consecutive empty
    reads within 2 s - and removes the file of the live eighth taker: two holders. *)
Theorem C08_mutex_refuted_creation_gaps :
  exists s i1 i2, run cfg_resets init creation_gaps_run = Some s /\
    (forall p, ~ In (LKill p) creation_gaps_run) /\
    cs s 8%nat = CHolding i1 /\ cs s 0%nat = CHolding i2 /\ i1 <> i2 /\ now s < 2 * sec.
Proof. exact mutex_refuted_creation_gaps. Qed.
Print Assumptions C08_mutex_refuted_creation_gaps.

(** ... and realistically on slow storage (same code, [cfg_slow]: no guard): ONE truncate ->
    write gap of up to 2 s (longer than the eight retries, 250 ms apart) lets a waiter read the
    live holder's file empty eight times in a row within that gap.  Heartbeat on time, nobody
    killed: two holders.  Reproduced on the real code before the guard was added (scenario
    [slow-truncate-gap-longer-than-retries], 2.3 s gap injected with strace); with the guard
    the scenario passes and [C08_mutex_no_crash] covers it (eps <= factor * interval). *)
Theorem C08_mutex_refuted_long_write_gap :
  exists s i1 i2, run cfg_slow init long_gap_run = Some s /\
    (forall p, ~ In (LKill p) long_gap_run) /\
    cs s 0%nat = CHolding i1 /\ cs s 1%nat = CHolding i2 /\ i1 <> i2 /\
    now s < 5 * sec + eps cfg_slow.
Proof. exact mutex_refuted_long_write_gap. Qed.
Print Assumptions C08_mutex_refuted_long_write_gap.

(** Distinct names never block each other — for names with different Safe images: their
    lock files are different files, and steps on one lock file neither change nor enable
    or disable steps on another. *)
Theorem C08_distinct_files_independent : forall lower is_space,
  (forall c, is_upper_ascii (lower c) = false) ->
  forall root n1 n2, good_str root = true ->
  safe lower is_space n1 <> safe lower is_space n2 ->
  lock_filename lower is_space root n1 <> lock_filename lower is_space root n2.
Proof.
  intros lower is_space H2 root n1 n2 Hr Hne E.
  destruct (lockfile_in_locks_dir lower is_space H2 root n1 Hr) as [K1 _].
  destruct (lockfile_in_locks_dir lower is_space H2 root n2 Hr) as [K2 _].
  rewrite E, K2 in K1. apply app_inv_head in K1. injection K1; intros K.
  apply app_inv_tail in K. congruence.
Qed.
Print Assumptions C08_distinct_files_independent.

Theorem C08_lock_files_do_not_interact : forall c s1 s2 l,
  (forall s1' s2', step2 c (s1, s2) (L1 l) = Some (s1', s2') -> s2' = s2 /\ step c s1 l = Some s1') /\
  (forall s2', step c s2 l = Some s2' -> (forall d, l <> LTick d) -> (forall p, l <> LKill p) ->
               step2 c (s1, s2) (L2 l) = Some (s1, s2')).
Proof. intros c s1 s2 l. split; [apply step2_independent | apply step2_enabled]. Qed.
Print Assumptions C08_lock_files_do_not_interact.

(** ... but not for all distinct names: Safe is not injective *)
Theorem C08_distinct_names_refuted_safe_collision :
  let n1 := [97; 43; 98]%N (* "a+b" *) in
  let n2 := [97; 95; 112; 108; 117; 115; 95; 98]%N (* "a_plus_b" *) in
  n1 <> n2 /\
  lock_filename (tbl_lower []) (tbl_space []) [114]%N n1 = lock_filename (tbl_lower []) (tbl_space []) [114]%N n2.
Proof. split; [discriminate | vm_compute; reflexivity]. Qed.
Print Assumptions C08_distinct_names_refuted_safe_collision.

(** ** non-vacuity *)
Definition d2 : Z := 2000000000.
Example C08_H_live_satisfiable : H_live d2.
Proof. unfold H_live, d2, lock_stale_factor, lock_freshness_interval. lia. Qed.

(** a run without kills or give-ups in which one thread holds across two heartbeats while
    another polls *)
Definition demo_live : list label :=
  [LStart 0 0; LTryCreate 0; LWriteMeta 0; LStart 1 1; LTryCreate 1; LOpenRead 1;
   LTick lock_freshness_interval; LHbWake 0; LHbWrite 0; LWake 1; LTryCreate 1; LOpenRead 1;
   LTick lock_freshness_interval; LHbWake 0; LWake 1; LTryCreate 1; LOpenRead 1; LHbWrite 0]%nat.

Fixpoint reach_run (c : config) (ok : state -> label -> bool) (s : state) (ls : list label) : option state :=
  match ls with
  | [] => Some s
  | l :: r => if ok s l then match step c s l with Some s' => reach_run c ok s' r | None => None end else None
  end.
Lemma reach_run_sound c (okb : state -> label -> bool) (ok : state -> label -> Prop) :
  (forall s l, okb s l = true -> ok s l) ->
  forall ls s0 s s', reach c ok s0 s -> reach_run c okb s ls = Some s' -> reach c ok s0 s'.
Proof.
  intros Hok. induction ls as [|l ls IH]; intros s0 s s' R; cbn [reach_run].
  - intros E; injection E; intros <-; exact R.
  - destruct (okb s l) eqn:Eo; [|discriminate]. destruct (step c s l) as [s1|] eqn:Es; [|discriminate].
    apply IH. econstructor; eauto.
Qed.
Definition live_okb (c : config) (s : state) (l : label) : bool :=
  match l with LKill _ => false | _ => true end.
Lemma live_okb_sound c s l : live_okb c s l = true -> live_ok c s l.
Proof. intros H (p & t & i & -> & _). discriminate. Qed.

Example C08_live_run_nontrivial :
  exists s, reach (cfg_repo d2) (live_ok (cfg_repo d2)) init s /\
            cs s 0%nat = CHolding 0%nat /\ (exists ec u, cs s 1%nat = CSleep ec u) /\ now s = 2 * lock_freshness_interval.
Proof.
  destruct (reach_run (cfg_repo d2) (live_okb (cfg_repo d2)) init demo_live) as [s|] eqn:E; [|vm_compute in E; discriminate].
  exists s. split.
  - apply (reach_run_sound _ _ _ (live_okb_sound (cfg_repo d2)) demo_live init init s); [constructor | exact E].
  - revert E. vm_compute. intros E; injection E; intros <-. cbn. eauto.
Qed.

(** H-live cannot be dropped either.  The repository's configuration with a heartbeat that
    may be late by interval + 1 s (a holder that is alive but not scheduled: SIGSTOP, a
    paused VM, a long stall): nobody is killed, no waiter gives up on an empty file, the
    holder's heartbeat is merely late - and 10 s + 1 ns after the creation the waiter judges
    the file stale, removes it and holds the lock together with the first holder.
    Reproduced on the real code by the scenario [suspended-holder] (known finding). *)
Definition d_late : Z := lock_freshness_interval * (lock_stale_factor - 1) + 1000000000.
Definition late_run : list label :=
  [LStart 0 0; LTryCreate 0; LWriteMeta 0; LStart 1 1; LTryCreate 1; LOpenRead 1;
   LTick (lock_stale_factor * lock_freshness_interval + 1); LWake 1; LTryCreate 1; LOpenRead 1;
   LRemove 1; LTryCreate 1; LWriteMeta 1]%nat.
Theorem C08_mutex_refuted_late_heartbeat :
  ~ H_live d_late /\
  exists s i1 i2, reach (cfg_repo d_late) (live_ok (cfg_repo d_late)) init s /\
    cs s 0%nat = CHolding i1 /\ cs s 1%nat = CHolding i2 /\ i1 <> i2.
Proof.
  split; [unfold H_live, d_late, lock_stale_factor, lock_freshness_interval; lia|].
  destruct (reach_run (cfg_repo d_late) (live_okb (cfg_repo d_late)) init late_run) as [s|] eqn:E; [|vm_compute in E; discriminate].
  exists s, 0%nat, 1%nat. split.
  - apply (reach_run_sound _ _ _ (live_okb_sound (cfg_repo d_late)) late_run init init s); [constructor | exact E].
  - revert E. vm_compute. intros E; injection E; intros <-. cbn. repeat split; auto; discriminate.
Qed.
Print Assumptions C08_mutex_refuted_late_heartbeat.

(** ... and the waiter's process may be killed in such a run: the run stays within
    [live_ok] (the kill hits no owner) and thread 0 still holds *)
Example C08_live_run_with_waiter_kill :
  exists s, reach (cfg_repo d2) (live_ok (cfg_repo d2)) init s /\
            cs s 0%nat = CHolding 0%nat /\ cs s 1%nat = CDead.
Proof.
  destruct (reach_run (cfg_repo d2) (live_okb (cfg_repo d2)) init demo_live) as [s|] eqn:E; [|vm_compute in E; discriminate].
  assert (R : reach (cfg_repo d2) (live_ok (cfg_repo d2)) init s).
  { apply (reach_run_sound _ _ _ (live_okb_sound (cfg_repo d2)) demo_live init init s); [constructor | exact E]. }
  assert (F : cs s 0%nat = CHolding 0%nat /\ (exists ec u, cs s 1%nat = CSleep ec u) /\
              forall t, cproc s t = 1%nat -> t = 1%nat).
  { clear R. revert E. vm_compute. intros E; injection E; intros <-. split; [reflexivity|]. split; [eauto|].
    intros [|[|t]]; cbn; intros H; try reflexivity; discriminate. }
  destruct F as (F0 & (ec1 & u1 & F1) & Fp).
  exists (State (now s) (file s) (content s) (nexti s) (kill_cs 1%nat (cproc s) (cs s)) (cproc s) (tids s)
                (kill_hb 1%nat (hb s)) (lastcreate s) (mtime s)).
  split.
  - apply (reach_step _ _ init s (LKill 1%nat) _ R); [|reflexivity].
    intros (p & t & i & Ep & Ho & Hp). injection Ep; intros <-.
    apply Fp in Hp. subst t. destruct Ho as [[ec Ho]|Ho]; congruence.
  - cbn [cs]. split.
    + rewrite kill_cs_other; [exact F0|]. intros H. apply Fp in H. discriminate.
    + apply kill_cs_dead; [|congruence]. clear - E. revert E. vm_compute. intros E; injection E; intros <-. reflexivity.
Qed.

(** the hypotheses of the recovery theorem are met: a holder that has been refreshed once
    is killed; 10 s and a bit later the waiter (thread 1) is at the top of its loop *)
Definition demo_before_kill : list label :=
  [LStart 0 0; LTryCreate 0; LWriteMeta 0; LStart 1 1; LTryCreate 1; LOpenRead 1;
   LTick lock_freshness_interval; LHbWake 0; LHbWrite 0; LTick file_lock_poll_interval]%nat.
Definition demo_after_kill : list label := [LTick (lock_stale_factor * lock_freshness_interval + 1); LWake 1%nat].
Example C08_recovery_hypotheses_satisfiable :
  exists s0 s s', reach_run (cfg_repo d2) (fun _ _ => true) init demo_before_kill = Some s0 /\
    cs s0 0%nat = CHolding 0%nat /\ file s0 = Some 0%nat /\
    content s0 0%nat = FMeta (Some 0) (Some lock_freshness_interval) /\
    step (cfg_repo d2) s0 (LKill (cproc s0 0%nat)) = Some s /\
    run (cfg_repo d2) s demo_after_kill = Some s' /\ file s' = Some 0%nat /\
    lock_stale_factor * lock_freshness_interval < now s' - now s0 /\ cs s' 1%nat = CTry 0.
Proof.
  eexists. eexists. eexists.
  split; [vm_compute; reflexivity|].
  split; [vm_compute; reflexivity|].
  split; [vm_compute; reflexivity|].
  split; [vm_compute; reflexivity|].
  split; [vm_compute; reflexivity|].
  split; [vm_compute; reflexivity|].
  split; [vm_compute; reflexivity|].
  split; vm_compute; reflexivity.
Qed.

(** the hypotheses of [C08_empty_recovers] are met: a creator is killed between its O_EXCL
    create and the metadata write; 10 s and a bit later a waiter that has read the empty file
    eight times is about to read it again *)
Definition demo_creator : list label := [LStart 0 0; LTryCreate 0; LStart 1 1; LTryCreate 1]%nat.
Example C08_empty_recovery_hypotheses_satisfiable :
  exists s0 s, reach_run (cfg_repo d2) (fun _ _ => true) init demo_creator = Some s0 /\
    owner s0 0%nat 0%nat /\ file s0 = Some 0%nat /\ content s0 0%nat = FEmpty /\
    step (cfg_repo d2) s0 (LKill (cproc s0 0%nat)) = Some s /\
    file s = Some 0%nat /\ cs s 1%nat = CExists 0.
Proof.
  eexists. eexists.
  split; [vm_compute; reflexivity|].
  split; [left; exists 0%nat; vm_compute; reflexivity|].
  split; [vm_compute; reflexivity|].
  split; [vm_compute; reflexivity|].
  split; [vm_compute; reflexivity|].
  split; vm_compute; reflexivity.
Qed.

(** ... and of [C08_undecodable_like_empty]: a pre-made lock file with garbage in it *)
Example C08_undecodable_hypotheses_satisfiable :
  exists s, run (cfg_repo d2) (init_state (Some FGarbage) (-1) (-30000000000)) [LStart 0 0; LTryCreate 0]%nat = Some s /\
    file s = Some 0%nat /\ content s 0%nat = FGarbage /\ cs s 0%nat = CExists 0.
Proof. eexists. split; [vm_compute; reflexivity|]. repeat split. Qed.


(** ** theorems added in the last round (proofs in FileLock/Extra.v) *)

(** The context passed to Lock bounds the acquisition only: its end is noticed by a sleeping Lock
    call alone, is no step at all of a thread that holds (or has created) the lock, and - whatever
    contexts end - a held lock file is kept fresh by its heartbeat. *)
Theorem C08_cancel_affects_only_the_waiting_call : forall c s t s', step c s (LCancel t) = Some s' ->
  (exists ec u, cs s t = CSleep ec u) /\ cs s' t = CFailed ErrCtx /\
  hb s' = hb s /\ file s' = file s /\ content s' = content s /\ mtime s' = mtime s /\ now s' = now s /\
  forall t', t' <> t -> cs s' t' = cs s t'.
Proof. exact cancel_affects_only_the_waiting_call. Qed.
Print Assumptions C08_cancel_affects_only_the_waiting_call.

Theorem C08_ended_context_is_no_step_of_a_holder : forall c s t i, owner s t i -> step c s (LCancel t) = None.
Proof. exact ended_context_is_no_step_of_a_holder. Qed.
Print Assumptions C08_ended_context_is_no_step_of_a_holder.

Theorem C08_held_lock_is_kept_fresh : forall d, H_live d -> forall s t i,
  reach (cfg_repo d) (live_ok (cfg_repo d)) init s -> cs s t = CHolding i ->
  file s = Some i /\
  ((exists p cr due u, hb s i = HSleep p cr due /\ content s i = FMeta (Some cr) (Some u) /\
                       due = u + interval (cfg_repo d) /\ now s <= due + delta (cfg_repo d) /\
                       is_stale (cfg_repo d) (now s) (Some cr) (Some u) = false) \/
   (exists p cr sn, hb s i = HTrunc p cr i (Some cr) sn /\ content s i = FEmpty)).
Proof. intros d Hd. exact (held_lock_is_kept_fresh (cfg_repo d) (repo_checks d) (repo_guard d) (repo_good d Hd)). Qed.
Print Assumptions C08_held_lock_is_kept_fresh.

(** A lock file left by a creator that died between its O_EXCL create and its metadata write is
    obtainable once factor * interval has passed since the create, whoever else is alive. *)
Theorem C08_dead_creator_lock_obtainable : forall d, H_live d -> forall s0 t ec0 i s ls s' w ec,
  reach (cfg_repo d) any_label init s0 ->
  cs s0 t = CCreated ec0 i -> file s0 = Some i ->
  step (cfg_repo d) s0 (LKill (cproc s0 t)) = Some s ->
  run (cfg_repo d) s ls = Some s' -> file s' = Some i ->
  cs s' w = CExists ec -> (retries (cfg_repo d) <= S ec)%nat ->
  lock_stale_factor * lock_freshness_interval < now s' - mtime s0 i ->
  content s' i = FEmpty /\ mtime s' i = mtime s0 i /\
  exists s3, run (cfg_repo d) s' [LOpenRead w; LRemove w; LTryCreate w] = Some s3 /\
             cs s3 w = CCreated (S ec) (nexti s') /\ file s3 = Some (nexti s') /\ now s3 = now s'.
Proof.
  intros d Hd s0 t ec0 i s ls s' w ec R.
  apply (dead_creator_lock_obtainable (cfg_repo d) (repo_checks d) (repo_good d Hd)).
  exact (HBInv_reach (cfg_repo d) (repo_checks d) (repo_good d Hd) any_label s0 R).
Qed.
Print Assumptions C08_dead_creator_lock_obtainable.

(** ... and nobody else's heartbeat adopts such a file (or any file it cannot decode), and a
    heartbeat only ever writes its own file. *)
Theorem C08_heartbeat_gives_up_on_undecodable_file : forall c s i p cr due j,
  hb s i = HSleep p cr due -> due <= now s -> file s = Some j ->
  content s j = FEmpty \/ content s j = FGarbage ->
  exists s', step c s (LHbWake i) = Some s' /\ hb s' i = HDone /\
             content s' = content s /\ mtime s' = mtime s /\ file s' = file s /\ cs s' = cs s.
Proof. exact heartbeat_gives_up_on_undecodable_file. Qed.
Print Assumptions C08_heartbeat_gives_up_on_undecodable_file.

Theorem C08_heartbeat_writes_only_its_own_file : forall d, H_live d -> forall ok s i p cr j fcr sn,
  reach (cfg_repo d) ok init s -> hb s i = HTrunc p cr j fcr sn -> j = i /\ fcr = Some cr.
Proof. intros d Hd. exact (heartbeat_writes_only_its_own_file (cfg_repo d) (repo_checks d) (repo_good d Hd)). Qed.
Print Assumptions C08_heartbeat_writes_only_its_own_file.

(** Two names share a lock file exactly when their Safe images are equal (nothing else - no cut,
    no hash - stands between a name and its file). *)
Theorem C08_names_share_lock_file_iff : forall lower is_space,
  (forall c, is_upper_ascii (lower c) = false) ->
  forall root n1 n2, good_str root = true ->
  (lock_filename lower is_space root n1 = lock_filename lower is_space root n2 <->
   safe lower is_space n1 = safe lower is_space n2).
Proof. exact names_share_lock_file_iff. Qed.
Print Assumptions C08_names_share_lock_file_iff.

(** What the monitors of the correspondence check, as statements about the observation. *)
Theorem C08_mutex_monitor_sound : forall c, mutex_ok c = true ->
  forall t1 a1 e1 t2 a2 e2, In (t1, a1, e1) (holds_of c) -> In (t2, a2, e2) (holds_of c) ->
  t1 = t2 \/ e1 <= a2 + clock_slack \/ e2 <= a1 + clock_slack.
Proof. exact mutex_ok_sound. Qed.
Print Assumptions C08_mutex_monitor_sound.

Theorem C08_recovery_monitor_sound : forall c from to, recovered_by c from to = true ->
  (exists o, In o (cobs c) /\ oout o = 0 /\ from < otime o <= to) \/
  (forall o st, In o (cobs c) -> first_time (cevents c) 0 (otid o) = Some st -> st <= from + 2000000000 ->
     not_killed c o = true ->
     ~ ((oout o = 2 \/ oout o = 3) /\ from <= otime o) /\
     ~ (persistent_waiter c from to o = true /\ to < chorizon c)).
Proof. exact recovered_by_sound. Qed.
Print Assumptions C08_recovery_monitor_sound.

Theorem C08_names_monitor_sound : forall c, names_spec_ok c = true -> names_model_agrees c = true ->
  forall t, In t (nthreads c) ->
    model_lock_file (nroot c) (nname t) = nfile t /\
    (count_name c (nname t) = 1%nat -> nout t = 0 /\ nret t - nstart t <= nprompt c).
Proof.
  intros c H1 H2 t Ht. split; [exact (names_model_agrees_sound c H2 t Ht) | exact (names_spec_ok_sound c H1 t Ht)].
Qed.
Print Assumptions C08_names_monitor_sound.

Theorem C08_cancel_monitor_sound : forall c, cancel_ok c = true ->
  forall e o, In e (cevents c) -> ekind e = 3 ->
    find (fun o => otid o =? ea e) (cobs c) = Some o ->
    first_time (cevents c) 2 (pid_of (cevents c) (otid o)) = None ->
    oout o <> -1 /\ otime o <= etime e + cancel_bound.
Proof. exact cancel_ok_sound. Qed.
Print Assumptions C08_cancel_monitor_sound.

(** the hypotheses of [C08_dead_creator_lock_obtainable] are met: the creator of
    [C08_empty_recovery_hypotheses_satisfiable] is killed; the waiter reads the empty file eight
    times, 250 ms apart, and is about to read it again 10 s later *)
Definition demo_dead_creator_wait : list label :=
  [LOpenRead 1]%nat ++
  flat_map (fun _ => [LTick lock_empty_sleep; LWake 1; LTryCreate 1; LOpenRead 1]%nat) (seq 0 6) ++
  [LTick (lock_stale_factor * lock_freshness_interval); LWake 1; LTryCreate 1]%nat.
Example C08_dead_creator_hypotheses_satisfiable :
  exists s0 s s', reach_run (cfg_repo d2) (fun _ _ => true) init demo_creator = Some s0 /\
    cs s0 0%nat = CCreated 0 0%nat /\ file s0 = Some 0%nat /\
    step (cfg_repo d2) s0 (LKill (cproc s0 0%nat)) = Some s /\
    run (cfg_repo d2) s demo_dead_creator_wait = Some s' /\ file s' = Some 0%nat /\
    cs s' 1%nat = CExists 7 /\ (retries (cfg_repo d2) <= 8)%nat /\
    lock_stale_factor * lock_freshness_interval < now s' - mtime s0 0%nat.
Proof.
  eexists. eexists. eexists.
  split; [vm_compute; reflexivity|].
  split; [vm_compute; reflexivity|].
  split; [vm_compute; reflexivity|].
  split; [vm_compute; reflexivity|].
  split; [vm_compute; reflexivity|].
  split; [vm_compute; reflexivity|].
  split; [vm_compute; reflexivity|].
  split; [vm_compute; lia | vm_compute; reflexivity].
Qed.

(** Lock files without a live owner, in ANY state (the pre-made files of dead holders of the
    decision table): stale by its timestamps => obtained by four own steps; empty or undecodable
    and not modified for factor * interval => obtained by three own steps once the retries are
    used up; younger => the waiter only sleeps the empty-retry time, it neither removes the file
    nor fails. *)
Theorem C08_stale_file_obtainable : forall c s i cr u w ec, file s = Some i -> content s i = FMeta cr u ->
  is_stale c (now s) cr u = true -> cs s w = CTry ec ->
  exists s4 ec', run c s [LTryCreate w; LOpenRead w; LRemove w; LTryCreate w] = Some s4 /\
                 cs s4 w = CCreated ec' (nexti s) /\ file s4 = Some (nexti s) /\ now s4 = now s.
Proof. exact stale_obtainable. Qed.
Print Assumptions C08_stale_file_obtainable.

Theorem C08_old_unreadable_file_obtainable : forall d s i w ec,
  file s = Some i -> content s i = FEmpty \/ content s i = FGarbage ->
  cs s w = CExists ec -> (retries (cfg_repo d) <= S ec)%nat ->
  lock_stale_factor * lock_freshness_interval < now s - mtime s i ->
  exists s3, run (cfg_repo d) s [LOpenRead w; LRemove w; LTryCreate w] = Some s3 /\
             cs s3 w = CCreated (S ec) (nexti s) /\ file s3 = Some (nexti s) /\ now s3 = now s.
Proof. intros d s i w ec. exact (old_unreadable_file_obtainable (cfg_repo d) s i w ec eq_refl). Qed.
Print Assumptions C08_old_unreadable_file_obtainable.

Theorem C08_young_unreadable_file_waited_for : forall d s i w ec,
  file s = Some i -> content s i = FEmpty \/ content s i = FGarbage -> cs s w = CExists ec ->
  (S ec < retries (cfg_repo d))%nat \/ now s - mtime s i <= lock_stale_factor * lock_freshness_interval ->
  exists s1, step (cfg_repo d) s (LOpenRead w) = Some s1 /\
             cs s1 w = CSleep (S ec) (now s + esleep (cfg_repo d)) /\ file s1 = file s.
Proof. intros d s i w ec. exact (young_unreadable_file_waited_for (cfg_repo d) s i w ec eq_refl eq_refl). Qed.
Print Assumptions C08_young_unreadable_file_waited_for.

Theorem C08_free_lock_monitor_sound : forall c, free_ok c = true -> cinit c = None ->
  existsb (fun e => (ekind e =? 2) || (ekind e =? 4) || (ekind e =? 6)) (cevents c) = false ->
  forall o st, In o (cobs c) -> first_time (cevents c) 0 (otid o) = Some st -> free_for c o st = true ->
  oout o = 0 /\ otime o - st <= free_prompt.
Proof. exact free_ok_sound. Qed.
Print Assumptions C08_free_lock_monitor_sound.

(** the hypotheses of [C08_old_unreadable_file_obtainable] are met: a pre-made garbage file last
    modified 30 s ago, a waiter that has read it seven times and is about to read it again *)
Definition demo_garbage_wait : list label :=
  [LStart 0 0; LTryCreate 0; LOpenRead 0]%nat ++
  flat_map (fun _ => [LTick lock_empty_sleep; LWake 0; LTryCreate 0; LOpenRead 0]%nat) (seq 0 6) ++
  [LTick lock_empty_sleep; LWake 0; LTryCreate 0]%nat.
Example C08_old_unreadable_hypotheses_satisfiable :
  exists s, run (cfg_repo d2) (init_state (Some FGarbage) (-1) (-30000000000)) demo_garbage_wait = Some s /\
    file s = Some 0%nat /\ content s 0%nat = FGarbage /\ cs s 0%nat = CExists 7 /\
    (retries (cfg_repo d2) <= 8)%nat /\
    lock_stale_factor * lock_freshness_interval < now s - mtime s 0%nat.
Proof.
  eexists. split; [vm_compute; reflexivity|].
  split; [reflexivity|]. split; [reflexivity|]. split; [reflexivity|].
  split; [vm_compute; lia | vm_compute; reflexivity].
Qed.

(** What the correspondence compares with the implementation - the simulator's run of a scenario -
    is a run of the LTS the theorems above quantify over: every simulator step is a (possibly
    empty) sequence of LTS steps, for every scenario without a creator that crashed in the middle
    of its write (that content patch is outside the LTS by design). *)
Theorem C08_simulation_is_an_LTS_run : forall c fuel horizon m, no_garbage_crash (script m) ->
  exists ls, run c (sst m) ls = Some (sst (simulate c fuel horizon m)).
Proof. intros c fuel. exact (simulate_refines_lts c fuel). Qed.
Print Assumptions C08_simulation_is_an_LTS_run.

(** A lock file that is not stale keeps every contender waiting, however old its Created stamp is
    (a lock held and refreshed for hours or days stays its holder's). *)
Theorem C08_fresh_file_makes_a_waiter_sleep : forall c s i cr u w ec, file s = Some i -> content s i = FMeta cr u ->
  is_stale c (now s) cr u = false -> cs s w = CExists ec ->
  exists s1 ec', step c s (LOpenRead w) = Some s1 /\ cs s1 w = CSleep ec' (now s + poll c) /\ file s1 = file s.
Proof. exact fresh_file_makes_a_waiter_sleep. Qed.
Print Assumptions C08_fresh_file_makes_a_waiter_sleep.
Theorem C08_fresh_prefile_monitor_sound : forall c tf, fresh_prefile_respected c = true -> pre_free_at c = Some tf ->
  forall o, In o (cobs c) -> oout o = 0 -> tf - 100000000 <= otime o.
Proof. exact fresh_prefile_respected_sound. Qed.
Print Assumptions C08_fresh_prefile_monitor_sound.
