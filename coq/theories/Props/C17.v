(** C17 — The internal rate limiter never admits more than N events per window.
    Statements only; proofs are in RateLimit/Proofs.v. *)
From Coq Require Import List ZArith Bool Lia.
From CM Require Import Lib.Str Gen.Consts RateLimit.Model RateLimit.Proofs RateLimit.Race.
Import ListNotations.
Open Scope Z_scope.

(** Fixed limit n > 0 and window w, any number of waiters, any schedule of the loop goroutine,
    cancelled waiters, failed Allows, Stop (every trace of the transition system without a
    reconfiguration): any n+1 admissions span at least w — no interval shorter than the window
    contains more than n admissions. *)
Theorem C17_at_most_n_per_window : forall (n : nat) (w t0 : Z) ls s',
  (0 < n)%nat -> stable ls = true -> run (init n w t0) ls = Some s' ->
  forall i j, (i + n <= j < length (handovers ls))%nat ->
    nth i (handovers ls) 0 + w <= nth j (handovers ls) 0.
Proof. exact at_most_n_per_window. Qed.
Print Assumptions C17_at_most_n_per_window.

(** the same, counted: for every instant a, at most n admissions fall into [a, a + w) *)
Theorem C17_at_most_n_in_any_window : forall (n : nat) (w t0 : Z) ls s',
  (0 < n)%nat -> stable ls = true -> run (init n w t0) ls = Some s' ->
  forall a, (length (filter (in_window a w) (handovers ls)) <= n)%nat.
Proof. exact at_most_n_in_any_window. Qed.
Print Assumptions C17_at_most_n_in_any_window.

(** SetMaxEvents keeps the newest stamps, oldest at the cursor; new capacity is empty slots in
    front of them ("the oldest events will be forgotten" / "capacity for new reservations"). *)
Theorem C17_set_max_events_keeps_newest : forall n s, wf s ->
  let s' := set_max_events_gen true n s in
  wf s' /\
  (s' = s \/ (length (ring s') = n /\ n <> length (ring s) /\ view s' = keep_newest n (view s) /\
              window s' = window s /\ ph s' = ph s /\ now s' = now s)).
Proof. exact set_max_events_view. Qed.
Print Assumptions C17_set_max_events_keeps_newest.

(** The state anchor of the property ("ring of the last N admission times, cursor at the
    oldest"), for every history including reconfigurations in any phase of the loop: read from
    the cursor, the ring is empty slots followed by the newest stamps stored so far, in order. *)
Theorem C17_ring_remembers_newest : forall n0 w0 t0 ls s, run (init n0 w0 t0) ls = Some s ->
  exists k, (k <= length (records ls))%nat /\ (k <= length (ring s))%nat /\
            view s = repeat 0 (length (ring s) - k) ++ newest k (records ls).
Proof. exact ring_remembers_newest. Qed.
Print Assumptions C17_ring_remembers_newest.

(** After the limit or the window has been changed at run time (any history [ls1], including
    reconfigurations at any phase of the loop): in the following reconfiguration-free stretch
    every admission whose offer was computed in the stretch comes at least one window — the
    window now in force — after the stamp it replaces in the ring; [mem s] is what the ring
    remembers at the change, oldest first ([inflight s] is 1 when an offer computed before
    the change is still pending: that one admission is honoured under the old configuration,
    as SetWindow documents). *)
Theorem C17_spacing_after_last_change : forall n0 w0 t0 ls1 s ls2 s',
  run (init n0 w0 t0) ls1 = Some s -> (0 < length (ring s))%nat ->
  stable ls2 = true -> run s ls2 = Some s' ->
  forall j, (inflight s <= j < length (handovers ls2))%nat ->
    nth j (mem s ++ records ls2) 0 + window s <= nth j (handovers ls2) 0.
Proof. exact spacing_after_last_change. Qed.
Print Assumptions C17_spacing_after_last_change.

(** What does not hold.  (R1) the code before the fix c9d1e5e: growing left the cursor on the
    oldest stamp, shrinking then kept empty slots and dropped live stamps — a fourth admission
    within 199 of a 600 window at limit 3, computed under that very configuration. *)
Theorem C17_grow_shrink_forgets_live_stamp_orig_refuted :
  exists ls1 s ls2 s',
    run_orig (init 3 600 10000) ls1 = Some s /\ stable ls2 = true /\ run_orig s ls2 = Some s' /\
    length (ring s) = 3%nat /\ window s = 600 /\
    let A := handovers (ls1 ++ ls2) in
    (length (handovers ls1) + inflight s <= 5)%nat /\ nth 5 A 0 - nth 2 A 0 < 600 /\
    view s = [0; 0; 10600].
Proof. exact grow_shrink_forgets_live_stamp_orig_refuted. Qed.
Print Assumptions C17_grow_shrink_forgets_live_stamp_orig_refuted.

(** (R2), (R3): the unconditional reading of "also after the limit has been changed" is false of
    the code as designed and documented: an offer computed before the change is honoured after
    it, and lowering the limit forgets the oldest events for good. *)
Theorem C17_offer_before_change_is_honoured_refuted :
  exists ls1 s ls2 s',
    run (init 2 600 10000) ls1 = Some s /\ stable ls2 = true /\ run s ls2 = Some s' /\
    length (ring s) = 1%nat /\ window s = 600 /\
    last (handovers ls1) 0 = 10500 /\ handovers ls2 = [10600] /\ inflight s = 1%nat.
Proof. exact offer_before_change_is_honoured_refuted. Qed.
Print Assumptions C17_offer_before_change_is_honoured_refuted.

Theorem C17_shrink_then_grow_forgets_refuted :
  exists ls1 s ls2 s',
    run (init 3 600 10000) ls1 = Some s /\ stable ls2 = true /\ run s ls2 = Some s' /\
    length (ring s) = 3%nat /\ window s = 600 /\
    let A := handovers (ls1 ++ ls2) in
    (length (handovers ls1) + inflight s <= 4)%nat /\ nth 4 A 0 - nth 1 A 0 < 600.
Proof. exact shrink_then_grow_forgets_refuted. Qed.
Print Assumptions C17_shrink_then_grow_forgets_refuted.

(** A waiter whose context is cancelled changes nothing (no slot is consumed), and its return
    never has to wait for the limiter. *)
Theorem C17_cancel_consumes_nothing : forall s t s', step s (WaiterCancel t) = Some s' ->
  ring s' = ring s /\ cursor s' = cursor s /\ window s' = window s /\ ph s' = ph s.
Proof. exact cancel_consumes_nothing. Qed.
Print Assumptions C17_cancel_consumes_nothing.

Theorem C17_cancel_prompt : forall s t, now s <= t -> exists s', step s (WaiterCancel t) = Some s'.
Proof. exact cancel_always_enabled. Qed.
Print Assumptions C17_cancel_prompt.

(** A zero window disables limiting: any number of admissions at one instant. *)
Theorem C17_zero_window_unlimited : forall k s t,
  window s = 0 -> ph s = Computing -> stamps_le s -> now s <= t ->
  exists ls s', run s ls = Some s' /\ handovers ls = repeat t k /\ stable ls = true.
Proof. exact zero_window_unlimited. Qed.
Print Assumptions C17_zero_window_unlimited.

(** Issuance through the ACME issuer: the throttle call in doIssue is guarded by
    [!useTestCA] with [useTestCA := attempts > 0] and precedes the order; the limiter is keyed
    by directory URL + "," + e-mail.  These are facts about the source text, re-read by the
    translator on every run (the harness additionally calls the real throttle). *)
Theorem C17_first_attempt_throttled :
  throttle_attempts_threshold = 0 /\ throttle_guarded_by_first_attempt = true /\
  throttle_precedes_order = true /\ throttle_key_sep = [44%N].
Proof. repeat split; reflexivity. Qed.
Print Assumptions C17_first_attempt_throttled.

(** "per CA and account", "any number of concurrent waiters": the keyed limiter map.  For every
    interleaving of any number of throttle calls, all callers of one key are handed the same
    limiter — so the bounds above apply to all first attempts for one CA + account together —
    given that look-up and insertion are one critical section of rateLimitersMu, which the
    translator re-reads from acmeClient.throttle on every run. *)
Theorem C17_one_limiter_per_key : forall ls s evs, krun kstep_atomic kinit ls = Some (s, evs) ->
  forall k l1 l2, In (k, l1) evs -> In (k, l2) evs -> l1 = l2.
Proof. exact one_limiter_per_key. Qed.
Print Assumptions C17_one_limiter_per_key.

Theorem C17_every_throttle_gets_a_limiter : forall ls s, (forall l, In l ls -> exists t k, l = KThrottle t k) ->
  exists s' evs, krun kstep_atomic s ls = Some (s', evs) /\ length evs = length ls.
Proof. exact every_throttle_gets_a_limiter. Qed.
Print Assumptions C17_every_throttle_gets_a_limiter.

Theorem C17_throttle_lookup_insert_is_one_critical_section :
  throttle_lookup_insert_one_critical_section = true.
Proof. reflexivity. Qed.
Print Assumptions C17_throttle_lookup_insert_is_one_critical_section.

(** what a split section would allow: two callers that both miss create a limiter each *)
Theorem C17_split_lookup_insert_two_limiters_refuted :
  exists ls s evs k l1 l2, krun kstep_split kinit ls = Some (s, evs) /\
    In (k, l1) evs /\ In (k, l2) evs /\ l1 <> l2.
Proof. exact split_lookup_insert_two_limiters_refuted. Qed.
Print Assumptions C17_split_lookup_insert_two_limiters_refuted.

(** The limiter registered for a CA + account is never replaced: in [kstep_atomic] a key that
    is present keeps its limiter (one_limiter_per_key, every history), whatever the package
    variables RateLimitEvents / RateLimitEventsWindow are set to later — they only configure
    limiters of NEW keys.  The translator re-reads that the insertion in acmeClient.throttle is
    guarded by exactly `!ok`; class key-history changes the variables between throttles of one
    key and checks at the real code that the limiter object and its stamps stay.  (R) what a
    throttle that "refreshes" a limiter created under other limits would allow. *)
Theorem C17_throttle_keeps_registered_limiter : throttle_insert_guard_is_absent_only = true.
Proof. reflexivity. Qed.
Print Assumptions C17_throttle_keeps_registered_limiter.

Theorem C17_refresh_on_changed_limits_two_limiters_refuted :
  exists ls s evs k l1 l2, krun (kstep_refresh (Nat.eqb 0)) kinit ls = Some (s, evs) /\
    In (k, l1) evs /\ In (k, l2) evs /\ l1 <> l2.
Proof. exact refresh_on_changed_limits_two_limiters_refuted. Qed.
Print Assumptions C17_refresh_on_changed_limits_two_limiters_refuted.

(** the default limits are a valid configuration for the first theorem *)
Theorem C17_default_limits_valid : 0 < rate_limit_events /\ 0 < rate_limit_events_window.
Proof. split; reflexivity. Qed.
Print Assumptions C17_default_limits_valid.

(** "also after the limit or the window has been changed at run time", liveness side: whatever
    SetMaxEvents / SetWindow calls are made, in any phase of the loop and in any number, the
    scheduling goroutine does not die (the configuration it reads is always one a setter
    established), and unless it is stopped or in the middle of a hand-over it comes to offer a
    ticket in at most two steps of its own.  This is a theorem about the code as it is now:
    limit, window and oldest stamp are read in one critical section ([Compute]). *)
Theorem C17_loop_never_dies : forall n w t0 ls s, (n = 0%nat -> w = 0) ->
  run (init n w t0) ls = Some s -> ph s <> Dead /\ valid_cfg s.
Proof. exact loop_never_dies. Qed.
Print Assumptions C17_loop_never_dies.

Theorem C17_live_loop_offers : forall n w t0 ls s, (n = 0%nat -> w = 0) ->
  run (init n w t0) ls = Some s -> ph s <> Stopped -> (forall th, ph s <> Recording th) ->
  exists ls' s', run s ls' = Some s' /\ ph s' = Offering /\ (length ls' <= 2)%nat /\
                 ring s' = ring s /\ cursor s' = cursor s /\ window s' = window s /\
                 handovers ls' = [] /\ stable ls' = true.
Proof. exact live_loop_offers. Qed.
Print Assumptions C17_live_loop_offers.

(** (R4), (R5) the code before the fix d913d34 read len(r.ring) and r.window without the mutex
    and indexed the ring afterwards ([pstep]): a SetMaxEvents(0) in between — a call the API
    accepts — made the loop panic while holding the mutex (no admission ever again, every
    later setter call blocks for ever); SetMaxEvents(2), SetWindow(100) between the two reads
    made it see (0, 100) and panic on "invalid configuration". Reproduced on the real code
    (class reconfigure-under-load). *)
Theorem C17_unlocked_peek_kills_loop_orig_refuted :
  exists ls p, prun (pinit 2 0 1000) ls = Some p /\ calls_accepted (pinit 2 0 1000) ls = true /\
    ph (base p) = Dead /\ mutex_stuck p = true /\ valid_cfg (base p) /\
    (forall t, pstep p (Other (Handover t)) = None) /\
    (forall t n, pstep p (Other (SetMaxEvents t n)) = None) /\
    (forall t w, pstep p (Other (SetWindow t w)) = None).
Proof. exact unlocked_peek_kills_loop_orig_refuted. Qed.
Print Assumptions C17_unlocked_peek_kills_loop_orig_refuted.

Theorem C17_unlocked_peek_sees_invalid_config_orig_refuted :
  exists ls p, prun (pinit 0 0 1000) ls = Some p /\ calls_accepted (pinit 0 0 1000) ls = true /\
    ph (base p) = Dead /\ valid_cfg (base p) /\ length (ring (base p)) = 2%nat /\ window (base p) = 100.
Proof. exact unlocked_peek_sees_invalid_config_orig_refuted. Qed.
Print Assumptions C17_unlocked_peek_sees_invalid_config_orig_refuted.

(** "Issuance through the ACME issuer on its first attempt is subject to this limit per CA and
    account", in the form in which it is observed at the CA: when all calls begin at or after
    the instant t0 at which the limiter of that CA + account is created, the j-th admission
    (0-based) is not before t0 + (j / n) * w — and an order reaches the CA only after its
    admission.  Tied end to end: bursts of real ACMEIssuer.Issue calls against a mock ACME CA
    with small RateLimitEvents / RateLimitEventsWindow, order arrival instants taken at the CA
    (class e2e-throttle). *)
Theorem C17_burst_lower_bound : forall (n : nat) (w t0 : Z) ls s', (0 < n)%nat -> 0 <= w ->
  stable ls = true -> run (init n w t0) ls = Some s' ->
  forall j, (j < length (handovers ls))%nat ->
    t0 + Z.of_nat (j / n) * w <= nth j (handovers ls) 0.
Proof. exact burst_lower_bound. Qed.
Print Assumptions C17_burst_lower_bound.

(** non-vacuity *)
Example C17_example_run :
  let ls := [Compute 1010; TimerFire 1010; Handover 1010; Rec 1011; Compute 1011; TimerFire 1012; Handover 1012;
             Rec 1012; Compute 1013; WaiterCancel 1014; TimerFire 1111; Handover 1111; Rec 1111] in
  stable ls = true /\ handovers ls = [1010; 1012; 1111] /\
  exists s', run (init 2 100 1000) ls = Some s'.
Proof. cbn. repeat split. eexists. vm_compute. reflexivity. Qed.
Example C17_keyed_example : exists s,
  krun kstep_atomic kinit [KThrottle 1 [97%N]; KThrottle 2 [98%N]; KThrottle 3 [97%N]] =
    Some (s, [([97%N], 0%nat); ([98%N], 1%nat); ([97%N], 0%nat)]).
Proof. eexists. vm_compute. reflexivity. Qed.
Example C17_zero_window_hyps : stamps_le (init 3 0 7) /\ ph (init 3 0 7) = Computing.
Proof. split; [apply init_stamps_le; lia|reflexivity]. Qed.
(** hypotheses of C17_spacing_after_last_change: a history with reconfigurations in the
    Sleeping phase, then a stretch with three admissions (the first one is the pending offer) *)
Example C17_dynamic_example :
  let ls1 := [Compute 1000; TimerFire 1000; Handover 1000; Rec 1001; Compute 1001; TimerFire 1001; Handover 1040;
              Rec 1040; Compute 1041; SetWindow 1050 300; SetMaxEvents 1060 3; SetMaxEvents 1070 1] in
  let ls2 := [TimerFire 1101; Handover 1102; Rec 1102; Compute 1102; WaiterCancel 1200; TimerFire 1402;
              Handover 1403; Rec 1404; Compute 1404; TimerFire 1704; Handover 1704] in
  exists s s', run (init 2 100 1000) ls1 = Some s /\ run s ls2 = Some s' /\ stable ls2 = true /\
    (0 < length (ring s))%nat /\ inflight s = 1%nat /\ mem s = [1040] /\ window s = 300 /\
    handovers ls2 = [1102; 1403; 1704] /\ records ls2 = [1102; 1404].
Proof. eexists. eexists. split; [vm_compute; reflexivity|]. split; [vm_compute; reflexivity|]. vm_compute. repeat split; lia. Qed.
(** hypotheses of C17_loop_never_dies / C17_live_loop_offers: a history that goes from (2, 100)
    to the unlimited limiter and back while the loop sleeps, offers and records *)
Example C17_live_example :
  let ls := [Compute 1000; TimerFire 1000; Handover 1001; SetWindow 1001 0; Rec 1002; SetMaxEvents 1003 0;
             Compute 1004; Handover 1005; SetMaxEvents 1005 3; Rec 1006; SetWindow 1007 50; Compute 1008] in
  exists s, run (init 2 100 1000) ls = Some s /\ ph s = Sleeping 50 /\ length (ring s) = 3%nat.
Proof. eexists. split; [vm_compute; reflexivity|]. split; reflexivity. Qed.
