(** Soundness of the monitor of the C02 correspondence check ([Check.replay], second component):
    evaluated on the model's own observable behaviour it is true, for every history. *)
From CM Require Import Lib.Str Lib.Wire Lib.QualSteps Gen.Consts Handshake.Model Handshake.Proofs Handshake.Check.
From Coq Require Import Lia.
Open Scope N_scope.

Section Sound.
  Variable is_space : N -> bool.

  (** what the harness would record of a handshake that behaves exactly like the model *)
  Definition self_seen (own : list effect) (kids : list (list effect)) (res : result) (w' : world) : hs_seen :=
    HsSeen (map (filter observable) (own :: kids)) res (map c_id (w_cache w'))
           (map (fun kv => (fst kv, c_id (snd kv))) (w_store w')).

  Fixpoint self_wops (w : world) (ops : list op) : list wop :=
    match ops with
    | [] => []
    | OHandshake h :: r =>
        let '(own, kids, res, w') := handshake is_space w h in
        WHandshake h (self_seen own kids res w') :: self_wops w' r
    | o :: r => WEnv o :: self_wops (env_step w o) r
    end.

  Lemma no_selfwait_filter gs : no_selfwait gs = true -> no_selfwait (map (filter observable) gs) = true.
  Proof.
    unfold no_selfwait. intros H. apply negb_true_iff in H. apply negb_true_iff.
    apply not_true_iff_false. intros Ex. apply (exists_filter is_selfwait) in Ex. congruence.
  Qed.

  (** the three clauses of the monitor — policy ([spec_hs]), no self-wait, an error or a complete
      certificate — hold of every handshake of every history of the model *)
  Theorem monitor_sound : forall ops w, Forall (op_wf) ops -> store_wf w ->
    snd (replay is_space w (self_wops w ops)) = true.
  Proof.
    induction ops as [|o ops IH]; intros w OW W; [reflexivity|].
    inversion OW as [|? ? O1 O2]; subst.
    destruct o; cbn [self_wops];
      try (cbn [replay]; apply IH; [exact O2|apply (env_step_wf w _ O1 W)]).
    destruct (handshake is_space w h) as [[[own kids] res] w1] eqn:E.
    cbn [replay]. rewrite E.
    assert (W1 : store_wf w1) by (eapply get_cert_wf; [exact E|exact W]).
    specialize (IH w1 O2 W1).
    destruct (replay is_space w1 (self_wops w1 ops)) as [a s] eqn:R. cbn [snd] in *.
    cbn [s_effects s_res self_seen].
    rewrite (spec_hs_model is_space _ _ _ _ _ _ E W).
    rewrite (no_selfwait_filter _ (handshake_no_selfwait is_space _ _ _ _ _ _ E)).
    pose proof (handshake_result_not_empty is_space _ _ _ _ _ _ E) as NE.
    destruct res; try contradiction; cbn; exact IH.
  Qed.

  (** ... and the model agrees with its own observation (first component of [replay]): on a history
      that behaves like the model, [check_line]'s verdict is "agree, specification holds" *)
  Lemma effect_eqb_refl e : effect_eqb e e = true.
  Proof. destruct e; cbn; rewrite ?str_eqb_refl, ?N.eqb_refl, ?Bool.eqb_reflx; reflexivity. Qed.
  Lemma list_eqb_refl {A} (eqb : A -> A -> bool) (R : forall x, eqb x x = true) l : list_eqb eqb l l = true.
  Proof. induction l as [|x l IH]; cbn; [reflexivity|]. rewrite R, IH. reflexivity. Qed.
  Lemma filter_idem {A} (f : A -> bool) l : filter f (filter f l) = filter f l.
  Proof.
    induction l as [|x l IH]; cbn; [reflexivity|]. destruct (f x) eqn:E; cbn; rewrite ?E, IH; reflexivity.
  Qed.
  Lemma same_set_refl {A} (eqb : A -> A -> bool) (R : forall x, eqb x x = true) l : same_set eqb l l = true.
  Proof.
    assert (S : subset eqb l l = true).
    { unfold subset. apply forallb_forall. intros x Hx. apply existsb_exists. exists x. split; [exact Hx|apply R]. }
    unfold same_set. rewrite S. reflexivity.
  Qed.
  Lemma canon_self own kids :
    canon (filter observable own) (map (filter observable) kids) = canon own kids.
  Proof.
    unfold canon. rewrite filter_idem, map_map. f_equal. f_equal.
    apply map_ext. intros k. rewrite filter_idem. reflexivity.
  Qed.
  Lemma result_eqb_refl r : result_eqb r r = true.
  Proof. destruct r; cbn; rewrite ?N.eqb_refl; reflexivity. Qed.
  Lemma pair_eqb_refl x : pair_eqb x x = true.
  Proof. unfold pair_eqb. rewrite str_eqb_refl, N.eqb_refl. reflexivity. Qed.

  Theorem model_agrees_with_itself : forall ops w, Forall (op_wf) ops -> store_wf w ->
    replay is_space w (self_wops w ops) = (true, true).
  Proof.
    induction ops as [|o ops IH]; intros w OW W; [reflexivity|].
    inversion OW as [|? ? O1 O2]; subst.
    destruct o; cbn [self_wops];
      try (cbn [replay]; apply IH; [exact O2|apply (env_step_wf w _ O1 W)]).
    destruct (handshake is_space w h) as [[[own kids] res] w1] eqn:E.
    cbn [replay]. rewrite E.
    assert (W1 : store_wf w1) by (eapply get_cert_wf; [exact E|exact W]).
    rewrite (IH w1 O2 W1).
    cbn [s_effects s_res s_cache s_store self_seen map].
    rewrite canon_self, (list_eqb_refl _ (list_eqb_refl _ effect_eqb_refl)), result_eqb_refl,
      (same_set_refl _ N.eqb_refl), (same_set_refl _ pair_eqb_refl).
    change (filter observable own :: map (filter observable) kids) with (map (filter observable) (own :: kids)).
    rewrite (spec_hs_model is_space _ _ _ _ _ _ E W).
    rewrite (no_selfwait_filter _ (handshake_no_selfwait is_space _ _ _ _ _ _ E)).
    pose proof (handshake_result_not_empty is_space _ _ _ _ _ _ E) as NE.
    rewrite orb_true_r. destruct res; try contradiction; reflexivity.
  Qed.
End Sound.
