(** Proofs about the handshake effect model (property C02). *)
From CM Require Import Lib.Str Lib.QualSteps Gen.Consts Handshake.Model.
From Coq Require Import Lia.
Open Scope N_scope.

Ltac inv H := inversion H; subst; clear H.
Ltac dlet H :=
  match type of H with
  | context [let '(_, _) := ?x in _] => let E := fresh "E" in destruct x eqn:E
  end.

Lemma str_eqb_refl n : str_eqb n n = true.
Proof. apply str_eqb_eq. reflexivity. Qed.

(** * 1. The scan *)
Section Scan.
  Variable is_space : N -> bool.
  Variable n : name.
  Variable hk : option name.
  Notation sc := (scan is_space n hk).

  Lemma eval_is_eval e : is_eval e = match eval_of e with Some _ => true | None => false end.
  Proof. destruct e; reflexivity. Qed.
  Lemma needs_not_eval e : needs_gate e = true -> eval_of e = None.
  Proof. destruct e; cbn; congruence. Qed.

  Lemma scan_app a b st :
    sc st (a ++ b) = match sc st a with Some st' => sc st' b | None => None end.
  Proof.
    revert st; induction a as [|e a IH]; intros st; cbn [app scan]; [reflexivity|].
    destruct (eval_of e) as [[x r]|].
    - destruct (existsb (str_eqb x) (cands n hk)); [apply IH|reflexivity].
    - destruct (needs_gate e); [|apply IH].
      destruct st as [[x [|]]|]; try reflexivity.
      destruct (fit1 hk x e && qualifies is_space x); [apply IH|reflexivity].
  Qed.

  Definition evalfree (l : list effect) : Prop := forallb (fun e => negb (is_eval e)) l = true.
  Definition noneed (l : list effect) : Prop := forallb (fun e => negb (needs_gate e)) l = true.
  (** every Issue / Load of the list is one a yes for x covers *)
  Definition fits (x : name) (l : list effect) : Prop := forallb (fit1 hk x) l = true.

  Lemma fits_app x a b : fits x a -> fits x b -> fits x (a ++ b).
  Proof. unfold fits. rewrite forallb_app. intros -> ->; reflexivity. Qed.

  Lemma scan_true x l : evalfree l -> fits x l -> qualifies is_space x = true ->
    sc (Some (x, true)) l = Some (Some (x, true)).
  Proof.
    intros F G Q; induction l as [|e l IH]; [reflexivity|].
    unfold evalfree in F; unfold fits in G; cbn [forallb] in F, G.
    apply andb_true_iff in F as [F1 F2]. apply andb_true_iff in G as [G1 G2].
    cbn [scan]. apply negb_true_iff in F1. rewrite eval_is_eval in F1.
    destruct (eval_of e); [discriminate|].
    destruct (needs_gate e); [rewrite G1, Q; cbn [andb]|]; apply IH; assumption.
  Qed.

  Lemma scan_quiet l st : evalfree l -> noneed l -> sc st l = Some st.
  Proof.
    intros F G; induction l as [|e l IH]; [reflexivity|].
    unfold evalfree in F; unfold noneed in G; cbn [forallb] in F, G.
    apply andb_true_iff in F as [F1 F2]. apply andb_true_iff in G as [G1 G2].
    cbn [scan]. apply negb_true_iff in F1, G1. rewrite eval_is_eval in F1.
    destruct (eval_of e); [discriminate|]. rewrite G1. apply IH; assumption.
  Qed.

  (** what a passing scan means, position by position *)
  Lemma scan_sound l : forall st st', sc st l = Some st' ->
    forall i e, nth_error l i = Some e -> needs_gate e = true ->
    exists x, qualifies is_space x = true /\ fit1 hk x e = true /\
    ((exists j y, (j < i)%nat /\ nth_error l j = Some y /\ eval_of y = Some (x, true) /\
        forall k z, (j < k < i)%nat -> nth_error l k = Some z -> is_eval z = false) \/
     (st = Some (x, true) /\ forall k z, (k < i)%nat -> nth_error l k = Some z -> is_eval z = false)).
  Proof.
    induction l as [|a l IH]; intros st st' H i e Hi He; [destruct i; discriminate|].
    cbn [scan] in H. destruct i as [|i].
    - cbn in Hi. inv Hi. rewrite (needs_not_eval _ He), He in H.
      destruct st as [[x [|]]|]; try discriminate.
      destruct (fit1 hk x e && qualifies is_space x) eqn:FQ; [|discriminate].
      apply andb_true_iff in FQ as [F Q].
      exists x. split; [exact Q|]. split; [exact F|]. right. split; [reflexivity|]. intros k z Hk; lia.
    - cbn [nth_error] in Hi.
      destruct (eval_of a) as [[x r]|] eqn:Ea.
      + destruct (existsb (str_eqb x) (cands n hk)); [|discriminate].
        destruct (IH _ _ H _ _ Hi He) as (x' & Q & F & [(j & y & Hj & Hn & Hp & Hb)|[Hs Hb]]).
        * exists x'. split; [exact Q|]. split; [exact F|]. left.
          exists (S j), y. split; [lia|]. split; [exact Hn|]. split; [exact Hp|].
          intros k z Hk Hk'. destruct k as [|k]; [lia|]. apply (Hb k z); [lia|exact Hk'].
        * inv Hs. exists x'. split; [exact Q|]. split; [exact F|]. left.
          exists O, a. split; [lia|]. split; [reflexivity|]. split; [exact Ea|].
          intros k z Hk Hk'. destruct k as [|k]; [lia|]. apply (Hb k z); [lia|exact Hk'].
      + assert (H' : sc st l = Some st').
        { destruct (needs_gate a); [|exact H]. destruct st as [[x [|]]|]; try discriminate.
          destruct (fit1 hk x a && qualifies is_space x); [exact H|discriminate]. }
        assert (Na : is_eval a = false) by (rewrite eval_is_eval, Ea; reflexivity).
        destruct (IH _ _ H' _ _ Hi He) as (x' & Q & F & [(j & y & Hj & Hn & Hp & Hb)|[Hs Hb]]).
        * exists x'. split; [exact Q|]. split; [exact F|]. left.
          exists (S j), y. split; [lia|]. split; [exact Hn|]. split; [exact Hp|].
          intros k z Hk Hk'. destruct k as [|k]; [lia|]. apply (Hb k z); [lia|exact Hk'].
        * exists x'. split; [exact Q|]. split; [exact F|]. right. split; [exact Hs|].
          intros k z Hk Hk'. destruct k as [|k]; [cbn in Hk'; inv Hk'; exact Na|].
          apply (Hb k z); [lia|exact Hk'].
  Qed.

  (** ... and every evaluation is about one of the candidate names *)
  Lemma scan_evals l : forall st st', sc st l = Some st' ->
    forall y x a, In y l -> eval_of y = Some (x, a) -> existsb (str_eqb x) (cands n hk) = true.
  Proof.
    induction l as [|e l IH]; intros st st' H y x a Hy Ey; [destruct Hy|].
    cbn [scan] in H. destruct Hy as [<-|Hy].
    - rewrite Ey in H. destruct (existsb (str_eqb x) (cands n hk)); [reflexivity|discriminate].
    - destruct (eval_of e) as [[x0 r0]|].
      + destruct (existsb (str_eqb x0) (cands n hk)); [|discriminate]. eapply IH; eauto.
      + destruct (needs_gate e); [|eapply IH; eauto].
        destruct st as [[x1 [|]]|]; try discriminate.
        destruct (fit1 hk x1 e && qualifies is_space x1); [eapply IH; eauto|discriminate].
  Qed.
End Scan.

(** * 2. Elementary facts about the primitive operations *)
Section Prims.
  Variable is_space : N -> bool.

  Lemma od_set_cache w c : w_od (set_cache w c) = w_od w. Proof. reflexivity. Qed.
  Lemma od_set_store w s : w_od (set_store w s) = w_od w. Proof. reflexivity. Qed.
  Lemma od_cache_add c w : w_od (cache_add c w) = w_od w.
  Proof. unfold cache_add; destruct (cache_has _ _); reflexivity. Qed.
  Lemma od_cache_remove i w : w_od (cache_remove i w) = w_od w. Proof. reflexivity. Qed.
  Lemma od_cache_replace a b w : w_od (cache_replace a b w) = w_od w.
  Proof. unfold cache_replace. rewrite od_cache_add. reflexivity. Qed.
  Lemma od_cache_update c w : w_od (cache_update c w) = w_od w. Proof. reflexivity. Qed.
  Lemma od_store_del m w : w_od (store_del m w) = w_od w. Proof. reflexivity. Qed.
  Lemma od_store_put m c w : w_od (store_put m c w) = w_od w. Proof. reflexivity. Qed.
  Lemma od_bump_fresh w : w_od (bump_fresh w) = w_od w. Proof. reflexivity. Qed.
  Lemma od_bump_evals w : w_od (bump_evals w) = w_od w. Proof. reflexivity. Qed.

  Lemma od_on_eq w w' : w_od w' = w_od w -> od_on w' = od_on w.
  Proof. unfold od_on; intros ->; reflexivity. Qed.

  (** gate *)
  Lemma gate_od w n req ge a w1 : gate is_space w n req = (ge, a, w1) -> w_od w1 = w_od w.
  Proof.
    unfold gate. destruct (req && negb (od_on w)); [intros H; inv H; reflexivity|].
    destruct (negb (qualifies is_space n)); [intros H; inv H; reflexivity|].
    destruct (w_od w) as [[f|l]|] eqn:E; intros H; inv H; cbn; auto.
  Qed.

  Lemma gate_shape w n req ge a w1 : gate is_space w n req = (ge, a, w1) ->
    ge = [] \/ ge = [EDecision n a] \/ ge = [EAllow n a].
  Proof.
    unfold gate. destruct (req && negb (od_on w)); [intros H; inv H; auto|].
    destruct (negb (qualifies is_space n)); [intros H; inv H; auto|].
    destruct (w_od w) as [[f|l]|]; intros H; inv H; auto.
  Qed.

  (** scanning the effects of a gate about a candidate name never fails; if the gate lets through
      while on-demand is on, the state afterwards is "yes for x" and x qualifies *)
  Lemma gate_scan n hk w x req ge a w1 st : gate is_space w x req = (ge, a, w1) ->
    existsb (str_eqb x) (cands n hk) = true ->
    exists st', scan is_space n hk st ge = Some st' /\
      (a = true -> od_on w = true -> st' = Some (x, true) /\ qualifies is_space x = true).
  Proof.
    unfold gate. intros H C. destruct (req && negb (od_on w)).
    { inv H. exists st; split; [reflexivity|discriminate]. }
    destruct (qualifies is_space x) eqn:Q; cbn [negb] in H.
    2:{ inv H. exists st; split; [reflexivity|discriminate]. }
    unfold od_on. destruct (w_od w) as [[f|l]|]; inv H.
    - exists (Some (x, f (w_evals w) x)). cbn [scan eval_of]. rewrite C.
      split; [reflexivity|]. intros -> _. split; reflexivity.
    - exists (Some (x, allow_ok l x)). cbn [scan eval_of]. rewrite C.
      split; [reflexivity|]. intros -> _. split; reflexivity.
    - exists st. split; [reflexivity|]. intros _ D; discriminate.
  Qed.

  Lemma gate_noneed w n req ge a w1 : gate is_space w n req = (ge, a, w1) -> noneed ge.
  Proof. intros H. destruct (gate_shape _ _ _ _ _ _ H) as [->|[->| ->]]; reflexivity. Qed.

  Lemma gate_noissue w n req ge a w1 : gate is_space w n req = (ge, a, w1) ->
    existsb is_issue ge = false.
  Proof. intros H. destruct (gate_shape _ _ _ _ _ _ H) as [->|[->| ->]]; reflexivity. Qed.

  (** a gate that requires on-demand denies when it is off; an unqualified name is always denied,
      silently *)
  Lemma gate_req_off w n ge a w1 : gate is_space w n true = (ge, a, w1) -> od_on w = false ->
    ge = [] /\ a = false /\ w1 = w.
  Proof. unfold gate. intros H D. rewrite D in H. cbn in H. inv H. auto. Qed.

  (** the storage / issuer primitives make no policy evaluation *)
  Lemma obtain_cert_facts w n ok e o w1 : obtain_cert w n ok = (e, o, w1) ->
    evalfree e /\ w_od w1 = w_od w.
  Proof.
    unfold obtain_cert. destruct (store_has n w); [|destruct ok]; intros H; inv H; split; reflexivity.
  Qed.
  Lemma renew_cert_facts w n force ok e o w1 : renew_cert w n force ok = (e, o, w1) ->
    evalfree e /\ w_od w1 = w_od w.
  Proof.
    unfold renew_cert. destruct (store_find n w); [destruct (due _ || force); [destruct ok|]|];
      intros H; inv H; split; reflexivity.
  Qed.
  Lemma reload_facts w c e r w1 : reload w c = (e, r, w1) -> evalfree e /\ w_od w1 = w_od w.
  Proof.
    unfold reload. destruct (store_find _ w); intros H; inv H; split; try reflexivity.
    apply od_cache_replace.
  Qed.

  Lemma evalfree_app a b : evalfree a -> evalfree b -> evalfree (a ++ b).
  Proof. unfold evalfree. rewrite forallb_app. intros -> ->; reflexivity. Qed.
  Lemma evalfree_cons e a : is_eval e = false -> evalfree a -> evalfree (e :: a).
  Proof. unfold evalfree; cbn [forallb]. intros -> ->; reflexivity. Qed.

  Ltac ef := unfold evalfree in *; cbn [forallb app is_eval negb]; rewrite ?forallb_app;
    cbn [forallb is_eval negb andb];
    repeat match goal with H : forallb _ _ = true |- _ => rewrite H end; reflexivity.

  Lemma force_renew_facts w c ok e r w1 : force_renew w c ok = (e, r, w1) ->
    evalfree e /\ w_od w1 = w_od w.
  Proof.
    unfold force_renew. intros H. destruct (c_keycomp c).
    - destruct (obtain_cert _ _ _) as [[e0 o] w0] eqn:E0. cbv beta iota zeta in H.
      apply obtain_cert_facts in E0 as [F0 O0]. rewrite od_store_del in O0.
      destruct o.
      + destruct (reload w0 c) as [[e2 r2] w2] eqn:E2. apply reload_facts in E2 as [F2 O2].
        inv H. split; [ef|congruence].
      + inv H. split; [ef|rewrite od_cache_remove; assumption].
    - destruct (renew_cert _ _ _ _) as [[e0 o] w0] eqn:E0. cbv beta iota zeta in H.
      apply renew_cert_facts in E0 as [F0 O0]. destruct o.
      + destruct (reload w0 c) as [[e2 r2] w2] eqn:E2. apply reload_facts in E2 as [F2 O2].
        inv H. split; [ef|congruence].
      + inv H. split; [ef|rewrite od_cache_remove; assumption].
  Qed.

  (** ** the bundle keys and subjects of the storage / issuer primitives *)
  Lemma load_ok_self hk x : load_ok hk x x = true.
  Proof. unfold load_ok. rewrite str_eqb_refl. reflexivity. Qed.

  Lemma obtain_cert_fits hk w x ok e o w1 : obtain_cert w x ok = (e, o, w1) -> fits hk x e.
  Proof.
    unfold obtain_cert. destruct (store_has x w); [|destruct ok]; intros H; inv H;
      unfold fits; cbn; rewrite ?str_eqb_refl; reflexivity.
  Qed.
  Lemma renew_cert_fits hk w x force ok e o w1 : renew_cert w x force ok = (e, o, w1) -> fits hk x e.
  Proof.
    unfold renew_cert. destruct (store_find x w); [destruct (due _ || force); [destruct ok|]|];
      intros H; inv H; unfold fits; cbn; rewrite ?str_eqb_refl, ?load_ok_self; reflexivity.
  Qed.
  Lemma reload_fits hk w c x e r w1 : reload w c = (e, r, w1) -> load_ok hk x (name0 c) = true -> fits hk x e.
  Proof.
    unfold reload. destruct (store_find _ w); intros H L; inv H; unfold fits; cbn; rewrite L; reflexivity.
  Qed.
  Lemma fits_cons hk x e l : fit1 hk x e = true -> fits hk x l -> fits hk x (e :: l).
  Proof. unfold fits; cbn [forallb]. intros -> ->; reflexivity. Qed.

  Lemma force_renew_fits hk w c ok e r w1 : force_renew w c ok = (e, r, w1) -> fits hk (name0 c) e.
  Proof.
    unfold force_renew. intros H. destruct (c_keycomp c).
    - destruct (obtain_cert _ _ _) as [[e0 o] w0] eqn:E0. cbv beta iota zeta in H.
      apply (obtain_cert_fits hk) in E0. destruct o.
      + destruct (reload w0 c) as [[e2 r2] w2] eqn:E2.
        apply (reload_fits hk _ _ (name0 c)) in E2; [|apply load_ok_self]. inv H.
        apply fits_cons; [apply load_ok_self|]. apply fits_app; assumption.
      + inv H. apply fits_cons; [apply load_ok_self|]. apply fits_app; [assumption|reflexivity].
    - destruct (renew_cert _ _ _ _) as [[e0 o] w0] eqn:E0. cbv beta iota zeta in H.
      apply (renew_cert_fits hk) in E0. destruct o.
      + destruct (reload w0 c) as [[e2 r2] w2] eqn:E2.
        apply (reload_fits hk _ _ (name0 c)) in E2; [|apply load_ok_self]. inv H.
        apply fits_app; assumption.
      + inv H. apply fits_app; [assumption|reflexivity].
  Qed.

  (** ** bundles stay stored under the first subject of their certificate *)
  Lemma assoc_filter k m l :
    assoc k (filter (fun kv => negb (str_eqb (fst kv) m)) l) = if str_eqb k m then None else assoc k l.
  Proof.
    induction l as [|[k0 v] l IH]; cbn [filter assoc fst]; [destruct (str_eqb k m); reflexivity|].
    destruct (str_eqb k0 m) eqn:E0; cbn [negb].
    - rewrite IH. destruct (str_eqb k m) eqn:Ek; [reflexivity|].
      destruct (str_eqb k0 k) eqn:E1; [|reflexivity].
      apply str_eqb_eq in E0, E1. subst. rewrite str_eqb_refl in Ek. discriminate.
    - cbn [assoc]. rewrite IH. destruct (str_eqb k0 k) eqn:E1; [|reflexivity].
      destruct (str_eqb k m) eqn:Ek; [|reflexivity].
      apply str_eqb_eq in E1, Ek. subst. rewrite str_eqb_refl in E0. discriminate.
  Qed.
  Lemma assoc_app k l1 l2 :
    assoc k (l1 ++ l2) = match assoc k l1 with Some v => Some v | None => assoc k l2 end.
  Proof.
    induction l1 as [|[k0 v] l1 IH]; cbn [app assoc]; [reflexivity|].
    destruct (str_eqb k0 k); [reflexivity|exact IH].
  Qed.
  Lemma store_find_del k m w : store_find k (store_del m w) = if str_eqb k m then None else store_find k w.
  Proof. unfold store_find, store_del. cbn. apply assoc_filter. Qed.
  Lemma store_find_put k m c w : store_find k (store_put m c w) = if str_eqb k m then Some c else store_find k w.
  Proof.
    unfold store_put. unfold store_find at 1. cbn [w_store set_store]. rewrite assoc_app.
    fold (store_find k (store_del m w)). rewrite store_find_del. cbn [assoc].
    destruct (str_eqb k m) eqn:E.
    - apply str_eqb_eq in E. subst. rewrite str_eqb_refl. reflexivity.
    - destruct (store_find k w); [reflexivity|].
      destruct (str_eqb m k) eqn:E2; [|reflexivity]. apply str_eqb_eq in E2. subst.
      rewrite str_eqb_refl in E. discriminate.
  Qed.

  Definition same_store (w w' : world) : Prop := w_store w' = w_store w.
  Lemma wf_same w w' : same_store w w' -> store_wf w -> store_wf w'.
  Proof. unfold same_store, store_wf, store_find. intros ->; auto. Qed.
  Lemma wf_del m w : store_wf w -> store_wf (store_del m w).
  Proof.
    intros W k c. rewrite store_find_del. destruct (str_eqb k m); [discriminate|apply W].
  Qed.
  Lemma wf_put m c w : name0 c = m -> store_wf w -> store_wf (store_put m c w).
  Proof.
    intros N W k c'. rewrite store_find_put. destruct (str_eqb k m) eqn:E; [|apply W].
    intros H; inv H. apply str_eqb_eq in E. congruence.
  Qed.
  Lemma wf_cache_add c w : store_wf w -> store_wf (cache_add c w).
  Proof. apply wf_same. unfold same_store, cache_add. destruct (cache_has _ _); reflexivity. Qed.
  Lemma wf_cache_remove i w : store_wf w -> store_wf (cache_remove i w).
  Proof. apply wf_same. reflexivity. Qed.
  Lemma wf_cache_replace a b w : store_wf w -> store_wf (cache_replace a b w).
  Proof. intros W. unfold cache_replace. apply wf_cache_add, wf_cache_remove, W. Qed.
  Lemma wf_cache_update c w : store_wf w -> store_wf (cache_update c w).
  Proof. apply wf_same. reflexivity. Qed.
  Lemma wf_bump_fresh w : store_wf w -> store_wf (bump_fresh w).
  Proof. apply wf_same. reflexivity. Qed.
  Lemma wf_bump_evals w : store_wf w -> store_wf (bump_evals w).
  Proof. apply wf_same. reflexivity. Qed.

  Lemma gate_wf w n req ge a w1 : gate is_space w n req = (ge, a, w1) -> store_wf w -> store_wf w1.
  Proof.
    unfold gate. destruct (req && negb (od_on w)); [intros H; inv H; auto|].
    destruct (negb (qualifies is_space n)); [intros H; inv H; auto|].
    destruct (w_od w) as [[f|l]|]; intros H; inv H; auto.
  Qed.
  Lemma obtain_cert_wf w n ok e o w1 : obtain_cert w n ok = (e, o, w1) -> store_wf w -> store_wf w1.
  Proof.
    unfold obtain_cert. destruct (store_has n w); [|destruct ok]; intros H W; inv H; auto.
    apply wf_put; [reflexivity|apply wf_bump_fresh, W].
  Qed.
  Lemma renew_cert_wf w n force ok e o w1 : renew_cert w n force ok = (e, o, w1) -> store_wf w -> store_wf w1.
  Proof.
    unfold renew_cert. destruct (store_find n w); [destruct (due _ || force); [destruct ok|]|];
      intros H W; inv H; auto.
    apply wf_put; [reflexivity|apply wf_bump_fresh, W].
  Qed.
  Lemma reload_wf w c e r w1 : reload w c = (e, r, w1) -> store_wf w -> store_wf w1.
  Proof. unfold reload. destruct (store_find _ w); intros H W; inv H; auto. apply wf_cache_replace, W. Qed.
  Lemma force_renew_wf w c ok e r w1 : force_renew w c ok = (e, r, w1) -> store_wf w -> store_wf w1.
  Proof.
    unfold force_renew. intros H W. destruct (c_keycomp c).
    - destruct (obtain_cert _ _ _) as [[e0 o] w0] eqn:E0. cbv beta iota zeta in H.
      apply obtain_cert_wf in E0; [|apply wf_del, W]. destruct o.
      + destruct (reload w0 c) as [[e2 r2] w2] eqn:E2. apply reload_wf in E2; [|exact E0]. inv H. exact E2.
      + inv H. apply wf_cache_remove, E0.
    - destruct (renew_cert _ _ _ _) as [[e0 o] w0] eqn:E0. cbv beta iota zeta in H.
      apply renew_cert_wf in E0; [|exact W]. destruct o.
      + destruct (reload w0 c) as [[e2 r2] w2] eqn:E2. apply reload_wf in E2; [|exact E0]. inv H. exact E2.
      + inv H. apply wf_cache_remove, E0.
  Qed.
End Prims.


(** * 3. On-demand enabled, the hello has a name: every goroutine's effect list passes the scan *)
Section Gated.
  Variable is_space : N -> bool.
  Variable h : hello.
  Variable n : name.
  Hypothesis Hn : h_name h = Some n.
  Variable hk : option name.

  Notation sc := (scan is_space n hk).
  Definition anyst (e : list effect) : Prop := forall st, exists st', sc st e = Some st'.
  Definition okkid (g : list effect) : Prop := exists st', sc None g = Some st'.
  (** the certificate under maintenance: its bundle is one the handshake's name gives access to *)
  Definition rel (c : cert) : Prop := load_ok hk n (name0 c) = true.
  Definition cand (x : name) : Prop := existsb (str_eqb x) (cands n hk) = true.

  Lemma cand_n : cand n.
  Proof. unfold cand, cands. cbn [existsb]. rewrite str_eqb_refl. reflexivity. Qed.
  Lemma rel_cand c : rel c -> cand (name0 c).
  Proof.
    unfold rel, cand, load_ok, cands. intros H. cbn [existsb].
    destruct (str_eqb (name0 c) n); [reflexivity|].
    destruct (str_eqb (name0 c) (wild n)); [reflexivity|]. cbn [orb] in *.
    destruct hk as [k|]; [|discriminate]. cbn [existsb]. rewrite H. reflexivity.
  Qed.

  Lemma anyst_nil : anyst []. Proof. intros st; exists st; reflexivity. Qed.
  Lemma anyst_app a b : anyst a -> anyst b -> anyst (a ++ b).
  Proof.
    intros A B st. destruct (A st) as [s1 H1]. destruct (B s1) as [s2 H2].
    exists s2. rewrite scan_app, H1. exact H2.
  Qed.
  Lemma anyst_quiet e : evalfree e -> noneed e -> anyst e.
  Proof. intros F G st. exists st. apply scan_quiet; assumption. Qed.
  Lemma anyst_cons_quiet x e : is_eval x = false -> needs_gate x = false -> anyst e -> anyst (x :: e).
  Proof.
    intros A B C. change (x :: e) with ([x] ++ e). apply anyst_app; [|exact C].
    apply anyst_quiet; unfold evalfree, noneed; cbn; rewrite ?A, ?B; reflexivity.
  Qed.
  Lemma anyst_kid e : anyst e -> okkid e. Proof. intros A; exact (A None). Qed.

  (** gate about a candidate name, then effects that are fine once the gate said yes *)
  Lemma gate_then w x req ge a w1 (rest_yes rest_no : list effect) :
    gate is_space w x req = (ge, a, w1) -> cand x -> od_on w = true ->
    (qualifies is_space x = true -> sc (Some (x, true)) rest_yes = Some (Some (x, true))) ->
    anyst rest_no ->
    anyst (ge ++ if a then rest_yes else rest_no).
  Proof.
    intros G C D Y No st. destruct (gate_scan is_space n hk _ _ _ _ _ _ st G C) as (s0 & H0 & Imp).
    rewrite scan_app, H0. destruct a.
    - destruct (Imp eq_refl D) as [-> Q]. exists (Some (x, true)). apply Y; exact Q.
    - apply No.
  Qed.

  Lemma rar_scan w c ok e r w1 : renew_and_reload is_space w n c ok = (e, r, w1) ->
    od_on w = true -> rel c -> anyst e /\ w_od w1 = w_od w /\ (store_wf w -> store_wf w1).
  Proof.
    unfold renew_and_reload, renew_gate_name. intros H D R.
    destruct (c_revoked c) eqn:Rv.
    - destruct (gate is_space w (name0 c) true) as [[ge a] w0] eqn:G. cbv beta iota zeta in H.
      pose proof (gate_od _ _ _ _ _ _ _ G) as O0. pose proof (gate_wf _ _ _ _ _ _ _ G) as W0.
      destruct a; cbn [negb] in H.
      + destruct (force_renew w0 c ok) as [[e1 r1] w2] eqn:E1.
        pose proof (force_renew_fits hk _ _ _ _ _ _ E1) as T1.
        pose proof (force_renew_wf _ _ _ _ _ _ E1) as W1.
        apply force_renew_facts in E1 as [F1 O1]. inv H.
        split; [|split; [congruence|auto]].
        apply (gate_then _ _ _ _ true _ e1 []) with (1 := G); [apply rel_cand; exact R|exact D| |apply anyst_nil].
        intros Q. apply scan_true; assumption.
      + inv H. split; [|split; [rewrite od_cache_remove; exact O0|intros W; apply wf_cache_remove; auto]].
        apply (gate_then _ _ _ _ false _ [] [EEvict (c_id c)]) with (1 := G); [apply rel_cand; exact R|exact D|reflexivity|].
        apply anyst_quiet; reflexivity.
    - destruct (gate is_space w n true) as [[ge a] w0] eqn:G. cbv beta iota zeta in H.
      pose proof (gate_od _ _ _ _ _ _ _ G) as O0. pose proof (gate_wf _ _ _ _ _ _ _ G) as W0.
      destruct a; cbn [negb] in H.
      + destruct (renew_cert w0 n false ok) as [[e1 o1] w2] eqn:E1.
        pose proof (renew_cert_fits hk _ _ _ _ _ _ _ E1) as T1.
        pose proof (renew_cert_wf _ _ _ _ _ _ _ E1) as W1.
        apply renew_cert_facts in E1 as [F1 O1].
        cbv beta iota zeta in H. destruct o1.
        * destruct (reload w2 c) as [[e2 r2] w3] eqn:E2.
          pose proof (reload_fits hk _ _ n _ _ _ E2 R) as T2.
          pose proof (reload_wf _ _ _ _ _ E2) as W2.
          apply reload_facts in E2 as [F2 O2].
          inv H. split; [|split; [congruence|auto]].
          apply (gate_then _ _ _ _ true _ (e1 ++ e2) []) with (1 := G); [apply cand_n|exact D| |apply anyst_nil].
          intros Q. apply scan_true; [apply evalfree_app|apply fits_app|]; assumption.
        * inv H. split; [|split; [congruence|auto]].
          apply (gate_then _ _ _ _ true _ e1 []) with (1 := G); [apply cand_n|exact D| |apply anyst_nil].
          intros Q. apply scan_true; assumption.
      + inv H. split; [|split; [rewrite od_cache_remove; exact O0|intros W; apply wf_cache_remove; auto]].
        apply (gate_then _ _ _ _ false _ [] [EEvict (c_id c)]) with (1 := G); [apply cand_n|exact D|reflexivity|].
        apply anyst_quiet; reflexivity.
  Qed.

  Lemma rd_scan w c held e k r w1 : renew_dynamic is_space w h c held = (e, k, r, w1) ->
    od_on w = true -> rel c ->
    anyst e /\ Forall okkid k /\ w_od w1 = w_od w /\ (store_wf w -> store_wf w1).
  Proof.
    unfold renew_dynamic. rewrite Hn. intros H D R. destruct held.
    - destruct (c_expired c || c_revoked c); inv H; (split; [apply anyst_nil|split; [constructor|auto]]).
    - destruct (c_expired c).
      + destruct (renew_and_reload _ _ _ _ _) as [[e1 r1] w2] eqn:E1.
        apply rar_scan in E1 as (A & O & W); [|exact D|exact R]. inv H. auto.
      + destruct (renew_and_reload _ _ _ _ _) as [[e1 r1] w2] eqn:E1.
        apply rar_scan in E1 as (A & O & W); [|exact D|exact R]. inv H.
        split; [apply anyst_nil|]. split; [|auto]. constructor; [apply anyst_kid; exact A|constructor].
  Qed.

  Section Knot.
    Variable LAM : world -> hello -> name -> bool -> out (option mres).
    Hypothesis HL : forall w held e k r w1, LAM w h n held = (e, k, r, w1) ->
      od_on w = true -> qualifies is_space n = true -> store_wf w ->
      (exists st', sc (Some (n, true)) e = Some st' /\ (r = None -> st' = Some (n, true))) /\
      Forall okkid k /\ w_od w1 = w_od w /\ store_wf w1.

    Lemma ood_scan w e k r w1 : obtain_on_demand LAM w h n = (e, k, r, w1) ->
      od_on w = true -> qualifies is_space n = true -> store_wf w ->
      (exists st', sc (Some (n, true)) e = Some st') /\ Forall okkid k /\ w_od w1 = w_od w /\ store_wf w1.
    Proof.
      unfold obtain_on_demand. intros H D Q W.
      destruct (obtain_cert w n (h_issue_ok h)) as [[e1 o] w0] eqn:E1.
      pose proof (obtain_cert_fits hk _ _ _ _ _ _ E1) as T1.
      pose proof (obtain_cert_wf _ _ _ _ _ _ E1 W) as W0.
      apply obtain_cert_facts in E1 as [F1 O1]. cbv beta iota zeta in H. destruct o.
      - destruct (LAM w0 h n true) as [[[e2 k2] r2] w2] eqn:E2.
        apply HL in E2 as ((s2 & S2 & _) & K2 & O2 & W2); [| rewrite (od_on_eq _ _ O1); exact D | exact Q | exact W0].
        inv H. split; [|split; [exact K2|split; [congruence|exact W2]]].
        exists s2. rewrite scan_app, (scan_true is_space n hk n e1 F1 T1 Q). exact S2.
      - inv H. split; [|split; [constructor|split; [exact O1|exact W0]]].
        exists (Some (n, true)). apply scan_true; assumption.
    Qed.

    Lemma rin_scan w c held e k r w1 : renew_if_necessary is_space LAM w h c held = (e, k, r, w1) ->
      od_on w = true -> rel c -> store_wf w ->
      anyst e /\ Forall okkid k /\ w_od w1 = w_od w /\ store_wf w1.
    Proof.
      unfold renew_if_necessary. intros H D R W. destruct (due c).
      2:{ inv H. split; [apply anyst_nil|split; [constructor|split; [reflexivity|exact W]]]. }
      destruct (store_has (name0 c) w).
      - destruct (renew_dynamic is_space w h c held) as [[[e1 k1] r1] w2] eqn:E1.
        apply rd_scan in E1 as (A & K & O & W1); [|exact D|exact R]. inv H.
        split; [|auto]. apply anyst_cons_quiet; auto.
      - rewrite Hn in H.
        destruct (gate is_space w n true) as [[ge a] w0] eqn:G. cbv beta iota zeta in H.
        pose proof (gate_od _ _ _ _ _ _ _ G) as O0. pose proof (gate_wf _ _ _ _ _ _ _ G W) as W0.
        destruct a.
        + destruct held.
          { inv H. split; [|split; [constructor|split; [exact O0|exact W0]]].
            apply anyst_cons_quiet; [reflexivity|reflexivity|].
            replace ge with (ge ++ if true then [] else @nil effect) by apply app_nil_r.
            apply (gate_then _ _ _ _ true _ [] []) with (1 := G); [apply cand_n|exact D|reflexivity|apply anyst_nil]. }
          destruct (obtain_on_demand LAM w0 h n) as [[[e1 k1] r1] w2] eqn:E1. inv H.
          assert (D0 : od_on w0 = true) by (rewrite (od_on_eq _ _ O0); exact D).
          split; [|].
          * apply anyst_cons_quiet; [reflexivity|reflexivity|].
            intros st. destruct (gate_scan is_space n hk _ _ _ _ _ _ st G cand_n) as (s0 & H0 & Imp).
            destruct (Imp eq_refl D) as [-> Q].
            apply ood_scan in E1 as ((s1 & S1) & _ & _); [|exact D0|exact Q|exact W0].
            exists s1. rewrite scan_app, H0. exact S1.
          * destruct (gate_scan is_space n hk _ _ _ _ _ _ None G cand_n) as (s0 & H0 & Imp).
            destruct (Imp eq_refl D) as [_ Q].
            apply ood_scan in E1 as (_ & K1 & O1 & W1); [|exact D0|exact Q|exact W0].
            split; [exact K1|split; [congruence|exact W1]].
        + inv H. split; [|split; [constructor|split; [rewrite od_cache_remove; exact O0|apply wf_cache_remove; exact W0]]].
          apply anyst_cons_quiet; [reflexivity|reflexivity|].
          apply (gate_then _ _ _ _ false _ [] [EEvict (c_id c)]) with (1 := G); [apply cand_n|exact D|reflexivity|].
          apply anyst_quiet; reflexivity.
    Qed.

    Lemma maint_scan w c held e k r w1 : maintenance is_space LAM w h c held = (e, k, r, w1) ->
      od_on w = true -> rel c -> store_wf w ->
      anyst e /\ Forall okkid k /\ w_od w1 = w_od w /\ store_wf w1.
    Proof.
      unfold maintenance. intros H D R W.
      match type of H with (let '(ka, wa) := ?X in _) = _ => destruct X as [ka wa] eqn:EA end.
      cbv beta iota zeta in H.
      assert (A : Forall okkid ka /\ w_od wa = w_od w /\ store_wf wa).
      { destruct (c_ari c) as [d|]; [|inv EA; split; [constructor|split; [reflexivity|exact W]]].
        destruct (c_expired c); [inv EA; split; [constructor|split; [reflexivity|exact W]]|].
        match type of EA with context [renew_if_necessary ?a ?b ?c ?d ?e ?f] =>
          destruct (renew_if_necessary a b c d e f) as [[[e0 k0] r0] w0] eqn:E0 end.
        inv EA.
        match type of E0 with renew_if_necessary _ _ ?X ?H ?C _ = _ =>
          assert (OW : w_od X = w_od w /\ store_wf X /\ rel C) end.
        { destruct (match store_find (name0 c) w with Some s => c_ari s | None => None end);
            [destruct (cache_find (c_id c) w)|]; (split; [reflexivity|split; [try apply wf_cache_update; exact W|exact R]]). }
        destruct OW as (OW & WW & RW).
        apply rin_scan in E0 as (A0 & K0 & O0 & W0); [|rewrite (od_on_eq _ _ OW); exact D|exact RW|exact WW].
        split; [|split; [congruence|exact W0]].
        constructor; [|exact K0]. apply anyst_kid. apply anyst_cons_quiet; auto. }
      destruct A as (KA & OA & WA).
      assert (DA : od_on wa = true) by (rewrite (od_on_eq _ _ OA); exact D).
      destruct (c_managed c && negb (is_empty_names c) && c_revoked c).
      - destruct (renew_dynamic is_space wa h c held) as [[[e1 k1] r1] w2] eqn:E1.
        apply rd_scan in E1 as (A1 & K1 & O1 & W1); [|exact DA|exact R]. inv H.
        split; [exact A1|]. split; [apply Forall_app; auto|split; [congruence|auto]].
      - destruct (renew_if_necessary is_space LAM wa h c held) as [[[e1 k1] r1] w2] eqn:E1.
        apply rin_scan in E1 as (A1 & K1 & O1 & W1); [|exact DA|exact R|exact WA]. inv H.
        split; [exact A1|]. split; [apply Forall_app; auto|split; [congruence|auto]].
    Qed.
  End Knot.

  Lemma lam_scan fuel : forall w held e k r w1,
    load_and_maintain is_space fuel w h n held = (e, k, r, w1) ->
    od_on w = true -> qualifies is_space n = true -> store_wf w ->
    (exists st', sc (Some (n, true)) e = Some st' /\ (r = None -> st' = Some (n, true))) /\
    Forall okkid k /\ w_od w1 = w_od w /\ store_wf w1.
  Proof.
    induction fuel as [|f IH]; intros w held e k r w1 H D Q W; cbn [load_and_maintain] in H.
    - inv H. split; [exists (Some (n, true)); split; reflexivity|split; [constructor|split; [reflexivity|exact W]]].
    - match type of H with (match ?X with _ => _ end) = _ => destruct X as [[le s]|] eqn:EF end.
      + assert (FL : evalfree le /\ fits hk n le /\ rel (as_loaded s)).
        { unfold rel. change (name0 (as_loaded s)) with (name0 s).
          destruct (store_find n w) as [s1|] eqn:S1.
          - inv EF. rewrite (W _ _ S1). split; [reflexivity|]. split; [|apply load_ok_self].
            unfold fits; cbn. rewrite load_ok_self. reflexivity.
          - destruct (store_find (wild n) w) as [s2|] eqn:S2; inv EF.
            rewrite (W _ _ S2). split; [reflexivity|].
            assert (L : load_ok hk n (wild n) = true).
            { unfold load_ok. rewrite str_eqb_refl, orb_true_r. reflexivity. }
            split; [|exact L]. unfold fits; cbn. rewrite load_ok_self, L. reflexivity. }
        destruct FL as (FL & TL & RL).
        cbv zeta in H.
        match type of H with context [cache_add (as_loaded s) ?W0] => set (w0 := W0) in * end.
        assert (O0 : w_od w0 = w_od w /\ store_wf w0).
        { unfold w0; destruct (h_vanish h && negb held); (split; [reflexivity|]); [apply wf_del|]; exact W. }
        destruct O0 as [O0 WW0].
        destruct (maintenance is_space (load_and_maintain is_space f) (cache_add (as_loaded s) w0) h (as_loaded s) held)
          as [[[e1 k1] r1] w2] eqn:E1.
        apply (maint_scan _ IH) in E1 as (A1 & K1 & O1 & W1);
          [|rewrite (od_on_eq _ _ (od_cache_add _ _)), (od_on_eq _ _ O0); exact D|exact RL|apply wf_cache_add; exact WW0].
        inv H. destruct (A1 (Some (n, true))) as [s1 S1].
        split; [|split; [exact K1|split; [rewrite O1, od_cache_add; exact O0|exact W1]]].
        exists s1. split; [|discriminate]. rewrite scan_app, (scan_true is_space n hk n le FL TL Q). exact S1.
      + inv H. split; [|split; [constructor|split; [reflexivity|exact W]]].
        exists (Some (n, true)). split; [|reflexivity]. apply scan_true; [reflexivity| |exact Q].
        unfold fits; cbn. rewrite load_ok_self. unfold load_ok. rewrite str_eqb_refl, orb_true_r. reflexivity.
  Qed.

  Lemma after_mgr_scan fuel w load e k res w1 : after_mgr is_space fuel w h n load = (e, k, res, w1) ->
    od_on w = true -> store_wf w -> okkid e /\ Forall okkid k.
  Proof.
    unfold after_mgr. intros H D W.
    destruct (gate is_space w n false) as [[ge a] w0] eqn:G. cbv beta iota zeta in H.
    pose proof (gate_od _ _ _ _ _ _ _ G) as O0. pose proof (gate_wf _ _ _ _ _ _ _ G W) as W0.
    assert (D0 : od_on w0 = true) by (rewrite (od_on_eq _ _ O0); exact D).
    destruct (gate_scan is_space n hk _ _ _ _ _ _ None G cand_n) as (s0 & H0 & Imp).
    destruct a; cbn [negb] in H.
    2:{ inv H. split; [exists s0; exact H0|constructor]. }
    destruct (Imp eq_refl D) as [-> Q].
    destruct ((od_on w0 || almost_full w0) && load).
    2:{ inv H. split; [exists (Some (n, true)); exact H0|constructor]. }
    destruct (load_and_maintain is_space (S fuel) w0 h n false) as [[[e1 k1] r1] w2] eqn:E1.
    apply lam_scan in E1 as ((s1 & S1 & N1) & K1 & O1 & W1); [|exact D0|exact Q|exact W0].
    destruct r1 as [m|].
    + assert (X : okkid (ge ++ e1)) by (exists s1; rewrite scan_app, H0; exact S1).
      destruct m; inv H; split; assumption.
    + rewrite (N1 eq_refl) in S1.
      assert (D2 : od_on w2 = true) by (rewrite (od_on_eq _ _ O1); exact D0).
      rewrite D2 in H.
      destruct (obtain_on_demand _ _ _ _) as [[[e2 k2] m2] w3] eqn:E2.
      apply (ood_scan _ (lam_scan fuel)) in E2 as ((s2 & S2) & K2 & _); [|exact D2|exact Q|exact W1].
      inv H. split; [|apply Forall_app; auto].
      exists s2. rewrite scan_app, H0, scan_app, S1. exact S2.
  Qed.

  Lemma get_cert_scan fuel w load e k res w1 : get_cert is_space fuel w h load = (e, k, res, w1) ->
    od_on w = true -> store_wf w -> hk = hit_key w h -> okkid e /\ Forall okkid k.
  Proof.
    unfold get_cert, hit_key. intros H D W HK.
    destruct (match h_hit h with Some id => cache_find id w | None => None end) as [c|] eqn:Hit.
    - assert (R : rel c).
      { unfold rel, load_ok. destruct (h_hit h) as [id|]; [|discriminate]. rewrite Hit in HK. cbn in HK.
        subst hk. rewrite str_eqb_refl, !orb_true_r. reflexivity. }
      destruct (c_managed c && od_on w && load).
      + destruct (maintenance _ _ _ _ _ _) as [[[e1 k1] r1] w2] eqn:E1.
        apply (maint_scan _ (lam_scan fuel)) in E1 as (A1 & K1 & _); [|exact D|exact R|exact W]. inv H.
        split; [apply anyst_kid; exact A1|exact K1].
      + inv H. split; [exists None; reflexivity|constructor].
    - rewrite Hn in H. destruct (mgr_view w h).
      + eapply after_mgr_scan; eauto.
      + destruct (after_mgr is_space fuel w h n load) as [[[e1 k1] r1] w2] eqn:E1. inv H.
        apply after_mgr_scan in E1 as [[st A] K]; [|exact D|exact W]. split; [|exact K].
        exists st. cbn [scan eval_of needs_gate]. exact A.
      + inv H. split; [exists None; reflexivity|constructor].
      + inv H. split; [exists None; reflexivity|constructor].
  Qed.
End Gated.

(** * 3b. Every handshake keeps bundles stored under the first subject of their certificate *)
Section WF.
  Variable is_space : N -> bool.
  Variable h : hello.

  Lemma rar_wf w n c ok e r w1 : renew_and_reload is_space w n c ok = (e, r, w1) -> store_wf w -> store_wf w1.
  Proof.
    unfold renew_and_reload. intros H W.
    destruct (gate is_space w (renew_gate_name n c) true) as [[ge a] w0] eqn:G. cbv beta iota zeta in H.
    apply gate_wf in G; [|exact W]. destruct a; cbn [negb] in H.
    - destruct (c_revoked c).
      + destruct (force_renew w0 c ok) as [[e1 r1] w2] eqn:E1. apply force_renew_wf in E1; [|exact G]. inv H. exact E1.
      + destruct (renew_cert w0 n false ok) as [[e1 o1] w2] eqn:E1. apply renew_cert_wf in E1; [|exact G].
        cbv beta iota zeta in H. destruct o1.
        * destruct (reload w2 c) as [[e2 r2] w3] eqn:E2. apply reload_wf in E2; [|exact E1]. inv H. exact E2.
        * inv H. exact E1.
    - inv H. apply wf_cache_remove, G.
  Qed.

  Lemma rd_wf w c held e k r w1 : renew_dynamic is_space w h c held = (e, k, r, w1) -> store_wf w -> store_wf w1.
  Proof.
    unfold renew_dynamic. intros H W. destruct (h_name h) as [n|]; [|inv H; exact W].
    destruct held.
    - destruct (c_expired c || c_revoked c); inv H; exact W.
    - destruct (c_expired c); destruct (renew_and_reload _ _ _ _ _) as [[e1 r1] w2] eqn:E1;
        apply rar_wf in E1; try exact W; inv H; exact E1.
  Qed.

  Section Knot.
    Variable LAM : world -> hello -> name -> bool -> out (option mres).
    Hypothesis HL : forall w n held e k r w1, LAM w h n held = (e, k, r, w1) -> store_wf w -> store_wf w1.

    Lemma ood_wf w n e k r w1 : obtain_on_demand LAM w h n = (e, k, r, w1) -> store_wf w -> store_wf w1.
    Proof.
      unfold obtain_on_demand. intros H W.
      destruct (obtain_cert w n (h_issue_ok h)) as [[e1 o] w0] eqn:E1. apply obtain_cert_wf in E1; [|exact W].
      cbv beta iota zeta in H. destruct o.
      - destruct (LAM w0 h n true) as [[[e2 k2] r2] w2] eqn:E2. apply HL in E2; [|exact E1]. inv H. exact E2.
      - inv H. exact E1.
    Qed.

    Lemma rin_wf w c held e k r w1 : renew_if_necessary is_space LAM w h c held = (e, k, r, w1) ->
      store_wf w -> store_wf w1.
    Proof.
      unfold renew_if_necessary. intros H W. destruct (due c); [|inv H; exact W].
      destruct (store_has (name0 c) w).
      - destruct (renew_dynamic is_space w h c held) as [[[e1 k1] r1] w2] eqn:E1.
        apply rd_wf in E1; [|exact W]. inv H. exact E1.
      - destruct (h_name h) as [n|]; [|inv H; exact W].
        destruct (gate is_space w n true) as [[ge a] w0] eqn:G. cbv beta iota zeta in H.
        apply gate_wf in G; [|exact W]. destruct a.
        + destruct held; [inv H; exact G|].
          destruct (obtain_on_demand LAM w0 h n) as [[[e1 k1] r1] w2] eqn:E1.
          apply ood_wf in E1; [|exact G]. inv H. exact E1.
        + inv H. apply wf_cache_remove, G.
    Qed.

    Lemma maint_wf w c held e k r w1 : maintenance is_space LAM w h c held = (e, k, r, w1) ->
      store_wf w -> store_wf w1.
    Proof.
      unfold maintenance. intros H W.
      match type of H with (let '(ka, wa) := ?X in _) = _ => destruct X as [ka wa] eqn:EA end.
      cbv beta iota zeta in H.
      assert (WA : store_wf wa).
      { destruct (c_ari c) as [d|]; [|inv EA; exact W].
        destruct (c_expired c); [inv EA; exact W|].
        match type of EA with context [renew_if_necessary ?a ?b ?c ?d ?e ?f] =>
          destruct (renew_if_necessary a b c d e f) as [[[e0 k0] r0] w0] eqn:E0 end.
        inv EA. apply rin_wf in E0; [exact E0|].
        destruct (match store_find (name0 c) w with Some s => c_ari s | None => None end);
          [destruct (cache_find (c_id c) w)|]; try apply wf_cache_update; exact W. }
      destruct (c_managed c && negb (is_empty_names c) && c_revoked c).
      - destruct (renew_dynamic is_space wa h c held) as [[[e1 k1] r1] w2] eqn:E1.
        apply rd_wf in E1; [|exact WA]. inv H. exact E1.
      - destruct (renew_if_necessary is_space LAM wa h c held) as [[[e1 k1] r1] w2] eqn:E1.
        apply rin_wf in E1; [|exact WA]. inv H. exact E1.
    Qed.
  End Knot.

  Lemma lam_wf fuel : forall w n held e k r w1,
    load_and_maintain is_space fuel w h n held = (e, k, r, w1) -> store_wf w -> store_wf w1.
  Proof.
    induction fuel as [|f IH]; intros w n held e k r w1 H W; cbn [load_and_maintain] in H; [inv H; exact W|].
    match type of H with (match ?X with _ => _ end) = _ => destruct X as [[le s]|] eqn:EF end; [|inv H; exact W].
    cbv zeta in H.
    match type of H with context [cache_add (as_loaded s) ?W0] => set (w0 := W0) in * end.
    assert (W0 : store_wf w0) by (unfold w0; destruct (h_vanish h && negb held); [apply wf_del|]; exact W).
    destruct (maintenance is_space (load_and_maintain is_space f) (cache_add (as_loaded s) w0) h (as_loaded s) held)
      as [[[e1 k1] r1] w2] eqn:E1.
    apply (maint_wf _ IH) in E1; [|apply wf_cache_add; exact W0]. inv H. exact E1.
  Qed.

  Lemma after_mgr_wf fuel w n load e k res w1 : after_mgr is_space fuel w h n load = (e, k, res, w1) ->
    store_wf w -> store_wf w1.
  Proof.
    unfold after_mgr. intros H W.
    destruct (gate is_space w n false) as [[ge a] w0] eqn:G. cbv beta iota zeta in H.
    apply gate_wf in G; [|exact W].
    destruct a; cbn [negb] in H; [|inv H; exact G].
    destruct ((od_on w0 || almost_full w0) && load); [|inv H; exact G].
    destruct (load_and_maintain is_space (S fuel) w0 h n false) as [[[e1 k1] r1] w2] eqn:E1.
    apply lam_wf in E1; [|exact G].
    destruct r1 as [m|].
    + destruct m; inv H; exact E1.
    + destruct (od_on w2).
      * destruct (obtain_on_demand _ _ _ _) as [[[e2 k2] m2] w3] eqn:E2.
        apply (ood_wf _ (lam_wf fuel)) in E2; [|exact E1]. inv H. exact E2.
      * inv H. exact E1.
  Qed.

  Theorem get_cert_wf fuel w load e k res w1 : get_cert is_space fuel w h load = (e, k, res, w1) ->
    store_wf w -> store_wf w1.
  Proof.
    unfold get_cert. intros H W.
    destruct (match h_hit h with Some id => cache_find id w | None => None end) as [c|].
    - destruct (c_managed c && od_on w && load).
      + destruct (maintenance _ _ _ _ _ _) as [[[e1 k1] r1] w2] eqn:E1.
        apply (maint_wf _ (lam_wf fuel)) in E1; [|exact W]. inv H. exact E1.
      + inv H. exact W.
    - destruct (h_name h) as [n|]; [|inv H; exact W].
      destruct (mgr_view w h).
      + eapply after_mgr_wf; eauto.
      + destruct (after_mgr is_space fuel w h n load) as [[[e1 k1] r1] w2] eqn:E1. inv H.
        eapply after_mgr_wf; eauto.
      + inv H. exact W.
      + inv H. exact W.
  Qed.
End WF.

(** * 4. The hello has no usable name (idna error): no Issue, no Load *)
Section NoName.
  Variable is_space : N -> bool.
  Variable h : hello.
  Hypothesis Hn : h_name h = None.

  Lemma rin_none LAM w c held e k r w1 :
    renew_if_necessary is_space LAM w h c held = (e, k, r, w1) -> noneed e /\ k = [].
  Proof.
    unfold renew_if_necessary, renew_dynamic. rewrite Hn. intros H.
    destruct (due c); [destruct (store_has (name0 c) w)|]; inv H; split; reflexivity.
  Qed.

  Lemma maint_none LAM w c held e k r w1 :
    maintenance is_space LAM w h c held = (e, k, r, w1) -> noneed e /\ Forall noneed k.
  Proof.
    unfold maintenance. intros H.
    match type of H with (let '(ka, wa) := ?X in _) = _ => destruct X as [ka wa] eqn:EA end.
    cbv beta iota zeta in H.
    assert (A : Forall noneed ka).
    { destruct (c_ari c) as [d|]; [|inv EA; constructor].
      destruct (c_expired c); [inv EA; constructor|].
      match type of EA with context [renew_if_necessary ?a ?b ?c ?d ?e ?f] =>
        destruct (renew_if_necessary a b c d e f) as [[[e0 k0] r0] w0] eqn:E0 end.
      inv EA. apply rin_none in E0 as [N0 ->].
      constructor; [|constructor]. unfold noneed in *; cbn [forallb needs_gate negb andb]. exact N0. }
    destruct (c_managed c && negb (is_empty_names c) && c_revoked c).
    - unfold renew_dynamic in H. rewrite Hn in H. inv H. split; [reflexivity|].
      rewrite app_nil_r. exact A.
    - destruct (renew_if_necessary is_space LAM wa h c held) as [[[e1 k1] r1] w2] eqn:E1.
      apply rin_none in E1 as [N1 ->]. inv H. split; [exact N1|]. rewrite app_nil_r. exact A.
  Qed.

  Lemma get_cert_none fuel w load e k res w1 :
    get_cert is_space fuel w h load = (e, k, res, w1) -> noneed e /\ Forall noneed k.
  Proof.
    unfold get_cert. intros H.
    destruct (match h_hit h with Some id => cache_find id w | None => None end) as [c|].
    - destruct (c_managed c && od_on w && load).
      + destruct (maintenance _ _ _ _ _ _) as [[[e1 k1] r1] w2] eqn:E1.
        apply maint_none in E1 as [N1 K1]. inv H. auto.
      + inv H. split; [reflexivity|constructor].
    - rewrite Hn in H. inv H. split; [reflexivity|constructor].
  Qed.
End NoName.

(** * 5. On-demand disabled: no Issue *)
Section OdOff.
  Variable is_space : N -> bool.
  Variable h : hello.

  Definition noissue (l : list effect) : Prop := existsb is_issue l = false.

  Lemma noissue_app a b : noissue a -> noissue b -> noissue (a ++ b).
  Proof. unfold noissue. rewrite existsb_app. intros -> ->; reflexivity. Qed.

  Lemma rar_off w n c ok e r w1 : renew_and_reload is_space w n c ok = (e, r, w1) ->
    od_on w = false -> noissue e /\ w_od w1 = w_od w.
  Proof.
    unfold renew_and_reload. intros H D.
    destruct (gate is_space w (renew_gate_name n c) true) as [[ge a] w0] eqn:G.
    destruct (gate_req_off _ _ _ _ _ _ G D) as (-> & -> & ->).
    cbv beta iota zeta in H. cbn [negb] in H. inv H. split; reflexivity.
  Qed.

  Lemma rd_off w c held e k r w1 : renew_dynamic is_space w h c held = (e, k, r, w1) ->
    od_on w = false -> noissue e /\ Forall noissue k /\ w_od w1 = w_od w.
  Proof.
    unfold renew_dynamic. intros H D. destruct (h_name h) as [n|].
    2:{ inv H. split; [reflexivity|split; [constructor|reflexivity]]. }
    destruct held.
    - destruct (c_expired c || c_revoked c); inv H; (split; [reflexivity|split; [constructor|reflexivity]]).
    - destruct (c_expired c).
      + destruct (renew_and_reload _ _ _ _ _) as [[e1 r1] w2] eqn:E1.
        apply rar_off in E1 as [A O]; [|exact D]. inv H. split; [exact A|split; [constructor|exact O]].
      + destruct (renew_and_reload _ _ _ _ _) as [[e1 r1] w2] eqn:E1.
        apply rar_off in E1 as [A O]; [|exact D]. inv H.
        split; [reflexivity|split; [constructor; [exact A|constructor]|exact O]].
  Qed.

  Lemma rin_off LAM w c held e k r w1 :
    renew_if_necessary is_space LAM w h c held = (e, k, r, w1) ->
    od_on w = false -> noissue e /\ Forall noissue k /\ w_od w1 = w_od w.
  Proof.
    unfold renew_if_necessary. intros H D. destruct (due c).
    2:{ inv H. split; [reflexivity|split; [constructor|reflexivity]]. }
    destruct (store_has (name0 c) w).
    - destruct (renew_dynamic is_space w h c held) as [[[e1 k1] r1] w2] eqn:E1.
      apply rd_off in E1 as (A & K & O); [|exact D]. inv H. split; [exact A|auto].
    - destruct (h_name h) as [n|].
      2:{ inv H. split; [reflexivity|split; [constructor|reflexivity]]. }
      destruct (gate is_space w n true) as [[ge a] w0] eqn:G.
      destruct (gate_req_off _ _ _ _ _ _ G D) as (-> & -> & ->).
      cbv beta iota zeta in H. inv H. split; [reflexivity|split; [constructor|reflexivity]].
  Qed.

  Lemma maint_off LAM w c held e k r w1 :
    maintenance is_space LAM w h c held = (e, k, r, w1) ->
    od_on w = false -> noissue e /\ Forall noissue k /\ w_od w1 = w_od w.
  Proof.
    unfold maintenance. intros H D.
    match type of H with (let '(ka, wa) := ?X in _) = _ => destruct X as [ka wa] eqn:EA end.
    cbv beta iota zeta in H.
    assert (A : Forall noissue ka /\ w_od wa = w_od w).
    { destruct (c_ari c) as [d|]; [|inv EA; split; [constructor|reflexivity]].
      destruct (c_expired c); [inv EA; split; [constructor|reflexivity]|].
      match type of EA with context [renew_if_necessary ?a ?b ?c ?d ?e ?f] =>
        destruct (renew_if_necessary a b c d e f) as [[[e0 k0] r0] w0] eqn:E0 end.
      inv EA.
      match type of E0 with renew_if_necessary _ _ ?W _ _ _ = _ =>
        assert (OW : w_od W = w_od w) end.
      { destruct (match store_find (name0 c) w with Some s => c_ari s | None => None end);
          [destruct (cache_find (c_id c) w)|]; reflexivity. }
      apply rin_off in E0 as (A0 & K0 & O0); [|rewrite (od_on_eq _ _ OW); exact D].
      split; [|congruence]. constructor; [exact A0|exact K0]. }
    destruct A as [KA OA].
    assert (DA : od_on wa = false) by (rewrite (od_on_eq _ _ OA); exact D).
    destruct (c_managed c && negb (is_empty_names c) && c_revoked c).
    - destruct (renew_dynamic is_space wa h c held) as [[[e1 k1] r1] w2] eqn:E1.
      apply rd_off in E1 as (A1 & K1 & O1); [|exact DA]. inv H.
      split; [exact A1|]. split; [apply Forall_app; auto|congruence].
    - destruct (renew_if_necessary is_space LAM wa h c held) as [[[e1 k1] r1] w2] eqn:E1.
      apply rin_off in E1 as (A1 & K1 & O1); [|exact DA]. inv H.
      split; [exact A1|]. split; [apply Forall_app; auto|congruence].
  Qed.

  Lemma lam_off fuel : forall w n held e k r w1,
    load_and_maintain is_space fuel w h n held = (e, k, r, w1) ->
    od_on w = false -> noissue e /\ Forall noissue k /\ w_od w1 = w_od w.
  Proof.
    induction fuel as [|f IH]; intros w n held e k r w1 H D; cbn [load_and_maintain] in H.
    - inv H. split; [reflexivity|split; [constructor|reflexivity]].
    - match type of H with (match ?X with _ => _ end) = _ => destruct X as [[le s]|] eqn:EF end.
      + assert (FL : noissue le).
        { destruct (store_find n w); [inv EF; reflexivity|].
          destruct (store_find (wild n) w); inv EF; reflexivity. }
        cbv zeta in H.
        match type of H with context [cache_add (as_loaded s) ?W0] => set (w0 := W0) in * end.
        assert (O0 : w_od w0 = w_od w) by (unfold w0; destruct (h_vanish h && negb held); reflexivity).
        destruct (maintenance is_space (load_and_maintain is_space f) (cache_add (as_loaded s) w0) h (as_loaded s) held)
          as [[[e1 k1] r1] w2] eqn:E1.
        apply maint_off in E1 as (A1 & K1 & O1);
          [|rewrite (od_on_eq _ _ (od_cache_add _ _)), (od_on_eq _ _ O0); exact D].
        inv H. split; [apply noissue_app; assumption|split; [exact K1|rewrite O1, od_cache_add; exact O0]].
      + inv H. split; [reflexivity|split; [constructor|reflexivity]].
  Qed.

  Lemma after_mgr_off fuel w n load e k res w1 : after_mgr is_space fuel w h n load = (e, k, res, w1) ->
    od_on w = false -> noissue e /\ Forall noissue k.
  Proof.
    unfold after_mgr. intros H D.
    destruct (gate is_space w n false) as [[ge a] w0] eqn:G. cbv beta iota zeta in H.
    pose proof (gate_od _ _ _ _ _ _ _ G) as O0.
    pose proof (gate_noissue _ _ _ _ _ _ _ G) as NG.
    assert (D0 : od_on w0 = false) by (rewrite (od_on_eq _ _ O0); exact D).
    destruct a; cbn [negb] in H; [|inv H; split; [exact NG|constructor]].
    destruct ((od_on w0 || almost_full w0) && load); [|inv H; split; [exact NG|constructor]].
    destruct (load_and_maintain is_space (S fuel) w0 h n false) as [[[e1 k1] r1] w2] eqn:E1.
    apply lam_off in E1 as (A1 & K1 & O1); [|exact D0].
    destruct r1 as [m|].
    + destruct m; inv H; (split; [apply noissue_app; assumption|exact K1]).
    + assert (D2 : od_on w2 = false) by (rewrite (od_on_eq _ _ O1); exact D0).
      rewrite D2 in H. inv H. split; [apply noissue_app; assumption|exact K1].
  Qed.

  Lemma get_cert_off fuel w load e k res w1 : get_cert is_space fuel w h load = (e, k, res, w1) ->
    od_on w = false -> noissue e /\ Forall noissue k.
  Proof.
    unfold get_cert. intros H D.
    destruct (match h_hit h with Some id => cache_find id w | None => None end) as [c|].
    - rewrite D, andb_false_r in H. cbn [andb] in H. inv H. split; [reflexivity|constructor].
    - destruct (h_name h) as [n|]; [|inv H; split; [reflexivity|constructor]].
      unfold mgr_view in H. rewrite D in H. eapply after_mgr_off; eauto.
  Qed.
End OdOff.

(** * 6. The theorems *)
Section Main.
  Variable is_space : N -> bool.

  Lemma okkid_scan_ok n hk g : okkid is_space n hk g -> scan_ok is_space n hk g = true.
  Proof. intros [st' H]. unfold scan_ok. rewrite H. reflexivity. Qed.

  (** the boolean monitor holds of every handshake of the model, in every well-formed world *)
  Theorem get_cert_gated_ok fuel w h load e k res w1 :
    get_cert is_space fuel w h load = (e, k, res, w1) -> store_wf w ->
    gated_ok is_space (od_on w) (h_name h) (hit_key w h) (e :: k) = true.
  Proof.
    intros H W. unfold gated_ok. destruct (od_on w) eqn:D.
    - destruct (h_name h) as [n|] eqn:Hn.
      + destruct (get_cert_scan is_space h n Hn (hit_key w h) _ _ _ _ _ _ _ H D W eq_refl) as [A K].
        assert (F : Forall (okkid is_space n (hit_key w h)) (e :: k)) by (constructor; assumption).
        apply forallb_forall. intros g Hg. rewrite Forall_forall in F.
        apply okkid_scan_ok. exact (F g Hg).
      + destruct (get_cert_none is_space h Hn _ _ _ _ _ _ _ H) as [A K].
        apply negb_true_iff. apply not_true_iff_false. intros Ex.
        apply existsb_exists in Ex as (g & Hg & Eg).
        assert (N : noneed g).
        { destruct Hg as [<-|Hg]; [exact A|]. rewrite Forall_forall in K. apply K; exact Hg. }
        unfold noneed in N. apply existsb_exists in Eg as (x & Hx & Ex).
        rewrite forallb_forall in N. specialize (N x Hx). rewrite Ex in N. discriminate.
    - destruct (get_cert_off is_space h _ _ _ _ _ _ _ H D) as [A K].
      apply negb_true_iff. apply not_true_iff_false. intros Ex.
      apply existsb_exists in Ex as (g & Hg & Eg).
      assert (N : noissue g).
      { destruct Hg as [<-|Hg]; [exact A|]. rewrite Forall_forall in K. apply K; exact Hg. }
      unfold noissue in N. congruence.
  Qed.

  Corollary handshake_gated_ok w h e k res w1 :
    handshake is_space w h = (e, k, res, w1) -> store_wf w ->
    gated_ok is_space (od_on w) (h_name h) (hit_key w h) (e :: k) = true.
  Proof. apply get_cert_gated_ok. Qed.

  (** ... and of every handshake of every history whose environment stores bundles under the
      first subject of their certificate, as certmagic does *)
  Definition op_wf (o : op) : Prop :=
    match o with OStorePut n c => name0 c = n | _ => True end.
  Lemma env_step_wf w o : op_wf o -> store_wf w -> store_wf (env_step w o).
  Proof.
    destruct o; cbn [env_step op_wf]; intros O W;
      first [exact W | apply wf_del, W | apply wf_put; assumption | apply wf_cache_update, W
            | apply wf_cache_remove, W | apply wf_cache_add, W].
  Qed.

  Definition obs_ok (o : hs_obs) : Prop :=
    gated_ok is_space (od_on (ho_world o)) (h_name (ho_hello o)) (hit_key (ho_world o) (ho_hello o))
             (ho_own o :: ho_kids o) = true.

  Theorem run_gated_ok : forall ops w, Forall op_wf ops -> store_wf w ->
    Forall obs_ok (fst (run is_space w ops)) /\ Forall (fun o => store_wf (ho_world o)) (fst (run is_space w ops)).
  Proof.
    induction ops as [|o ops IH]; intros w OW W; [split; constructor|].
    inversion OW as [|? ? O1 O2]; subst.
    destruct o; cbn [run]; try (apply IH; [exact O2|apply (env_step_wf w _ O1 W)]).
    destruct (handshake is_space w h) as [[[e k] res] w1] eqn:E.
    assert (W1 : store_wf w1) by (eapply get_cert_wf; [exact E|exact W]).
    destruct (IH w1 O2 W1) as [A B]. destruct (run is_space w1 ops) as [tr w2]. cbn [fst] in *.
    split; constructor; try assumption. unfold obs_ok; cbn. eapply handshake_gated_ok; eauto.
  Qed.

  (** the statement itself, position by position: an Issue for subject m / a Load of bundle m is
      preceded, in the same goroutine, by a policy evaluation about a name y that answered yes and
      is the most recent evaluation, y qualifies, and y covers m: for an Issue y = m, for a Load m is
      y, y's wildcard variant, or the bundle of the certificate the handshake matched in the cache *)
  Theorem gated_positions w h e k res w1 :
    handshake is_space w h = (e, k, res, w1) -> od_on w = true -> store_wf w ->
    forall g, In g (e :: k) ->
    forall i x, nth_error g i = Some x -> needs_gate x = true ->
    exists n y j z, h_name h = Some n /\ qualifies is_space y = true /\ fit1 (hit_key w h) y x = true /\
      (j < i)%nat /\ nth_error g j = Some z /\ (z = EDecision y true \/ z = EAllow y true) /\
      existsb (str_eqb y) (cands n (hit_key w h)) = true /\
      forall k' z', (j < k' < i)%nat -> nth_error g k' = Some z' -> is_eval z' = false.
  Proof.
    intros H D W g Hg i x Hi Hx.
    pose proof (handshake_gated_ok _ _ _ _ _ _ H W) as G. unfold gated_ok in G. rewrite D in G.
    assert (Ex : existsb (existsb needs_gate) (e :: k) = true).
    { apply existsb_exists. exists g. split; [exact Hg|]. apply existsb_exists. exists x.
      split; [eapply nth_error_In; exact Hi|exact Hx]. }
    destruct (h_name h) as [n|].
    2:{ rewrite Ex in G. discriminate. }
    rewrite forallb_forall in G. specialize (G g Hg). unfold scan_ok in G.
    destruct (scan is_space n (hit_key w h) None g) as [st'|] eqn:S; [|discriminate].
    destruct (scan_sound is_space n (hit_key w h) g _ _ S i x Hi Hx)
      as (y & Q & F & [(j & z & Hj & Hz & Hp & Hb)|[Hs _]]); [|discriminate].
    exists n, y, j, z. split; [reflexivity|]. split; [exact Q|]. split; [exact F|]. split; [exact Hj|].
    split; [exact Hz|]. split; [|split; [|exact Hb]].
    - destruct z; cbn in Hp; try discriminate; inv Hp; auto.
    - apply (scan_evals is_space n (hit_key w h) g _ _ S z y true); [eapply nth_error_In; exact Hz|exact Hp].
  Qed.

  Theorem no_issue_without_on_demand w h e k res w1 :
    handshake is_space w h = (e, k, res, w1) -> w_od w = None ->
    forall g, In g (e :: k) -> forall s, ~ In (EIssue s) g.
  Proof.
    intros H D g Hg s Hs.
    assert (OD : od_on w = false) by (unfold od_on; rewrite D; reflexivity).
    destruct (get_cert_off is_space h _ _ _ _ _ _ _ H OD) as [A K].
    assert (N : noissue g).
    { destruct Hg as [<-|Hg]; [exact A|]. rewrite Forall_forall in K. apply K; exact Hg. }
    unfold noissue in N. apply not_true_iff_false in N. apply N.
    apply existsb_exists. exists (EIssue s). auto.
  Qed.

  Lemma after_mgr_lazy fuel w h n e k res w1 :
    after_mgr is_space fuel w h n false = (e, k, res, w1) ->
    noneed e /\ k = [] /\ w_cache w1 = w_cache w /\ w_store w1 = w_store w.
  Proof.
    unfold after_mgr. intros H.
    destruct (gate is_space w n false) as [[ge a] w0] eqn:G. cbv beta iota zeta in H.
    pose proof (gate_noneed _ _ _ _ _ _ _ G) as NG.
    assert (W : w_cache w0 = w_cache w /\ w_store w0 = w_store w).
    { revert G. unfold gate. destruct (false && negb (od_on w)); [intros G; inv G; auto|].
      destruct (negb (qualifies is_space n)); [intros G; inv G; auto|].
      destruct (w_od w) as [[f|l]|]; intros G; inv G; auto. }
    destruct a; cbn [negb] in H; [|inv H; tauto].
    rewrite andb_false_r in H. inv H. tauto.
  Qed.

  (** a handshake re-entering after a wait (loadOrObtainIfNecessary = false) causes no Issue / Load
      and spawns nothing, whatever the world (it may ask the external managers again) *)
  Theorem waiter_effect_free fuel w h e k res w1 :
    get_cert is_space fuel w h false = (e, k, res, w1) ->
    noneed e /\ k = [] /\ w_cache w1 = w_cache w /\ w_store w1 = w_store w.
  Proof.
    unfold get_cert. intros H.
    destruct (match h_hit h with Some id => cache_find id w | None => None end) as [c|].
    - rewrite andb_false_r in H. inv H. repeat split.
    - destruct (h_name h) as [n|]; [|inv H; repeat split].
      destruct (mgr_view w h).
      + eapply after_mgr_lazy; eauto.
      + destruct (after_mgr is_space fuel w h n false) as [[[e1 k1] r1] w2] eqn:E1. inv H.
        apply after_mgr_lazy in E1 as (A & B & C & D). repeat split; assumption.
      + inv H. repeat split.
      + inv H. repeat split.
  Qed.
End Main.

(** * 7. SubjectQualifiesForCert, characterised *)
Section QualSpec.
  Variable is_space : N -> bool.

  Lemma has_prefix_iff p s : has_prefix p s = true <-> exists r, s = p ++ r.
  Proof.
    unfold has_prefix. destruct (strip_prefix p s) as [r|] eqn:E.
    - apply strip_prefix_spec in E. split; [eauto|reflexivity].
    - split; [discriminate|]. intros [r Hr]. apply strip_prefix_spec in Hr. congruence.
  Qed.

  Lemma contains1_iff c s : contains [c] s = true <-> In c s.
  Proof.
    induction s as [|x s IH]; cbn [contains].
    - unfold has_prefix; cbn. split; [discriminate|intros []].
    - rewrite orb_true_iff, IH. unfold has_prefix; cbn [strip_prefix].
      destruct (N.eqb_spec c x) as [->|Ne]; cbn.
      + split; auto.
      + split; [intros [D|I]; [discriminate|auto]|intros [E|I]; [congruence|auto]].
  Qed.

  Lemma has_suffix1_iff c s : has_suffix [c] s = true <-> exists r, s = r ++ [c].
  Proof.
    unfold has_suffix. cbn [rev app]. rewrite has_prefix_iff. split.
    - intros [r Hr]. exists (rev r). rewrite <- (rev_involutive s), Hr. cbn. reflexivity.
    - intros [r ->]. exists (rev r). rewrite rev_app_distr. reflexivity.
  Qed.

  (** the source as translated today says exactly what the documented rule says *)
  Theorem qualifies_is_spec s : qualifies is_space s = qual_spec is_space s.
  Proof. reflexivity. Qed.

  Theorem qualifies_spec s : qualifies is_space s = true <->
    (exists c, In c s /\ is_space c = false) /\
    ~ (exists r, s = 46 :: r) /\
    ~ (exists r, s = r ++ [46]) /\
    (In 42 s -> (exists r, s = 42 :: 46 :: r) \/ s = [42]) /\
    (forall c, In c s -> ~ In c reject_chars).
  Proof.
    unfold qualifies, qualifies_with, qualify_conds. cbn [forallb eval_cond].
    rewrite !andb_true_iff, !negb_true_iff, !orb_true_iff, negb_true_iff.
    assert (A : forallb is_space s = false <-> exists c, In c s /\ is_space c = false).
    { split.
      - intros F. induction s as [|x s IH]; [discriminate|]. cbn in F.
        destruct (is_space x) eqn:Ex; [destruct (IH F) as (c & I & Ec); exists c; cbn; auto|].
        exists x; cbn; auto.
      - intros (c & I & Ec). apply not_true_iff_false. intros F. rewrite forallb_forall in F.
        rewrite (F c I) in Ec. discriminate. }
    assert (B : has_prefix [46] s = false <-> ~ (exists r, s = 46 :: r)).
    { rewrite <- not_true_iff_false, has_prefix_iff. reflexivity. }
    assert (C : has_suffix [46] s = false <-> ~ (exists r, s = r ++ [46])).
    { rewrite <- not_true_iff_false, has_suffix1_iff. reflexivity. }
    assert (Dd : (contains [42] s = false \/ has_prefix [42; 46] s = true) \/ str_eqb s [42] = true <->
                 (In 42 s -> (exists r, s = 42 :: 46 :: r) \/ s = [42])).
    { rewrite <- not_true_iff_false, contains1_iff, has_prefix_iff, str_eqb_eq. split.
      - intros [[N|P]|E] I; [contradiction|left; exact P|right; exact E].
      - intros Hh. destruct (in_dec N.eq_dec 42 s) as [I|NI]; [|auto].
        destruct (Hh I); auto. }
    assert (E : existsb (fun c => mem_c c [40; 41; 91; 93; 123; 125; 60; 62; 32; 9; 10; 34; 92; 33; 64; 35; 36; 37; 94; 38; 124; 59; 39; 43; 61]) s = false <->
                (forall c, In c s -> ~ In c reject_chars)).
    { rewrite <- not_true_iff_false. split.
      - intros Hh c I R. apply Hh. apply existsb_exists. exists c. split; [exact I|].
        unfold mem_c. apply existsb_exists. exists c. split; [exact R|apply N.eqb_refl].
      - intros Hh Ex. apply existsb_exists in Ex as (c & I & M). unfold mem_c in M.
        apply existsb_exists in M as (d & Id & Ed). apply N.eqb_eq in Ed. subst d.
        exact (Hh c I Id). }
    rewrite A, B, C, Dd, E. tauto.
  Qed.
End QualSpec.

(** * 8. The recorded answers are the policy's answers *)
Section Truthful.
  Variable is_space : N -> bool.
  Variable p : option policy.     (* the policy in force during the handshake *)
  Variable lo : nat.              (* evaluations made before the handshake *)

  Definition truthful (e : effect) : Prop :=
    match e with
    | EDecision m r => exists f k, p = Some (PDecision f) /\ (lo <= k)%nat /\ r = f k m
    | EAllow m r => exists l, p = Some (PAllow l) /\ r = allow_ok l m
    | _ => True
    end.
  Definition winv (w : world) : Prop := w_od w = p /\ (lo <= w_evals w)%nat.
  Definition same_pe (w w' : world) : Prop := w_od w' = w_od w /\ w_evals w' = w_evals w.

  Lemma winv_same w w' : same_pe w w' -> winv w -> winv w'.
  Proof. unfold same_pe, winv. intros [-> ->]; auto. Qed.
  Lemma same_refl w : same_pe w w. Proof. split; reflexivity. Qed.
  Lemma same_trans a b c : same_pe a b -> same_pe b c -> same_pe a c.
  Proof. unfold same_pe. intros [A1 A2] [B1 B2]. split; congruence. Qed.
  Lemma same_cache_add c w : same_pe w (cache_add c w).
  Proof. unfold cache_add. destruct (cache_has _ _); split; reflexivity. Qed.
  Lemma same_cache_remove i w : same_pe w (cache_remove i w). Proof. split; reflexivity. Qed.
  Lemma same_cache_replace a b w : same_pe w (cache_replace a b w).
  Proof. unfold cache_replace. eapply same_trans; [apply same_cache_remove|apply same_cache_add]. Qed.
  Lemma same_cache_update c w : same_pe w (cache_update c w). Proof. split; reflexivity. Qed.
  Lemma same_store_del m w : same_pe w (store_del m w). Proof. split; reflexivity. Qed.
  Lemma same_store_put m c w : same_pe w (store_put m c w). Proof. split; reflexivity. Qed.
  Lemma same_bump_fresh w : same_pe w (bump_fresh w). Proof. split; reflexivity. Qed.

  Definition plain (e : list effect) : Prop := Forall truthful e.

  Lemma evalfree_plain e : evalfree e -> plain e.
  Proof.
    unfold evalfree, plain. intros F. apply Forall_forall. intros x Hx.
    rewrite forallb_forall in F. specialize (F x Hx). destruct x; try exact I; discriminate.
  Qed.

  Lemma obtain_cert_same w n ok e o w1 : obtain_cert w n ok = (e, o, w1) -> same_pe w w1.
  Proof.
    unfold obtain_cert. destruct (store_has n w); [|destruct ok]; intros H; inv H;
      try apply same_refl.
    eapply same_trans; [apply same_bump_fresh|apply same_store_put].
  Qed.
  Lemma renew_cert_same w n force ok e o w1 : renew_cert w n force ok = (e, o, w1) -> same_pe w w1.
  Proof.
    unfold renew_cert. destruct (store_find n w); [destruct (due _ || force); [destruct ok|]|];
      intros H; inv H; try apply same_refl.
    eapply same_trans; [apply same_bump_fresh|apply same_store_put].
  Qed.
  Lemma reload_same w c e r w1 : reload w c = (e, r, w1) -> same_pe w w1.
  Proof.
    unfold reload. destruct (store_find _ w); intros H; inv H; [apply same_cache_replace|apply same_refl].
  Qed.
  Lemma force_renew_same w c ok e r w1 : force_renew w c ok = (e, r, w1) -> same_pe w w1.
  Proof.
    unfold force_renew. intros H. destruct (c_keycomp c).
    - destruct (obtain_cert _ _ _) as [[e0 o] w0] eqn:E0. cbv beta iota zeta in H.
      apply obtain_cert_same in E0. pose proof (same_trans _ _ _ (same_store_del _ _) E0) as S0.
      destruct o.
      + destruct (reload w0 c) as [[e2 r2] w2] eqn:E2. apply reload_same in E2. inv H.
        eapply same_trans; eassumption.
      + inv H. eapply same_trans; [exact S0|apply same_cache_remove].
    - destruct (renew_cert _ _ _ _) as [[e0 o] w0] eqn:E0. cbv beta iota zeta in H.
      apply renew_cert_same in E0. destruct o.
      + destruct (reload w0 c) as [[e2 r2] w2] eqn:E2. apply reload_same in E2. inv H.
        eapply same_trans; eassumption.
      + inv H. eapply same_trans; [exact E0|apply same_cache_remove].
  Qed.

  Lemma gate_truthful w n req ge a w1 : gate is_space w n req = (ge, a, w1) -> winv w ->
    plain ge /\ winv w1.
  Proof.
    unfold gate, winv. intros H [O L].
    destruct (req && negb (od_on w)); [inv H; split; [constructor|auto]|].
    destruct (negb (qualifies is_space n)); [inv H; split; [constructor|auto]|].
    destruct (w_od w) as [[f|l]|] eqn:E; inv H.
    - split; [|cbn; split; [congruence|lia]].
      constructor; [|constructor]. exists f, (w_evals w). auto.
    - split; [|split; [congruence|exact L]]. constructor; [|constructor]. exists l. auto.
    - split; [constructor|split; [congruence|exact L]].
  Qed.

  Lemma plain_app a b : plain a -> plain b -> plain (a ++ b).
  Proof. apply Forall_app_intro || (intros; apply Forall_app; auto). Qed.

  Lemma rar_truthful w n c ok e r w1 : renew_and_reload is_space w n c ok = (e, r, w1) ->
    winv w -> plain e /\ winv w1.
  Proof.
    unfold renew_and_reload. intros H W.
    destruct (gate is_space w (renew_gate_name n c) true) as [[ge a] w0] eqn:G. cbv beta iota zeta in H.
    apply gate_truthful in G as [PG W0]; [|exact W].
    destruct a; cbn [negb] in H.
    - destruct (c_revoked c).
      + destruct (force_renew w0 c ok) as [[e1 r1] w2] eqn:E1.
        pose proof (force_renew_same _ _ _ _ _ _ E1) as S1.
        apply force_renew_facts in E1 as [F1 _]. inv H.
        split; [apply plain_app; [exact PG|apply evalfree_plain; exact F1]|eapply winv_same; eassumption].
      + destruct (renew_cert w0 n false ok) as [[e1 o1] w2] eqn:E1.
        pose proof (renew_cert_same _ _ _ _ _ _ _ E1) as S1.
        apply renew_cert_facts in E1 as [F1 _]. cbv beta iota zeta in H. destruct o1.
        * destruct (reload w2 c) as [[e2 r2] w3] eqn:E2.
          pose proof (reload_same _ _ _ _ _ E2) as S2. apply reload_facts in E2 as [F2 _]. inv H.
          split; [|eapply winv_same; [exact S2|eapply winv_same; eassumption]].
          apply plain_app; [exact PG|]. apply plain_app; apply evalfree_plain; assumption.
        * inv H. split; [|eapply winv_same; eassumption].
          apply plain_app; [exact PG|apply evalfree_plain; exact F1].
    - inv H. split; [|eapply winv_same; [apply same_cache_remove|exact W0]].
      apply plain_app; [exact PG|]. constructor; [exact I|constructor].
  Qed.

  Variable h : hello.

  Lemma rd_truthful w c held e k r w1 : renew_dynamic is_space w h c held = (e, k, r, w1) ->
    winv w -> plain e /\ Forall plain k /\ winv w1.
  Proof.
    unfold renew_dynamic. intros H W. destruct (h_name h) as [n|].
    2:{ inv H. split; [constructor|split; [constructor|exact W]]. }
    destruct held.
    - destruct (c_expired c || c_revoked c); inv H; (split; [|split; [constructor|exact W]]); constructor.
    - destruct (c_expired c).
      + destruct (renew_and_reload _ _ _ _ _) as [[e1 r1] w2] eqn:E1.
        apply rar_truthful in E1 as [A W2]; [|exact W]. inv H. split; [exact A|split; [constructor|exact W2]].
      + destruct (renew_and_reload _ _ _ _ _) as [[e1 r1] w2] eqn:E1.
        apply rar_truthful in E1 as [A W2]; [|exact W]. inv H.
        split; [constructor|split; [constructor; [exact A|constructor]|exact W2]].
  Qed.

  Section Knot.
    Variable LAM : world -> hello -> name -> bool -> out (option mres).
    Hypothesis HL : forall w n held e k r w1, LAM w h n held = (e, k, r, w1) ->
      winv w -> plain e /\ Forall plain k /\ winv w1.

    Lemma ood_truthful w n e k r w1 : obtain_on_demand LAM w h n = (e, k, r, w1) ->
      winv w -> plain e /\ Forall plain k /\ winv w1.
    Proof.
      unfold obtain_on_demand. intros H W.
      destruct (obtain_cert w n (h_issue_ok h)) as [[e1 o] w0] eqn:E1.
      pose proof (obtain_cert_same _ _ _ _ _ _ E1) as S1.
      apply obtain_cert_facts in E1 as [F1 _]. cbv beta iota zeta in H.
      pose proof (winv_same _ _ S1 W) as W0. destruct o.
      - destruct (LAM w0 h n true) as [[[e2 k2] r2] w2] eqn:E2.
        apply HL in E2 as (A2 & K2 & W2); [|exact W0]. inv H.
        split; [apply plain_app; [apply evalfree_plain; exact F1|exact A2]|auto].
      - inv H. split; [apply evalfree_plain; exact F1|split; [constructor|exact W0]].
    Qed.

    Lemma rin_truthful w c held e k r w1 :
      renew_if_necessary is_space LAM w h c held = (e, k, r, w1) ->
      winv w -> plain e /\ Forall plain k /\ winv w1.
    Proof.
      unfold renew_if_necessary. intros H W. destruct (due c).
      2:{ inv H. split; [constructor|split; [constructor|exact W]]. }
      destruct (store_has (name0 c) w).
      - destruct (renew_dynamic is_space w h c held) as [[[e1 k1] r1] w2] eqn:E1.
        apply rd_truthful in E1 as (A & K & W2); [|exact W]. inv H.
        split; [constructor; [exact I|exact A]|auto].
      - destruct (h_name h) as [n|].
        2:{ inv H. split; [constructor; [exact I|constructor]|split; [constructor|exact W]]. }
        destruct (gate is_space w n true) as [[ge a] w0] eqn:G. cbv beta iota zeta in H.
        apply gate_truthful in G as [PG W0]; [|exact W]. destruct a.
        + destruct held.
          { inv H. split; [constructor; [exact I|exact PG]|split; [constructor|exact W0]]. }
          destruct (obtain_on_demand LAM w0 h n) as [[[e1 k1] r1] w2] eqn:E1.
          apply ood_truthful in E1 as (A1 & K1 & W2); [|exact W0]. inv H.
          split; [constructor; [exact I|apply plain_app; assumption]|auto].
        + inv H. split; [|split; [constructor|eapply winv_same; [apply same_cache_remove|exact W0]]].
          constructor; [exact I|]. apply plain_app; [exact PG|]. constructor; [exact I|constructor].
    Qed.

    Lemma maint_truthful w c held e k r w1 :
      maintenance is_space LAM w h c held = (e, k, r, w1) ->
      winv w -> plain e /\ Forall plain k /\ winv w1.
    Proof.
      unfold maintenance. intros H W.
      match type of H with (let '(ka, wa) := ?X in _) = _ => destruct X as [ka wa] eqn:EA end.
      cbv beta iota zeta in H.
      assert (A : Forall plain ka /\ winv wa).
      { destruct (c_ari c) as [d|]; [|inv EA; split; [constructor|exact W]].
        destruct (c_expired c); [inv EA; split; [constructor|exact W]|].
        match type of EA with context [renew_if_necessary ?a ?b ?c ?d ?e ?f] =>
          destruct (renew_if_necessary a b c d e f) as [[[e0 k0] r0] w0] eqn:E0 end.
        inv EA.
        match type of E0 with renew_if_necessary _ _ ?X _ _ _ = _ => assert (OW : winv X) end.
        { destruct (match store_find (name0 c) w with Some s => c_ari s | None => None end);
            [destruct (cache_find (c_id c) w)|]; exact W. }
        apply rin_truthful in E0 as (A0 & K0 & W0); [|exact OW].
        split; [|exact W0]. constructor; [constructor; [exact I|exact A0]|exact K0]. }
      destruct A as [KA WA].
      destruct (c_managed c && negb (is_empty_names c) && c_revoked c).
      - destruct (renew_dynamic is_space wa h c held) as [[[e1 k1] r1] w2] eqn:E1.
        apply rd_truthful in E1 as (A1 & K1 & W1); [|exact WA]. inv H.
        split; [exact A1|]. split; [apply Forall_app; auto|exact W1].
      - destruct (renew_if_necessary is_space LAM wa h c held) as [[[e1 k1] r1] w2] eqn:E1.
        apply rin_truthful in E1 as (A1 & K1 & W1); [|exact WA]. inv H.
        split; [exact A1|]. split; [apply Forall_app; auto|exact W1].
    Qed.
  End Knot.

  Lemma lam_truthful fuel : forall w n held e k r w1,
    load_and_maintain is_space fuel w h n held = (e, k, r, w1) ->
    winv w -> plain e /\ Forall plain k /\ winv w1.
  Proof.
    induction fuel as [|f IH]; intros w n held e k r w1 H W; cbn [load_and_maintain] in H.
    - inv H. split; [constructor|split; [constructor|exact W]].
    - match type of H with (match ?X with _ => _ end) = _ => destruct X as [[le s]|] eqn:EF end.
      + assert (FL : plain le).
        { apply evalfree_plain. destruct (store_find n w); [inv EF; reflexivity|].
          destruct (store_find (wild n) w); inv EF; reflexivity. }
        cbv zeta in H.
        match type of H with context [cache_add (as_loaded s) ?W0] => set (w0 := W0) in * end.
        assert (S0 : same_pe w w0) by (unfold w0; destruct (h_vanish h && negb held); [apply same_store_del|apply same_refl]).
        destruct (maintenance is_space (load_and_maintain is_space f) (cache_add (as_loaded s) w0) h (as_loaded s) held)
          as [[[e1 k1] r1] w2] eqn:E1.
        apply (maint_truthful _ IH) in E1 as (A1 & K1 & W1);
          [|eapply winv_same; [apply same_cache_add|eapply winv_same; [exact S0|exact W]]].
        inv H. split; [apply plain_app; assumption|auto].
      + inv H. split; [|split; [constructor|exact W]].
        constructor; [exact I|constructor; [exact I|constructor]].
  Qed.

  Lemma after_mgr_truthful fuel w n load e k res w1 : after_mgr is_space fuel w h n load = (e, k, res, w1) ->
    winv w -> plain e /\ Forall plain k /\ winv w1.
  Proof.
    unfold after_mgr. intros H W.
    destruct (gate is_space w n false) as [[ge a] w0] eqn:G. cbv beta iota zeta in H.
    apply gate_truthful in G as [PG W0]; [|exact W].
    destruct a; cbn [negb] in H; [|inv H; split; [exact PG|split; [constructor|exact W0]]].
    destruct ((od_on w0 || almost_full w0) && load); [|inv H; split; [exact PG|split; [constructor|exact W0]]].
    destruct (load_and_maintain is_space (S fuel) w0 h n false) as [[[e1 k1] r1] w2] eqn:E1.
    apply lam_truthful in E1 as (A1 & K1 & W2); [|exact W0].
    destruct r1 as [m|].
    + destruct m; inv H; (split; [apply plain_app; assumption|auto]).
    + destruct (od_on w2).
      * destruct (obtain_on_demand _ _ _ _) as [[[e2 k2] m2] w3] eqn:E2.
        apply (ood_truthful _ (lam_truthful fuel)) in E2 as (A2 & K2 & W3); [|exact W2]. inv H.
        split; [apply plain_app; [exact PG|apply plain_app; assumption]|].
        split; [apply Forall_app; auto|exact W3].
      * inv H. split; [apply plain_app; assumption|auto].
  Qed.

  Lemma get_cert_truthful fuel w load e k res w1 : get_cert is_space fuel w h load = (e, k, res, w1) ->
    winv w -> plain e /\ Forall plain k /\ winv w1.
  Proof.
    unfold get_cert. intros H W.
    destruct (match h_hit h with Some id => cache_find id w | None => None end) as [c|].
    - destruct (c_managed c && od_on w && load).
      + destruct (maintenance _ _ _ _ _ _) as [[[e1 k1] r1] w2] eqn:E1.
        apply (maint_truthful _ (lam_truthful fuel)) in E1 as (A1 & K1 & W1); [|exact W]. inv H. auto.
      + inv H. split; [constructor|split; [constructor|exact W]].
    - destruct (h_name h) as [n|]; [|inv H; split; [constructor|split; [constructor|exact W]]].
      destruct (mgr_view w h).
      + eapply after_mgr_truthful; eauto.
      + destruct (after_mgr is_space fuel w h n load) as [[[e1 k1] r1] w2] eqn:E1. inv H.
        apply after_mgr_truthful in E1 as (A & K & W1); [|exact W].
        split; [constructor; [exact I|exact A]|auto].
      + inv H. split; [constructor; [exact I|constructor]|split; [constructor|exact W]].
      + inv H. split; [constructor; [exact I|constructor]|split; [constructor|exact W]].
  Qed.
End Truthful.

(** * 9. The monitor used by the correspondence check holds of the model *)
Section SpecModel.
  Variable is_space : N -> bool.

  Theorem answers_truthful w h e k res w1 :
    handshake is_space w h = (e, k, res, w1) ->
    forall g, In g (e :: k) -> forall x, In x g -> truthful (w_od w) (w_evals w) x.
  Proof.
    intros H g Hg x Hx.
    destruct (get_cert_truthful is_space (w_od w) (w_evals w) h _ _ _ _ _ _ _ H) as (A & K & _).
    { split; [reflexivity|lia]. }
    assert (P : plain (w_od w) (w_evals w) g).
    { destruct Hg as [<-|Hg]; [exact A|]. rewrite Forall_forall in K. apply K; exact Hg. }
    unfold plain in P. rewrite Forall_forall in P. apply P; exact Hx.
  Qed.

  Lemma exists_filter (P : effect -> bool) gs :
    existsb (existsb P) (map (filter observable) gs) = true -> existsb (existsb P) gs = true.
  Proof.
    intros Ex. apply existsb_exists in Ex as (g' & Hg' & Eg').
    apply in_map_iff in Hg' as (g & <- & Hg).
    apply existsb_exists in Eg' as (x & Hx & Px). apply filter_In in Hx as [Hx _].
    apply existsb_exists. exists g. split; [exact Hg|]. apply existsb_exists. exists x. auto.
  Qed.

  Lemma scan_filter n hk g : (forall m r, ~ In (EAllow m r) g) ->
    forall st, scan is_space n hk st (filter observable g) = scan is_space n hk st g.
  Proof.
    induction g as [|x g IH]; intros NA st; [reflexivity|].
    assert (NA' : forall m r, ~ In (EAllow m r) g) by (intros m r I; apply (NA m r); right; exact I).
    cbn [filter]. destruct x; cbn [observable scan eval_of needs_gate]; rewrite ?IH by exact NA'; try reflexivity.
    exfalso. apply (NA n0 r). left; reflexivity.
  Qed.

  Theorem spec_hs_model w h e k res w1 :
    handshake is_space w h = (e, k, res, w1) -> store_wf w ->
    spec_hs is_space (w_od w) (h_name h) (hit_key w h) (map (filter observable) (e :: k)) = true.
  Proof.
    intros H W.
    pose proof (handshake_gated_ok is_space _ _ _ _ _ _ H W) as G.
    pose proof (answers_truthful _ _ _ _ _ _ H) as T.
    unfold spec_hs. destruct (w_od w) as [[f|l]|] eqn:P.
    - (* decision function *)
      assert (NA : forall g, In g (e :: k) -> forall m r, ~ In (EAllow m r) g).
      { intros g Hg m r I. destruct (T g Hg _ I) as (l & Hl & _). discriminate. }
      unfold gated_ok, od_on in *. rewrite P in G.
      destruct (h_name h) as [n|].
      + apply forallb_forall. intros g' Hg'. apply in_map_iff in Hg' as (g & <- & Hg).
        rewrite forallb_forall in G. specialize (G g Hg). unfold scan_ok in *.
        rewrite scan_filter by (apply NA; exact Hg). exact G.
      + apply negb_true_iff in G. apply negb_true_iff. apply not_true_iff_false. intros Ex.
        apply exists_filter in Ex. congruence.
    - (* allowlist *)
      assert (D : od_on w = true) by (unfold od_on; rewrite P; reflexivity).
      destruct (h_name h) as [n|] eqn:Hn.
      + apply forallb_forall. intros g' Hg'. apply in_map_iff in Hg' as (g & <- & Hg).
        apply forallb_forall. intros x Hx. apply filter_In in Hx as [Hx _].
        destruct (needs_gate x) eqn:Nx; [|destruct x; try discriminate; reflexivity].
        apply In_nth_error in Hx as [i Hi].
        destruct (gated_positions is_space _ _ _ _ _ _ H D W g Hg i x Hi Nx)
          as (n' & y & j & z & Hn' & Q & F & _ & Hz & Yes & C & _).
        rewrite Hn in Hn'. inv Hn'.
        assert (A : allow_ok l y = true).
        { apply nth_error_In in Hz. specialize (T g Hg z Hz).
          destruct Yes as [-> | ->]; cbn in T.
          - destruct T as (f & k0 & Hf & _). discriminate.
          - destruct T as (l' & Hl & E'). inv Hl. symmetry. exact E'. }
        destruct x; try discriminate; cbn [allow_covers fit1] in *.
        * apply existsb_exists. apply existsb_exists in C as (c & Hc & Ec).
          apply str_eqb_eq in Ec. subst c. exists y. split; [exact Hc|]. rewrite A, Q, F. reflexivity.
        * apply str_eqb_eq in F. subst y. rewrite A, Q. reflexivity.
      + unfold gated_ok in G. rewrite D in G.
        apply negb_true_iff in G. apply negb_true_iff. apply not_true_iff_false. intros Ex.
        apply exists_filter in Ex. congruence.
    - unfold gated_ok, od_on in *. rewrite P in G.
      apply negb_true_iff in G. apply negb_true_iff. apply not_true_iff_false. intros Ex.
      apply exists_filter in Ex. congruence.
  Qed.
End SpecModel.

(** * 10. Histories, in Prop form *)
Section Histories.
  Variable is_space : N -> bool.

  Lemma run_sound : forall ops w o, In o (fst (run is_space w ops)) ->
    exists w1, handshake is_space (ho_world o) (ho_hello o) = (ho_own o, ho_kids o, ho_res o, w1).
  Proof.
    induction ops as [|op ops IH]; intros w o Ho; [destruct Ho|].
    destruct op; cbn [run] in Ho; try (eapply IH; exact Ho).
    destruct (handshake is_space w h) as [[[e k] res] w1] eqn:E.
    specialize (IH w1). destruct (run is_space w1 ops) as [tr w2]. cbn [fst] in *.
    destruct Ho as [<-|Ho]; [exists w1; exact E|apply IH; exact Ho].
  Qed.
End Histories.

(** * 10b. A handshake that runs alone never waits *)
Section NoWait.
  Variable is_space : N -> bool.
  Variable h : hello.

  Definition nowait (l : list effect) : Prop := existsb is_selfwait l = false.

  Lemma nowait_app a b : nowait a -> nowait b -> nowait (a ++ b).
  Proof. unfold nowait. rewrite existsb_app. intros -> ->; reflexivity. Qed.
  Lemma nowait_cons x a : is_selfwait x = false -> nowait a -> nowait (x :: a).
  Proof. unfold nowait; cbn [existsb]. intros -> ->; reflexivity. Qed.

  Lemma gate_nowait w n req ge a w1 : gate is_space w n req = (ge, a, w1) -> nowait ge.
  Proof. intros H. destruct (gate_shape _ _ _ _ _ _ _ H) as [->|[->| ->]]; reflexivity. Qed.
  Lemma obtain_cert_nowait w n ok e o w1 : obtain_cert w n ok = (e, o, w1) -> nowait e.
  Proof. unfold obtain_cert. destruct (store_has n w); [|destruct ok]; intros H; inv H; reflexivity. Qed.
  Lemma renew_cert_nowait w n force ok e o w1 : renew_cert w n force ok = (e, o, w1) -> nowait e.
  Proof.
    unfold renew_cert. destruct (store_find n w); [destruct (due _ || force); [destruct ok|]|];
      intros H; inv H; reflexivity.
  Qed.
  Lemma reload_nowait w c e r w1 : reload w c = (e, r, w1) -> nowait e.
  Proof. unfold reload. destruct (store_find _ w); intros H; inv H; reflexivity. Qed.

  Lemma force_renew_nowait w c ok e r w1 : force_renew w c ok = (e, r, w1) -> nowait e.
  Proof.
    unfold force_renew. intros H. destruct (c_keycomp c).
    - destruct (obtain_cert _ _ _) as [[e0 o] w0] eqn:E0. cbv beta iota zeta in H.
      apply obtain_cert_nowait in E0. destruct o.
      + destruct (reload w0 c) as [[e2 r2] w2] eqn:E2. apply reload_nowait in E2. inv H.
        apply nowait_cons; [reflexivity|]. apply nowait_app; assumption.
      + inv H. apply nowait_cons; [reflexivity|]. apply nowait_app; [assumption|reflexivity].
    - destruct (renew_cert _ _ _ _) as [[e0 o] w0] eqn:E0. cbv beta iota zeta in H.
      apply renew_cert_nowait in E0. destruct o.
      + destruct (reload w0 c) as [[e2 r2] w2] eqn:E2. apply reload_nowait in E2. inv H.
        apply nowait_app; assumption.
      + inv H. apply nowait_app; [assumption|reflexivity].
  Qed.

  Lemma rar_nowait w n c ok e r w1 : renew_and_reload is_space w n c ok = (e, r, w1) -> nowait e.
  Proof.
    unfold renew_and_reload. intros H.
    destruct (gate is_space w (renew_gate_name n c) true) as [[ge a] w0] eqn:G. cbv beta iota zeta in H.
    apply gate_nowait in G. destruct a; cbn [negb] in H.
    - destruct (c_revoked c).
      + destruct (force_renew w0 c ok) as [[e1 r1] w2] eqn:E1. apply force_renew_nowait in E1. inv H.
        apply nowait_app; assumption.
      + destruct (renew_cert w0 n false ok) as [[e1 o1] w2] eqn:E1. apply renew_cert_nowait in E1.
        cbv beta iota zeta in H. destruct o1.
        * destruct (reload w2 c) as [[e2 r2] w3] eqn:E2. apply reload_nowait in E2. inv H.
          apply nowait_app; [assumption|apply nowait_app; assumption].
        * inv H. apply nowait_app; assumption.
    - inv H. apply nowait_app; [assumption|reflexivity].
  Qed.

  Lemma rd_nowait w c held e k r w1 : renew_dynamic is_space w h c held = (e, k, r, w1) ->
    nowait e /\ Forall nowait k.
  Proof.
    unfold renew_dynamic. intros H. destruct (h_name h) as [n|].
    2:{ inv H. split; [reflexivity|constructor]. }
    destruct held.
    - destruct (c_expired c || c_revoked c); inv H; (split; [reflexivity|constructor]).
    - destruct (c_expired c).
      + destruct (renew_and_reload _ _ _ _ _) as [[e1 r1] w2] eqn:E1. apply rar_nowait in E1. inv H.
        split; [assumption|constructor].
      + destruct (renew_and_reload _ _ _ _ _) as [[e1 r1] w2] eqn:E1. apply rar_nowait in E1. inv H.
        split; [reflexivity|constructor; [assumption|constructor]].
  Qed.

  Section Knot.
    Variable LAM : world -> hello -> name -> bool -> out (option mres).
    Hypothesis HL : forall w n held e k r w1, LAM w h n held = (e, k, r, w1) -> nowait e /\ Forall nowait k.

    Lemma ood_nowait w n e k r w1 : obtain_on_demand LAM w h n = (e, k, r, w1) -> nowait e /\ Forall nowait k.
    Proof.
      unfold obtain_on_demand. intros H.
      destruct (obtain_cert w n (h_issue_ok h)) as [[e1 o] w0] eqn:E1. apply obtain_cert_nowait in E1.
      cbv beta iota zeta in H. destruct o.
      - destruct (LAM w0 h n true) as [[[e2 k2] r2] w2] eqn:E2. apply HL in E2 as [A K]. inv H.
        split; [apply nowait_app; assumption|assumption].
      - inv H. split; [assumption|constructor].
    Qed.

    Lemma rin_nowait w c held e k r w1 : renew_if_necessary is_space LAM w h c held = (e, k, r, w1) ->
      nowait e /\ Forall nowait k.
    Proof.
      unfold renew_if_necessary. intros H. destruct (due c).
      2:{ inv H. split; [reflexivity|constructor]. }
      destruct (store_has (name0 c) w).
      - destruct (renew_dynamic is_space w h c held) as [[[e1 k1] r1] w2] eqn:E1.
        apply rd_nowait in E1 as [A K]. inv H. split; [apply nowait_cons; [reflexivity|assumption]|assumption].
      - destruct (h_name h) as [n|].
        2:{ inv H. split; [reflexivity|constructor]. }
        destruct (gate is_space w n true) as [[ge a] w0] eqn:G. cbv beta iota zeta in H.
        apply gate_nowait in G. destruct a.
        + destruct held.
          { inv H. split; [apply nowait_cons; [reflexivity|assumption]|constructor]. }
          destruct (obtain_on_demand LAM w0 h n) as [[[e1 k1] r1] w2] eqn:E1.
          apply ood_nowait in E1 as [A K]. inv H.
          split; [apply nowait_cons; [reflexivity|apply nowait_app; assumption]|assumption].
        + inv H. split; [|constructor].
          apply nowait_cons; [reflexivity|apply nowait_app; [assumption|reflexivity]].
    Qed.

    Lemma maint_nowait w c held e k r w1 : maintenance is_space LAM w h c held = (e, k, r, w1) ->
      nowait e /\ Forall nowait k.
    Proof.
      unfold maintenance. intros H.
      match type of H with (let '(ka, wa) := ?X in _) = _ => destruct X as [ka wa] eqn:EA end.
      cbv beta iota zeta in H.
      assert (A : Forall nowait ka).
      { destruct (c_ari c) as [d|]; [|inv EA; constructor].
        destruct (c_expired c); [inv EA; constructor|].
        match type of EA with context [renew_if_necessary ?a ?b ?c ?d ?e ?f] =>
          destruct (renew_if_necessary a b c d e f) as [[[e0 k0] r0] w0] eqn:E0 end.
        inv EA. apply rin_nowait in E0 as [A0 K0].
        constructor; [apply nowait_cons; [reflexivity|assumption]|assumption]. }
      destruct (c_managed c && negb (is_empty_names c) && c_revoked c).
      - destruct (renew_dynamic is_space wa h c held) as [[[e1 k1] r1] w2] eqn:E1.
        apply rd_nowait in E1 as [A1 K1]. inv H. split; [assumption|apply Forall_app; auto].
      - destruct (renew_if_necessary is_space LAM wa h c held) as [[[e1 k1] r1] w2] eqn:E1.
        apply rin_nowait in E1 as [A1 K1]. inv H. split; [assumption|apply Forall_app; auto].
    Qed.
  End Knot.

  Lemma lam_nowait fuel : forall w n held e k r w1,
    load_and_maintain is_space fuel w h n held = (e, k, r, w1) -> nowait e /\ Forall nowait k.
  Proof.
    induction fuel as [|f IH]; intros w n held e k r w1 H; cbn [load_and_maintain] in H.
    - inv H. split; [reflexivity|constructor].
    - match type of H with (match ?X with _ => _ end) = _ => destruct X as [[le s]|] eqn:EF end.
      + assert (FL : nowait le).
        { destruct (store_find n w); [inv EF; reflexivity|].
          destruct (store_find (wild n) w); inv EF; reflexivity. }
        cbv zeta in H.
        match type of H with context [cache_add (as_loaded s) ?W0] => set (w0 := W0) in * end.
        destruct (maintenance is_space (load_and_maintain is_space f) (cache_add (as_loaded s) w0) h (as_loaded s) held)
          as [[[e1 k1] r1] w2] eqn:E1.
        apply (maint_nowait _ IH) in E1 as [A1 K1]. inv H. split; [apply nowait_app; assumption|assumption].
      + inv H. split; [reflexivity|constructor].
  Qed.

  Lemma after_mgr_nowait fuel w n load e k res w1 : after_mgr is_space fuel w h n load = (e, k, res, w1) ->
    nowait e /\ Forall nowait k.
  Proof.
    unfold after_mgr. intros H.
    destruct (gate is_space w n false) as [[ge a] w0] eqn:G. cbv beta iota zeta in H.
    apply gate_nowait in G.
    destruct a; cbn [negb] in H; [|inv H; split; [assumption|constructor]].
    destruct ((od_on w0 || almost_full w0) && load); [|inv H; split; [assumption|constructor]].
    destruct (load_and_maintain is_space (S fuel) w0 h n false) as [[[e1 k1] r1] w2] eqn:E1.
    apply lam_nowait in E1 as [A1 K1].
    destruct r1 as [m|].
    + destruct m; inv H; (split; [apply nowait_app; assumption|assumption]).
    + destruct (od_on w2).
      * destruct (obtain_on_demand _ _ _ _) as [[[e2 k2] m2] w3] eqn:E2.
        apply (ood_nowait _ (lam_nowait fuel)) in E2 as [A2 K2]. inv H.
        split; [apply nowait_app; [assumption|apply nowait_app; assumption]|apply Forall_app; auto].
      * inv H. split; [apply nowait_app; assumption|assumption].
  Qed.

  (** a handshake that runs alone never waits: no effect list of the model contains a self-wait
      (the three waiting selects are only ever entered for another goroutine's channel; the load
      and obtain channels a goroutine registered itself are recognised [fixes 29c65de, a768045]) *)
  Theorem get_cert_nowait fuel w load e k res w1 : get_cert is_space fuel w h load = (e, k, res, w1) ->
    nowait e /\ Forall nowait k.
  Proof.
    unfold get_cert. intros H.
    destruct (match h_hit h with Some id => cache_find id w | None => None end) as [c|].
    - destruct (c_managed c && od_on w && load).
      + destruct (maintenance _ _ _ _ _ _) as [[[e1 k1] r1] w2] eqn:E1.
        apply (maint_nowait _ (lam_nowait fuel)) in E1 as [A1 K1]. inv H. auto.
      + inv H. split; [reflexivity|constructor].
    - destruct (h_name h) as [n|]; [|inv H; split; [reflexivity|constructor]].
      destruct (mgr_view w h).
      + eapply after_mgr_nowait; eauto.
      + destruct (after_mgr is_space fuel w h n load) as [[[e1 k1] r1] w2] eqn:E1. inv H.
        apply after_mgr_nowait in E1 as [A K]. split; [apply nowait_cons; [reflexivity|assumption]|assumption].
      + inv H. split; [reflexivity|constructor].
      + inv H. split; [reflexivity|constructor].
  Qed.
End NoWait.

Theorem handshake_no_selfwait is_space w h e k res w1 :
  handshake is_space w h = (e, k, res, w1) -> no_selfwait (e :: k) = true.
Proof.
  intros H. destruct (get_cert_nowait is_space h _ _ _ _ _ _ _ H) as [A K].
  unfold no_selfwait. apply negb_true_iff. apply not_true_iff_false. intros Ex.
  apply existsb_exists in Ex as (g & Hg & Eg).
  assert (N : nowait g).
  { destruct Hg as [<-|Hg]; [exact A|]. rewrite Forall_forall in K. apply K; exact Hg. }
  unfold nowait in N. congruence.
Qed.

(** * 10c. Every handshake ends with an error or a certificate: never the empty certificate with a
    nil error (optionalMaintenance serves the certificate it was given, or fails; loadCertFromStorage
    reports a maintenance failure without a certificate as an error) *)
Theorem handshake_result_not_empty is_space w h e k res w1 :
  handshake is_space w h = (e, k, res, w1) -> res <> REmpty.
Proof.
  unfold handshake, get_cert. intros H.
  destruct (match h_hit h with Some id => cache_find id w | None => None end) as [c|].
  - destruct (c_managed c && od_on w && true).
    + destruct (maintenance _ _ _ _ _ _) as [[[e1 k1] r1] w2]. inv H.
      destruct r1; try discriminate; destruct (c_expired c); discriminate.
    + inv H. discriminate.
  - destruct (h_name h) as [n|]; [|inv H; discriminate].
    assert (A : forall e k res w1, after_mgr is_space fuel0 w h n true = (e, k, res, w1) -> res <> REmpty).
    { clear H. unfold after_mgr, fallback, res_of. intros e0 k0 r0 w0 H.
      destruct (gate is_space w n false) as [[ge a] wg]. cbv beta iota zeta in H.
      destruct a; cbn [negb] in H; [|inv H; discriminate].
      destruct ((od_on wg || almost_full wg) && true).
      2:{ inv H. destruct (h_default h); discriminate. }
      destruct (load_and_maintain _ _ _ _ _ _) as [[[e1 k1] r1] w2].
      destruct r1 as [m|].
      - destruct m; inv H; try discriminate; destruct (h_default h); discriminate.
      - destruct (od_on w2).
        + destruct (obtain_on_demand _ _ _ _) as [[[e2 k2] m2] w3]. inv H. destruct m2; discriminate.
        + inv H. destruct (h_default h); discriminate. }
    destruct (mgr_view w h).
    + eapply A; eauto.
    + destruct (after_mgr is_space fuel0 w h n true) as [[[e1 k1] r1] w2] eqn:E1. inv H. eapply A; eauto.
    + inv H. discriminate.
    + inv H. discriminate.
Qed.

(** * 11. The literals of the source the model was written against (translator item
    c02EmitC02GateShape): the cache-miss gate is called with requireOnDemand = false, the two
    renewal-side gates (storage-missing branch of handshakeMaintenance, renewAndReload) with true, and
    no other function calls the gate; the almost-full factor is 9/10; the obtain call after a failed
    load is guarded by !errors.Is(err, errMaintainingLoadedCert).  By computation: any change of these
    in the source breaks this proof. *)
Lemma source_shape :
  hs_gate_require_args = [[false]; [true]; [true]] /\
  (hs_almost_full_num = 9 /\ hs_almost_full_den = 10)%nat /\
  hs_no_obtain_after_maintenance_error = true.
Proof. repeat split. Qed.
